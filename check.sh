#!/bin/bash
# check.sh <PROP> <quick|thorough> [--replay file] | --build-only
# Rebuilds vcheck from the *current* /repo tree (hooks on: -tags verif) and runs one property.
set -uo pipefail
cd "$(dirname "$0")"
. ./env.sh
REPO="${VERIF_REPO:-/repo}"
MODFLAG=()
if [ "$REPO" != "/repo" ]; then
  sed "s#=> /repo\$#=> $REPO#" harness/go.mod > harness/go.alt.mod
  cp harness/go.sum harness/go.alt.sum
  MODFLAG=(-modfile=go.alt.mod)
  BIN="bin/vcheck.alt.$$"
else
  BIN="bin/vcheck"
fi
mkdir -p bin evidence replays
build() {
  (cd harness && go build "${MODFLAG[@]}" -tags verif -o "../$BIN.tmp.$$" ./cmd/vcheck) 2> bin/build.$$.log
  rc=$?
  if [ $rc -ne 0 ]; then
    echo "BUILD FAILED (exit $rc):"; tail -40 bin/build.$$.log; rm -f bin/build.$$.log "$BIN.tmp.$$"
    return 3
  fi
  rm -f bin/build.$$.log
  mv -f "$BIN.tmp.$$" "$BIN"
}
if [ "${1:-}" = "--build-only" ]; then build; exit $?; fi
PROP="${1:?property id}"; TIER="${2:-quick}"; shift; shift || true
build || exit 3
if [ "$PROP" = "C17" ]; then
  # C17 runs one more replica of every history under the Go race detector: same sources, built with -race
  (cd harness && go build "${MODFLAG[@]}" -race -tags verif -o "../$BIN.race.tmp.$$" ./cmd/vcheck) 2> bin/build.$$.log
  if [ $? -ne 0 ]; then echo "BUILD FAILED (-race):"; tail -40 bin/build.$$.log; rm -f bin/build.$$.log "$BIN.race.tmp.$$"; exit 3; fi
  rm -f bin/build.$$.log; mv -f "$BIN.race.tmp.$$" "$BIN.race"
  export VERIF_RACE_BIN="$PWD/$BIN.race"
fi
if [ "${1:-}" = "--replay" ]; then
  "./$BIN" -replay "$2" -verif "$PWD"; rc=$?
else
  "./$BIN" -prop "$PROP" -tier "$TIER" -verif "$PWD" "$@"; rc=$?
fi
if [ "$REPO" != "/repo" ]; then rm -f "$BIN" "$BIN.race" harness/go.alt.mod harness/go.alt.sum; fi
exit $rc
