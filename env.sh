export GOFLAGS=-mod=mod GOPROXY=off GOSUMDB=off GOTOOLCHAIN=local CGO_ENABLED=1
export PATH=$PATH:/usr/local/go/bin:/root/go/bin
