// Package abienc is a small, independent implementation of Solidity's abi.encode for
// the argument lists used by FxBridgeLogic.sol's checkpoint digests. It deliberately
// shares no code with go-ethereum's accounts/abi or the gotron-sdk encoder that
// fx-core uses, so it can serve as the reference in a differential check.
package abienc

import (
	"crypto/sha256"
	"errors"
	"math/big"
	"strings"

	"golang.org/x/crypto/sha3"
)

type Val struct {
	head []byte // 32 bytes for static values
	tail []byte // non-nil for dynamic values
}

func word(b []byte) []byte {
	out := make([]byte, 32)
	copy(out[32-len(b):], b)
	return out
}

func Uint(v *big.Int) Val {
	if v.Sign() < 0 || v.BitLen() > 256 {
		panic("uint256 out of range")
	}
	return Val{head: word(v.Bytes())}
}

func Uint64(v uint64) Val { return Uint(new(big.Int).SetUint64(v)) }

func Bytes32(b [32]byte) Val { return Val{head: append([]byte{}, b[:]...)} }

// Bytes32Str left-aligns a short ASCII string in a bytes32 (Solidity bytes32 literal of a string).
func Bytes32Str(s string) Val {
	if len(s) > 32 {
		panic("string too long for bytes32")
	}
	var b [32]byte
	copy(b[:], s)
	return Bytes32(b)
}

func Address(a [20]byte) Val { return Val{head: word(a[:])} }

func AddressArray(as [][20]byte) Val {
	t := word(big.NewInt(int64(len(as))).Bytes())
	for _, a := range as {
		t = append(t, word(a[:])...)
	}
	return Val{tail: t}
}

func UintArray(vs []*big.Int) Val {
	t := word(big.NewInt(int64(len(vs))).Bytes())
	for _, v := range vs {
		t = append(t, Uint(v).head...)
	}
	return Val{tail: t}
}

func Bytes(b []byte) Val {
	t := word(big.NewInt(int64(len(b))).Bytes())
	t = append(t, b...)
	if r := len(b) % 32; r != 0 {
		t = append(t, make([]byte, 32-r)...)
	}
	return Val{tail: t}
}

// Encode = abi.encode(vals...)
func Encode(vals ...Val) []byte {
	headLen := 32 * len(vals)
	var head, tail []byte
	for _, v := range vals {
		if v.tail == nil {
			head = append(head, v.head...)
			continue
		}
		head = append(head, word(big.NewInt(int64(headLen+len(tail))).Bytes())...)
		tail = append(tail, v.tail...)
	}
	return append(head, tail...)
}

func Keccak(b []byte) []byte {
	h := sha3.NewLegacyKeccak256()
	h.Write(b)
	return h.Sum(nil)
}

// EthAddr parses a 0x-prefixed 40-digit hex address (any case).
func EthAddr(s string) ([20]byte, error) {
	var out [20]byte
	s = strings.TrimPrefix(strings.TrimPrefix(s, "0x"), "0X")
	if len(s) != 40 {
		return out, errors.New("bad address length")
	}
	for i := 0; i < 20; i++ {
		hi, ok1 := hexv(s[2*i])
		lo, ok2 := hexv(s[2*i+1])
		if !ok1 || !ok2 {
			return out, errors.New("bad hex")
		}
		out[i] = hi<<4 | lo
	}
	return out, nil
}

func hexv(c byte) (byte, bool) {
	switch {
	case c >= '0' && c <= '9':
		return c - '0', true
	case c >= 'a' && c <= 'f':
		return c - 'a' + 10, true
	case c >= 'A' && c <= 'F':
		return c - 'A' + 10, true
	}
	return 0, false
}

const b58 = "123456789ABCDEFGHJKLMNPQRSTUVWXYZabcdefghijkmnopqrstuvwxyz"

// TronAddr decodes a base58check Tron address (0x41 || 20 bytes || 4 checksum bytes).
func TronAddr(s string) ([20]byte, error) {
	var out [20]byte
	n := new(big.Int)
	for i := 0; i < len(s); i++ {
		idx := strings.IndexByte(b58, s[i])
		if idx < 0 {
			return out, errors.New("bad base58")
		}
		n.Mul(n, big.NewInt(58))
		n.Add(n, big.NewInt(int64(idx)))
	}
	raw := n.Bytes()
	for i := 0; i < len(s) && s[i] == '1'; i++ {
		raw = append([]byte{0}, raw...)
	}
	if len(raw) != 25 || raw[0] != 0x41 {
		return out, errors.New("bad tron address")
	}
	h1 := sha256.Sum256(raw[:21])
	h2 := sha256.Sum256(h1[:])
	if string(h2[:4]) != string(raw[21:]) {
		return out, errors.New("bad checksum")
	}
	copy(out[:], raw[1:21])
	return out, nil
}
