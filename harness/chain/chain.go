// Package chain drives the real, fully wired fx-core application: harness-built
// genesis, real ABCI blocks (ProcessProposal / FinalizeBlock / Commit) with virtual
// block time, message-server and EVM entry on the block's finalize-state context
// (the way the repository's own helpers.BaseSuite does it), store dumps, event
// capture and the registered SDK invariants.
package chain

import (
	"crypto/sha256"
	"encoding/binary"
	"encoding/hex"
	"encoding/json"
	"fmt"
	"math/big"
	"os"
	"reflect"
	"runtime/debug"
	"sort"
	"strings"
	"sync"
	"time"

	"cosmossdk.io/log"
	sdkmath "cosmossdk.io/math"
	storetypes "cosmossdk.io/store/types"
	abci "github.com/cometbft/cometbft/abci/types"
	cmtproto "github.com/cometbft/cometbft/proto/tendermint/types"
	cmttypes "github.com/cometbft/cometbft/types"
	dbm "github.com/cosmos/cosmos-db"
	"github.com/cosmos/cosmos-sdk/baseapp"
	codectypes "github.com/cosmos/cosmos-sdk/codec/types"
	cryptocodec "github.com/cosmos/cosmos-sdk/crypto/codec"
	sdk "github.com/cosmos/cosmos-sdk/types"
	authtypes "github.com/cosmos/cosmos-sdk/x/auth/types"
	banktypes "github.com/cosmos/cosmos-sdk/x/bank/types"
	govtypes "github.com/cosmos/cosmos-sdk/x/gov/types"
	minttypes "github.com/cosmos/cosmos-sdk/x/mint/types"
	slashingtypes "github.com/cosmos/cosmos-sdk/x/slashing/types"
	stakingtypes "github.com/cosmos/cosmos-sdk/x/staking/types"
	gogoproto "github.com/cosmos/gogoproto/proto"
	ibcexported "github.com/cosmos/ibc-go/v8/modules/core/exported"
	coretypes "github.com/cosmos/ibc-go/v8/modules/core/types"
	feemarkettypes "github.com/evmos/ethermint/x/feemarket/types"
	"github.com/spf13/viper"

	"github.com/functionx/fx-core/v8/app"
	fxtypes "github.com/functionx/fx-core/v8/types"
	crosschaintypes "github.com/functionx/fx-core/v8/x/crosschain/types"
)

const ChainID = "fxcore"

var cfgOnce sync.Once

// FX returns n whole FX (n * 1e18) as Int.
func FX(n int64) sdkmath.Int { return sdkmath.NewInt(n).MulRaw(1e18) }

func FXCoin(n int64) sdk.Coin { return sdk.NewCoin(fxtypes.DefaultDenom, FX(n)) }

// Config describes a chain instance. Everything is a pure function of it.
type Config struct {
	Seed     uint64
	NumVals  int
	NumUsers int
	// UserFX is the FX balance (whole units) of each user account at genesis.
	UserFX int64
	// ValBond is the self bond of every validator in whole FX (power = bond/100).
	ValBond int64
	// CrosschainParams lets a monitor adjust the params of every crosschain module.
	CrosschainParams func(chain string, p *crosschaintypes.Params)
	// AppOpts are passed as viper keys to app.New (bypass-min-fee settings etc.).
	AppOpts map[string]interface{}
	// MinGasPrices is the node's minimum gas price setting (CheckTx only), e.g. "4000000000000FX".
	MinGasPrices string
	// KeepInflation leaves the default mint parameters (otherwise inflation is zero).
	KeepInflation bool
	// KeepFees leaves the default fee market (otherwise base fee / min gas price are zero).
	KeepFees bool
	// BlockTime is the default virtual time added per block.
	BlockTime time.Duration
	// InitialHeight is the height of the first block (default 1).
	InitialHeight int64
	// GenesisHook may edit the genesis state before InitChain.
	GenesisHook func(c *Chain, gs app.GenesisState)
}

type Validator struct {
	Cons     cmttypes.PrivValidator
	ConsAddr sdk.ConsAddress
	Operator Key
	Power    int64
}

type Chain struct {
	Cfg   Config
	App   *app.App
	Vals  []Validator
	Users []Key

	Height int64
	Time   time.Time
	// Ctx is the finalize-state context of the block that is currently open.
	Ctx sdk.Context

	// Absent lists validator indexes that do not sign the next blocks.
	Absent map[int]bool
	// Misbehavior is injected in the next FinalizeBlock and then cleared.
	Misbehavior []abci.Misbehavior

	// LastBlock is the response of the last FinalizeBlock.
	LastBlock *abci.ResponseFinalizeBlock
	// BlockErr is set when FinalizeBlock / Commit failed or panicked (C07).
	BlockErr error

	// Trace, if set, receives one line per operation (replay files, C17 corpus).
	Trace func(kind string, detail string)

	nonces map[string]uint64
}

func GovAddr() sdk.AccAddress { return authtypes.NewModuleAddress(govtypes.ModuleName) }
func GovAuthority() string    { return GovAddr().String() }

// Init sets the global bech32 / coin-type configuration once per process.
func Init() { cfgOnce.Do(func() { fxtypes.SetConfig(false) }) }

// New builds the app, the genesis and runs InitChain; the first block is open on return.
func New(cfg Config) *Chain {
	Init()
	if cfg.NumVals <= 0 {
		cfg.NumVals = 3
	}
	if cfg.ValBond <= 0 {
		cfg.ValBond = 100_000
	}
	if cfg.UserFX <= 0 {
		cfg.UserFX = 10_000_000
	}
	if cfg.BlockTime <= 0 {
		cfg.BlockTime = 5 * time.Second
	}
	c := &Chain{Cfg: cfg, Absent: map[int]bool{}, nonces: map[string]uint64{}}
	v := viper.New()
	for k, val := range cfg.AppOpts {
		v.Set(k, val)
	}
	v.Set("chain-id", ChainID)
	home, err := os.MkdirTemp("", "verif-home-")
	if err != nil {
		panic(err)
	}
	defer os.RemoveAll(home)
	opts := []func(*baseapp.BaseApp){baseapp.SetChainID(ChainID)}
	if cfg.MinGasPrices != "" {
		opts = append(opts, baseapp.SetMinGasPrices(cfg.MinGasPrices))
	}
	c.App = app.New(log.NewNopLogger(), dbm.NewMemDB(), nil, true, map[int64]bool{}, home, v, opts...)

	for i := 0; i < cfg.NumVals; i++ {
		ck := ConsKey(cfg.Seed, i)
		pv := cmttypes.NewMockPVWithParams(ck, false, false)
		pk, _ := pv.GetPubKey()
		c.Vals = append(c.Vals, Validator{Cons: pv, ConsAddr: sdk.ConsAddress(pk.Address()), Operator: DeriveKey(cfg.Seed, "val", i), Power: cfg.ValBond / 100})
	}
	for i := 0; i < cfg.NumUsers; i++ {
		c.Users = append(c.Users, DeriveKey(cfg.Seed, "user", i))
	}

	gs := c.buildGenesis()
	if cfg.GenesisHook != nil {
		cfg.GenesisHook(c, gs)
	}
	stateBytes, err := json.Marshal(gs)
	if err != nil {
		panic(err)
	}
	cp := app.CustomGenesisConsensusParams().ToProto()
	c.Time = time.Unix(1_700_000_000, 0).UTC()
	initial := int64(1)
	if cfg.InitialHeight > 1 {
		initial = cfg.InitialHeight
	}
	if _, err = c.App.InitChain(&abci.RequestInitChain{
		ChainId:         ChainID,
		ConsensusParams: &cp,
		AppStateBytes:   stateBytes,
		InitialHeight:   initial,
		Time:            c.Time,
	}); err != nil {
		panic(fmt.Errorf("InitChain: %w", err))
	}
	c.Height = initial
	c.open()
	return c
}

func (c *Chain) buildGenesis() app.GenesisState {
	cdc := c.App.AppCodec()
	gs := app.NewDefAppGenesisByDenom(cdc, c.App.ModuleBasics)
	cfg := c.Cfg

	// accounts and balances
	var accs authtypes.GenesisAccounts
	var balances []banktypes.Balance
	supplyAdd := sdk.NewCoins()
	addAcc := func(k Key, coins sdk.Coins) {
		accs = append(accs, authtypes.NewBaseAccount(k.Acc(), nil, 0, 0))
		balances = append(balances, banktypes.Balance{Address: k.Bech32(), Coins: coins})
		supplyAdd = supplyAdd.Add(coins...)
	}
	for _, v := range c.Vals {
		addAcc(v.Operator, sdk.NewCoins(FXCoin(1_000_000)))
	}
	for _, u := range c.Users {
		addAcc(u, sdk.NewCoins(FXCoin(cfg.UserFX)))
	}
	var authGen authtypes.GenesisState
	cdc.MustUnmarshalJSON(gs[authtypes.ModuleName], &authGen)
	packed, err := authtypes.PackAccounts(accs)
	if err != nil {
		panic(err)
	}
	authGen.Accounts = packed
	gs[authtypes.ModuleName] = cdc.MustMarshalJSON(&authGen)

	// validators
	var stakingGen stakingtypes.GenesisState
	cdc.MustUnmarshalJSON(gs[stakingtypes.ModuleName], &stakingGen)
	bond := FX(cfg.ValBond)
	var signing []slashingtypes.SigningInfo
	for _, v := range c.Vals {
		tmpk, _ := v.Cons.GetPubKey()
		pk, err := cryptocodec.FromCmtPubKeyInterface(tmpk)
		if err != nil {
			panic(err)
		}
		pkAny, err := codectypes.NewAnyWithValue(pk)
		if err != nil {
			panic(err)
		}
		val := stakingtypes.Validator{
			OperatorAddress:   v.Operator.Val().String(),
			ConsensusPubkey:   pkAny,
			Status:            stakingtypes.Bonded,
			Tokens:            bond,
			DelegatorShares:   sdkmath.LegacyNewDecFromInt(bond),
			Description:       stakingtypes.Description{Moniker: v.Operator.Label},
			UnbondingTime:     time.Unix(0, 0).UTC(),
			Commission:        stakingtypes.NewCommission(sdkmath.LegacyNewDecWithPrec(5, 2), sdkmath.LegacyOneDec(), sdkmath.LegacyOneDec()),
			MinSelfDelegation: sdkmath.OneInt(),
		}
		stakingGen.Validators = append(stakingGen.Validators, val)
		stakingGen.Delegations = append(stakingGen.Delegations, stakingtypes.NewDelegation(v.Operator.Bech32(), val.OperatorAddress, sdkmath.LegacyNewDecFromInt(bond)))
		signing = append(signing, slashingtypes.SigningInfo{
			Address:              v.ConsAddr.String(),
			ValidatorSigningInfo: slashingtypes.NewValidatorSigningInfo(v.ConsAddr, 0, 0, time.Unix(0, 0).UTC(), false, 0),
		})
	}
	stakingGen.Params.MaxValidators = 50
	gs[stakingtypes.ModuleName] = cdc.MustMarshalJSON(&stakingGen)

	var slashGen slashingtypes.GenesisState
	cdc.MustUnmarshalJSON(gs[slashingtypes.ModuleName], &slashGen)
	slashGen.SigningInfos = signing
	gs[slashingtypes.ModuleName] = cdc.MustMarshalJSON(&slashGen)

	// bank
	var bankGen banktypes.GenesisState
	cdc.MustUnmarshalJSON(gs[banktypes.ModuleName], &bankGen)
	bonded := sdk.NewCoin(fxtypes.DefaultDenom, bond.MulRaw(int64(len(c.Vals))))
	bankGen.Balances = append(bankGen.Balances, balances...)
	bankGen.Balances = append(bankGen.Balances, banktypes.Balance{
		Address: authtypes.NewModuleAddress(stakingtypes.BondedPoolName).String(),
		Coins:   sdk.NewCoins(bonded),
	})
	_ = supplyAdd
	bankGen.Supply = nil // recomputed from the balances by the bank module
	gs[banktypes.ModuleName] = cdc.MustMarshalJSON(&bankGen)

	if !cfg.KeepInflation {
		var mintGen minttypes.GenesisState
		cdc.MustUnmarshalJSON(gs[minttypes.ModuleName], &mintGen)
		mintGen.Params.InflationMin = sdkmath.LegacyZeroDec()
		mintGen.Params.InflationMax = sdkmath.LegacyZeroDec()
		mintGen.Params.InflationRateChange = sdkmath.LegacyZeroDec()
		mintGen.Minter.Inflation = sdkmath.LegacyZeroDec()
		gs[minttypes.ModuleName] = cdc.MustMarshalJSON(&mintGen)
	}
	if !cfg.KeepFees {
		var fm feemarkettypes.GenesisState
		cdc.MustUnmarshalJSON(gs[feemarkettypes.ModuleName], &fm)
		fm.Params.NoBaseFee = true
		fm.Params.BaseFee = sdkmath.ZeroInt()
		fm.Params.MinGasPrice = sdkmath.LegacyZeroDec()
		gs[feemarkettypes.ModuleName] = cdc.MustMarshalJSON(&fm)
	}

	// IBC: allow the localhost client for the loop-back fixture
	var ibcGen coretypes.GenesisState
	cdc.MustUnmarshalJSON(gs[ibcexported.ModuleName], &ibcGen)
	ibcGen.ClientGenesis.Params.AllowedClients = append(ibcGen.ClientGenesis.Params.AllowedClients, ibcexported.Localhost)
	gs[ibcexported.ModuleName] = cdc.MustMarshalJSON(&ibcGen)

	// crosschain modules
	for _, name := range crosschaintypes.GetSupportChains() {
		raw, ok := gs[name]
		if !ok {
			continue
		}
		var cg crosschaintypes.GenesisState
		cdc.MustUnmarshalJSON(raw, &cg)
		if cfg.CrosschainParams != nil {
			cfg.CrosschainParams(name, &cg.Params)
		}
		gs[name] = cdc.MustMarshalJSON(&cg)
	}
	return gs
}

func (c *Chain) commitInfo() abci.CommitInfo {
	ci := abci.CommitInfo{Round: 0}
	for i, v := range c.Vals {
		flag := cmtproto.BlockIDFlagCommit
		if c.Absent[i] {
			flag = cmtproto.BlockIDFlagAbsent
		}
		ci.Votes = append(ci.Votes, abci.VoteInfo{
			Validator:   abci.Validator{Address: v.ConsAddr.Bytes(), Power: v.Power},
			BlockIdFlag: flag,
		})
	}
	return ci
}

func (c *Chain) proposer() []byte { return c.Vals[int(c.Height)%len(c.Vals)].ConsAddr.Bytes() }

// open starts block c.Height at c.Time and exposes its finalize-state context.
func (c *Chain) open() {
	_, err := c.App.ProcessProposal(&abci.RequestProcessProposal{
		Height:             c.Height,
		Time:               c.Time,
		ProposerAddress:    c.proposer(),
		ProposedLastCommit: c.commitInfo(),
	})
	if err != nil {
		panic(fmt.Errorf("ProcessProposal: %w", err))
	}
	c.Ctx = c.App.GetContextForFinalizeBlock(nil).
		WithBlockHeight(c.Height).WithBlockTime(c.Time).WithProposer(c.proposer()).
		WithChainID(ChainID).
		WithEventManager(sdk.NewEventManager()).
		WithGasMeter(storetypes.NewInfiniteGasMeter())
}

// EndBlock finalizes and commits the open block (real FinalizeBlock + Commit with the
// given signed transactions) and opens the next one dt later. A panic or error of the
// application is captured in c.BlockErr (and returned); the chain is then dead.
func (c *Chain) EndBlock(dt time.Duration, txs ...[]byte) (resp *abci.ResponseFinalizeBlock, err error) {
	if c.BlockErr != nil {
		return nil, c.BlockErr
	}
	if c.Trace != nil {
		c.Trace("block", fmt.Sprintf("h=%d t=%d txs=%d", c.Height, c.Time.Unix(), len(txs)))
	}
	func() {
		defer func() {
			if r := recover(); r != nil {
				err = fmt.Errorf("panic in FinalizeBlock/Commit at height %d: %v\n%s", c.Height, r, debug.Stack())
			}
		}()
		mis := c.Misbehavior
		c.Misbehavior = nil
		resp, err = c.App.FinalizeBlock(&abci.RequestFinalizeBlock{
			Height:            c.Height,
			Time:              c.Time,
			Txs:               txs,
			ProposerAddress:   c.proposer(),
			DecidedLastCommit: c.commitInfo(),
			Misbehavior:       mis,
		})
		if err != nil {
			return
		}
		_, err = c.App.Commit()
	}()
	if err != nil {
		c.BlockErr = err
		return nil, err
	}
	c.LastBlock = resp
	if Recorder != nil {
		var parts [][]byte
		for _, r := range resp.TxResults {
			bz, _ := r.Marshal()
			parts = append(parts, bz)
		}
		var evb []byte
		for _, e := range resp.Events {
			bz, _ := e.Marshal()
			evb = append(evb, bz...)
		}
		var vub []byte
		for _, u := range resp.ValidatorUpdates {
			bz, _ := u.Marshal()
			vub = append(vub, bz...)
		}
		var full []string
		for _, e := range resp.Events {
			for _, a := range e.Attributes {
				full = append(full, e.Type+"."+a.Key+"="+a.Value)
			}
		}
		Recorder(fmt.Sprintf("block h=%d apphash=%x txresults=%s events=%s valupdates=%s", c.Height, resp.AppHash, digest(parts...), digest(evb), digest(vub)), strings.Join(full, "\x1f"))
	}
	if dt <= 0 {
		dt = c.Cfg.BlockTime
	}
	c.Height++
	c.Time = c.Time.Add(dt)
	c.open()
	return resp, nil
}

// Next = EndBlock with the default block time.
func (c *Chain) Next(txs ...[]byte) (*abci.ResponseFinalizeBlock, error) {
	return c.EndBlock(0, txs...)
}

// Skip produces n empty blocks.
func (c *Chain) Skip(n int) error {
	for i := 0; i < n; i++ {
		if _, err := c.EndBlock(0); err != nil {
			return err
		}
	}
	return nil
}

// Result of one operation entered through the message server / EVM keeper.
type Result struct {
	Err    error
	Panic  interface{}
	Stack  string
	Events sdk.Events
	Resp   interface{}
	Gas    uint64 // gas charged to the block's meter by this operation
}

func (r Result) OK() bool { return r.Err == nil && r.Panic == nil }
func (r Result) ErrString() string {
	if r.Panic != nil {
		return fmt.Sprintf("panic: %v", r.Panic)
	}
	if r.Err != nil {
		return r.Err.Error()
	}
	return ""
}

// Recorder, when set, receives one line per executed operation and per committed block: the
// observable outcome (error text, events, response bytes, application hash) reduced to digests.
// Used by the determinism replays (C17); nil otherwise.
var Recorder func(line, full string)

// ShadowRuns makes every operation run once on a discarded copy of the state before it runs for real
// (C17: a node that simulated or checked a transaction first must execute it exactly like one that did not).
var ShadowRuns bool

func digest(parts ...[]byte) string {
	h := sha256.New()
	for _, p := range parts {
		var l [8]byte
		binary.BigEndian.PutUint64(l[:], uint64(len(p)))
		h.Write(l[:])
		h.Write(p)
	}
	return hex.EncodeToString(h.Sum(nil)[:12])
}

func eventsBytes(evs sdk.Events) []byte {
	var b []byte
	for _, e := range evs {
		b = append(b, e.Type...)
		b = append(b, 0)
		for _, a := range e.Attributes {
			b = append(b, a.Key...)
			b = append(b, '=')
			b = append(b, a.Value...)
			b = append(b, 0)
		}
		b = append(b, 1)
	}
	return b
}

func record(res Result) {
	if Recorder == nil {
		return
	}
	var rb []byte
	if m, ok := res.Resp.(interface{ Marshal() ([]byte, error) }); ok && res.Resp != nil && !reflect.ValueOf(res.Resp).IsNil() {
		rb, _ = m.Marshal()
	}
	errS := ""
	if res.Panic != nil {
		errS = fmt.Sprintf("panic: %v", res.Panic)
	} else if res.Err != nil {
		errS = res.Err.Error()
	}
	line := fmt.Sprintf("op ok=%v gas=%d err=%s events=%s resp=%s", res.OK(), res.Gas, digest([]byte(errS)), digest(eventsBytes(res.Events)), digest(rb))
	var full []string
	full = append(full, "err="+errS)
	for _, e := range res.Events {
		for _, a := range e.Attributes {
			full = append(full, e.Type+"."+a.Key+"="+a.Value)
		}
	}
	Recorder(line, strings.Join(full, "\x1f"))
}

// RunOn executes fn on a branch of ctx that is written back only if fn returns nil and
// does not panic: baseapp's per-transaction rule (runTx: cache, recover, write on success).
func RunOn(ctx sdk.Context, fn func(ctx sdk.Context) (interface{}, error)) (res Result) {
	if ShadowRuns {
		// what a node does when it serves a simulation or a CheckTx of the same operation first:
		// run it on a copy that is thrown away. Nothing of it may show in the real execution.
		sctx, _ := ctx.CacheContext()
		sctx = sctx.WithEventManager(sdk.NewEventManager()).WithGasMeter(storetypes.NewInfiniteGasMeter())
		func() {
			defer func() { _ = recover() }()
			_, _ = fn(sctx)
		}()
	}
	g0 := ctx.GasMeter().GasConsumed()
	defer func() { res.Gas = ctx.GasMeter().GasConsumed() - g0 }()
	cctx, write := ctx.CacheContext()
	cctx = cctx.WithEventManager(sdk.NewEventManager())
	func() {
		defer func() {
			if r := recover(); r != nil {
				res.Panic = r
				res.Stack = string(debug.Stack())
			}
		}()
		res.Resp, res.Err = fn(cctx)
	}()
	if res.OK() {
		write()
		res.Events = cctx.EventManager().Events()
		ctx.EventManager().EmitEvents(res.Events)
	}
	res.Gas = ctx.GasMeter().GasConsumed() - g0
	record(res)
	return res
}

// Msg routes msg through the real MsgServiceRouter (ValidateBasic is executed first, as
// baseapp does for every message of a transaction).
func (c *Chain) Msg(msg sdk.Msg) Result { return c.MsgOn(c.Ctx, msg) }

func (c *Chain) MsgOn(ctx sdk.Context, msg sdk.Msg) Result {
	if c.Trace != nil {
		c.Trace("msg", sdk.MsgTypeURL(msg)+" "+msgJSON(c, msg))
	}
	return RunOn(ctx, func(ctx sdk.Context) (interface{}, error) {
		if vb, ok := msg.(sdk.HasValidateBasic); ok {
			if err := vb.ValidateBasic(); err != nil {
				return nil, err
			}
		}
		h := c.App.MsgServiceRouter().Handler(msg)
		if h == nil {
			return nil, fmt.Errorf("no handler for %s", sdk.MsgTypeURL(msg))
		}
		r, err := h(ctx, msg)
		if err != nil {
			return nil, err
		}
		// the router runs the handler under its own event manager and returns the events in the result
		for _, e := range r.GetEvents() {
			ctx.EventManager().EmitEvent(sdk.Event(e))
		}
		return r, nil
	})
}

func msgJSON(c *Chain, msg sdk.Msg) (s string) {
	defer func() {
		if r := recover(); r != nil {
			s = fmt.Sprintf("<unprintable %T>", msg)
		}
	}()
	bz, err := c.App.AppCodec().MarshalJSON(msg)
	if err != nil {
		return fmt.Sprintf("<%T: %v>", msg, err)
	}
	return string(bz)
}

// Branch returns a throw-away copy-on-write branch of the open block's state.
func (c *Chain) Branch() sdk.Context {
	b, _ := c.Ctx.CacheContext()
	return b.WithEventManager(sdk.NewEventManager())
}

// ---- observation ---------------------------------------------------------------

// Dump is the content of every mounted KV store: store name -> key -> value.
type Dump map[string]map[string]string

func (c *Chain) storeKeys() map[string]*storetypes.KVStoreKey { return c.App.GetKVStoreKey() }

func (c *Chain) Dump(ctx sdk.Context, stores ...string) Dump {
	d := Dump{}
	keys := c.storeKeys()
	want := map[string]bool{}
	for _, s := range stores {
		want[s] = true
	}
	for name, k := range keys {
		if len(want) > 0 && !want[name] {
			continue
		}
		m := map[string]string{}
		it := ctx.KVStore(k).Iterator(nil, nil)
		for ; it.Valid(); it.Next() {
			m[string(it.Key())] = string(it.Value())
		}
		it.Close()
		d[name] = m
	}
	return d
}

type DiffEntry struct {
	Store string
	Key   []byte
	A, B  []byte
	InA   bool
	InB   bool
}

func (e DiffEntry) String() string {
	return fmt.Sprintf("%s/%x: A=%x(%v) B=%x(%v)", e.Store, e.Key, trunc(e.A), e.InA, trunc(e.B), e.InB)
}

func trunc(b []byte) []byte {
	if len(b) > 48 {
		return b[:48]
	}
	return b
}

// Diff lists every key whose presence or value differs between a and b.
func Diff(a, b Dump) []DiffEntry {
	var out []DiffEntry
	stores := map[string]bool{}
	for s := range a {
		stores[s] = true
	}
	for s := range b {
		stores[s] = true
	}
	var names []string
	for s := range stores {
		names = append(names, s)
	}
	sort.Strings(names)
	for _, s := range names {
		ma, mb := a[s], b[s]
		var ks []string
		seen := map[string]bool{}
		for k := range ma {
			ks = append(ks, k)
			seen[k] = true
		}
		for k := range mb {
			if !seen[k] {
				ks = append(ks, k)
			}
		}
		sort.Strings(ks)
		for _, k := range ks {
			va, ina := ma[k]
			vb, inb := mb[k]
			if ina != inb || va != vb {
				out = append(out, DiffEntry{Store: s, Key: []byte(k), A: []byte(va), B: []byte(vb), InA: ina, InB: inb})
			}
		}
	}
	return out
}

// Invariants runs every invariant registered with the crisis keeper (bank, staking,
// distribution, gov, ...) on ctx and returns the broken ones.
func (c *Chain) Invariants(ctx sdk.Context) (broken []string) {
	for _, r := range c.App.CrisisKeeper.Routes() {
		func() {
			defer func() {
				if rec := recover(); rec != nil {
					broken = append(broken, fmt.Sprintf("%s/%s: panic %v", r.ModuleName, r.Route, rec))
				}
			}()
			cctx, _ := ctx.CacheContext()
			if msg, bad := r.Invar(cctx); bad {
				broken = append(broken, fmt.Sprintf("%s/%s: %s", r.ModuleName, r.Route, msg))
			}
		}()
	}
	return broken
}

func (c *Chain) Balance(ctx sdk.Context, addr sdk.AccAddress, denom string) sdkmath.Int {
	return c.App.BankKeeper.GetBalance(ctx, addr, denom).Amount
}

func (c *Chain) Supply(ctx sdk.Context, denom string) sdkmath.Int {
	return c.App.BankKeeper.GetSupply(ctx, denom).Amount
}

func ModuleAddr(name string) sdk.AccAddress { return authtypes.NewModuleAddress(name) }

func BigInt(i sdkmath.Int) *big.Int { return i.BigInt() }

// Resp decodes the message response of a successful Msg() into out.
func (c *Chain) Resp(r Result, out gogoproto.Message) error {
	sr, ok := r.Resp.(*sdk.Result)
	if !ok || sr == nil || len(sr.MsgResponses) == 0 {
		return fmt.Errorf("no message response")
	}
	return c.App.AppCodec().Unmarshal(sr.MsgResponses[0].Value, out)
}

// DoubleSign injects duplicate-vote evidence against validator i into the next block.
func (c *Chain) DoubleSign(i int) {
	var total int64
	for _, v := range c.Vals {
		total += v.Power
	}
	c.Misbehavior = append(c.Misbehavior, abci.Misbehavior{
		Type:             abci.MisbehaviorType_DUPLICATE_VOTE,
		Validator:        abci.Validator{Address: c.Vals[i].ConsAddr.Bytes(), Power: c.Vals[i].Power},
		Height:           c.Height - 1,
		Time:             c.Time,
		TotalVotingPower: total,
	})
	c.Absent[i] = true
}
