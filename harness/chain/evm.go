package chain

import (
	"fmt"
	"math/big"

	sdk "github.com/cosmos/cosmos-sdk/types"
	"github.com/ethereum/go-ethereum/common"
	ethtypes "github.com/ethereum/go-ethereum/core/types"
	"github.com/ethereum/go-ethereum/crypto"
	evmtypes "github.com/evmos/ethermint/x/evm/types"

	"github.com/functionx/fx-core/v8/contract"
	"github.com/functionx/fx-core/v8/testutil/helpers"
)

// EvmResult is the outcome of one Ethereum transaction entered through the x/evm
// message server (the code a decoded MsgEthereumTx reaches; see DESIGN 2.1 / O1).
type EvmResult struct {
	Result
	Rsp      *evmtypes.MsgEthereumTxResponse
	Contract common.Address // for creations
}

func (r EvmResult) Failed() bool { return !r.OK() || r.Rsp == nil || r.Rsp.Failed() }
func (r EvmResult) VmError() string {
	if !r.OK() {
		return r.ErrString()
	}
	if r.Rsp == nil {
		return "no response"
	}
	return r.Rsp.VmError
}

const DefaultGas = uint64(8_000_000)

// EthTx signs and executes an Ethereum transaction from key `from` on the open block.
// As the Ethereum ante handler would, the sender's sequence is incremented before
// execution and stays incremented whatever the outcome.
func (c *Chain) EthTx(from Key, to *common.Address, data []byte, value *big.Int, gas uint64) EvmResult {
	return c.EthTxOn(c.Ctx, from, to, data, value, gas)
}

func (c *Chain) EthTxOn(ctx sdk.Context, from Key, to *common.Address, data []byte, value *big.Int, gas uint64) EvmResult {
	if gas == 0 {
		gas = DefaultGas
	}
	if value == nil {
		value = big.NewInt(0)
	}
	if c.Trace != nil {
		t := "create"
		if to != nil {
			t = to.Hex()
		}
		c.Trace("evm", fmt.Sprintf("from=%s to=%s value=%s gas=%d data=%x", from.Label, t, value, gas, data))
	}
	chainID := c.App.EvmKeeper.ChainID()
	nonce := c.App.EvmKeeper.GetNonce(ctx, from.Hex())
	tx := evmtypes.NewTx(chainID, nonce, to, value, gas, big.NewInt(0), nil, nil, data, nil)
	tx.From = from.Hex().Bytes()
	if err := tx.Sign(ethtypes.LatestSignerForChainID(chainID), helpers.NewSigner(from.Priv)); err != nil {
		return EvmResult{Result: Result{Err: err}}
	}
	// ante: make sure the account exists and bump its sequence
	acc := c.App.AccountKeeper.GetAccount(ctx, from.Acc())
	if acc == nil {
		acc = c.App.AccountKeeper.NewAccountWithAddress(ctx, from.Acc())
	}
	if err := acc.SetSequence(nonce + 1); err != nil {
		return EvmResult{Result: Result{Err: err}}
	}
	c.App.AccountKeeper.SetAccount(ctx, acc)

	var out EvmResult
	out.Result = RunOn(ctx, func(ctx sdk.Context) (interface{}, error) {
		rsp, err := c.App.EvmKeeper.EthereumTx(ctx, tx)
		if err != nil {
			return nil, err
		}
		out.Rsp = rsp
		return rsp, nil
	})
	if to == nil {
		out.Contract = crypto.CreateAddress(from.Hex(), nonce)
	}
	return out
}

// Deploy creates a contract whose runtime code is exactly `runtime`.
func (c *Chain) Deploy(from Key, runtime []byte) (common.Address, error) {
	r := c.EthTx(from, nil, InitCode(runtime), nil, 0)
	if r.Failed() {
		return common.Address{}, fmt.Errorf("deploy failed: %s", r.VmError())
	}
	if !c.App.EvmKeeper.IsContract(c.Ctx, r.Contract) {
		return common.Address{}, fmt.Errorf("deploy produced no code at %s", r.Contract)
	}
	return r.Contract, nil
}

// InitCode wraps runtime code in the 11-byte constructor
// PUSH2 len DUP1 PUSH1 0x0c PUSH1 0 CODECOPY PUSH1 0 RETURN.
func InitCode(runtime []byte) []byte {
	n := len(runtime)
	if n > 0xffff {
		panic("runtime too large")
	}
	pre := []byte{0x61, byte(n >> 8), byte(n), 0x80, 0x60, 0x0c, 0x60, 0x00, 0x39, 0x60, 0x00, 0xf3}
	return append(pre, runtime...)
}

// StaticCall executes a read-only call through the keeper (no commit).
func (c *Chain) StaticCall(ctx sdk.Context, from, to common.Address, data []byte) ([]byte, error) {
	cctx, _ := ctx.CacheContext()
	rsp, err := c.App.EvmKeeper.CallEVMWithoutGas(cctx, from, &to, nil, data, false)
	if err != nil {
		return nil, err
	}
	return rsp.Ret, nil
}

var erc20ABI = contract.GetFIP20().ABI

var evmModuleAddr = common.BytesToAddress(ModuleAddr(evmtypes.ModuleName))

func (c *Chain) ERC20Balance(ctx sdk.Context, token, holder common.Address) *big.Int {
	data, _ := erc20ABI.Pack("balanceOf", holder)
	ret, err := c.StaticCall(ctx, evmModuleAddr, token, data)
	if err != nil || len(ret) < 32 {
		return big.NewInt(0)
	}
	return new(big.Int).SetBytes(ret[:32])
}

func (c *Chain) ERC20Supply(ctx sdk.Context, token common.Address) *big.Int {
	data, _ := erc20ABI.Pack("totalSupply")
	ret, err := c.StaticCall(ctx, evmModuleAddr, token, data)
	if err != nil || len(ret) < 32 {
		return big.NewInt(0)
	}
	return new(big.Int).SetBytes(ret[:32])
}

func (c *Chain) ERC20Allowance(ctx sdk.Context, token, owner, spender common.Address) *big.Int {
	data, _ := erc20ABI.Pack("allowance", owner, spender)
	ret, err := c.StaticCall(ctx, evmModuleAddr, token, data)
	if err != nil || len(ret) < 32 {
		return big.NewInt(0)
	}
	return new(big.Int).SetBytes(ret[:32])
}

func ERC20Pack(method string, args ...interface{}) []byte {
	data, err := erc20ABI.Pack(method, args...)
	if err != nil {
		panic(err)
	}
	return data
}
