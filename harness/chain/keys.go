package chain

import (
	"crypto/ecdsa"
	"crypto/sha256"
	"encoding/binary"
	"fmt"

	cmted25519 "github.com/cometbft/cometbft/crypto/ed25519"
	sdk "github.com/cosmos/cosmos-sdk/types"
	"github.com/ethereum/go-ethereum/common"
	"github.com/ethereum/go-ethereum/crypto"
	"github.com/evmos/ethermint/crypto/ethsecp256k1"
)

// Key is a deterministic eth_secp256k1 key; every key the harness uses is derived
// from (seed, label, index) so twins and replays see identical bytes.
type Key struct {
	Priv  *ethsecp256k1.PrivKey
	ECDSA *ecdsa.PrivateKey
	Label string
}

func DeriveKey(seed uint64, label string, i int) Key {
	for ctr := 0; ; ctr++ {
		var buf [16]byte
		binary.BigEndian.PutUint64(buf[:8], seed)
		binary.BigEndian.PutUint32(buf[8:12], uint32(i))
		binary.BigEndian.PutUint32(buf[12:], uint32(ctr))
		h := sha256.Sum256(append(append([]byte("verif-key/"), []byte(label)...), buf[:]...))
		ec, err := crypto.ToECDSA(h[:])
		if err != nil {
			continue
		}
		return Key{Priv: &ethsecp256k1.PrivKey{Key: h[:]}, ECDSA: ec, Label: fmt.Sprintf("%s%d", label, i)}
	}
}

func (k Key) Acc() sdk.AccAddress { return sdk.AccAddress(k.Priv.PubKey().Address()) }
func (k Key) Hex() common.Address { return common.BytesToAddress(k.Priv.PubKey().Address()) }
func (k Key) Bech32() string      { return k.Acc().String() }
func (k Key) Val() sdk.ValAddress { return sdk.ValAddress(k.Priv.PubKey().Address()) }
func (k Key) String() string      { return k.Label }
func (k Key) IsZero() bool        { return k.Priv == nil }

// ConsKey derives a deterministic ed25519 consensus key.
func ConsKey(seed uint64, i int) cmted25519.PrivKey {
	var buf [12]byte
	binary.BigEndian.PutUint64(buf[:8], seed)
	binary.BigEndian.PutUint32(buf[8:], uint32(i))
	return cmted25519.GenPrivKeyFromSecret(append([]byte("verif-cons/"), buf[:]...))
}
