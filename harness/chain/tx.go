package chain

import (
	"fmt"

	abci "github.com/cometbft/cometbft/abci/types"
	"github.com/cosmos/cosmos-sdk/client"
	sdk "github.com/cosmos/cosmos-sdk/types"
	"github.com/cosmos/cosmos-sdk/types/tx/signing"
	authsigning "github.com/cosmos/cosmos-sdk/x/auth/signing"
)

// TxOpts controls how a signed Cosmos transaction is built.
type TxOpts struct {
	Gas  uint64
	Fee  sdk.Coins
	Memo string
	// SeqDelta is added to each signer's on-chain sequence (several txs in one block).
	SeqDelta map[string]uint64
}

// SignTx builds a SIGN_MODE_DIRECT transaction signed by the given keys, reading account
// numbers and sequences from ctx.
func (c *Chain) SignTx(ctx sdk.Context, signers []Key, msgs []sdk.Msg, o TxOpts) ([]byte, error) {
	txCfg := c.App.GetTxConfig()
	b := txCfg.NewTxBuilder()
	if err := b.SetMsgs(msgs...); err != nil {
		return nil, err
	}
	if o.Gas == 0 {
		o.Gas = 3_000_000
	}
	b.SetGasLimit(o.Gas)
	b.SetFeeAmount(o.Fee)
	b.SetMemo(o.Memo)
	return c.signBuilder(ctx, b, signers, o)
}

func (c *Chain) signBuilder(ctx sdk.Context, b client.TxBuilder, signers []Key, o TxOpts) ([]byte, error) {
	txCfg := c.App.GetTxConfig()
	type si struct {
		accNum, seq uint64
	}
	infos := make([]si, len(signers))
	var sigs []signing.SignatureV2
	for i, k := range signers {
		acc := c.App.AccountKeeper.GetAccount(ctx, k.Acc())
		if acc == nil {
			return nil, fmt.Errorf("signer %s has no account", k.Label)
		}
		infos[i] = si{acc.GetAccountNumber(), acc.GetSequence() + o.SeqDelta[k.Bech32()]}
		sigs = append(sigs, signing.SignatureV2{
			PubKey:   k.Priv.PubKey(),
			Data:     &signing.SingleSignatureData{SignMode: signing.SignMode_SIGN_MODE_DIRECT},
			Sequence: infos[i].seq,
		})
	}
	if err := b.SetSignatures(sigs...); err != nil {
		return nil, err
	}
	sigs = sigs[:0]
	for i, k := range signers {
		sd := authsigning.SignerData{
			Address: k.Bech32(), ChainID: ChainID, AccountNumber: infos[i].accNum, Sequence: infos[i].seq, PubKey: k.Priv.PubKey(),
		}
		bz, err := authsigning.GetSignBytesAdapter(ctx, txCfg.SignModeHandler(), signing.SignMode_SIGN_MODE_DIRECT, sd, b.GetTx())
		if err != nil {
			return nil, err
		}
		sig, err := k.Priv.Sign(bz)
		if err != nil {
			return nil, err
		}
		sigs = append(sigs, signing.SignatureV2{
			PubKey:   k.Priv.PubKey(),
			Data:     &signing.SingleSignatureData{SignMode: signing.SignMode_SIGN_MODE_DIRECT, Signature: sig},
			Sequence: infos[i].seq,
		})
	}
	if err := b.SetSignatures(sigs...); err != nil {
		return nil, err
	}
	return txCfg.TxEncoder()(b.GetTx())
}

// DeliverTx ends the open block with exactly one signed transaction and returns its
// result (real decoding, signer resolution, ante chain, per-tx cache-and-discard).
func (c *Chain) DeliverTx(signers []Key, msgs ...sdk.Msg) (*abci.ExecTxResult, error) {
	bz, err := c.SignTx(c.Ctx, signers, msgs, TxOpts{})
	if err != nil {
		return nil, err
	}
	if c.Trace != nil {
		c.Trace("tx", fmt.Sprintf("%x", bz))
	}
	resp, err := c.Next(bz)
	if err != nil {
		return nil, err
	}
	return resp.TxResults[0], nil
}

// RequiredSigners resolves the accounts that must sign msg, the way the node does it
// (the app's signing context reading the cosmos.msg.v1.signer option).
func (c *Chain) RequiredSigners(msg sdk.Msg) ([]sdk.AccAddress, error) {
	cdc := c.App.AppCodec()
	signers, _, err := cdc.GetMsgV1Signers(msg)
	if err != nil {
		return nil, err
	}
	var out []sdk.AccAddress
	for _, s := range signers {
		out = append(out, sdk.AccAddress(s))
	}
	return out, nil
}
