// vcheck: runtime-monitoring checks for fx-core properties C01..C20.
package main

import (
	"encoding/json"
	"flag"
	"fmt"
	"os"
	"strconv"
	"time"

	"verif/harness/core"
	"verif/harness/mon"
)

func main() {
	prop := flag.String("prop", "", "property id (C01..C20)")
	tier := flag.String("tier", "quick", "quick | thorough")
	seedF := flag.String("seed", "", "seed (default $VERIF_SEED or 1)")
	workers := flag.Int("workers", 16, "worker processes")
	replay := flag.String("replay", "", "replay file")
	verifDir := flag.String("verif", "/verif", "verif directory")
	worker := flag.Bool("worker", false, "internal: run as worker")
	casesPath := flag.String("cases", "", "internal")
	idx := flag.Int("idx", 0, "internal")
	of := flag.Int("of", 1, "internal")
	out := flag.String("out", "", "internal")
	logp := flag.String("log", "", "internal")
	list := flag.Bool("list", false, "list properties")
	caseID := flag.String("case", "", "run only this case id, verbosely, in-process")
	c17child := flag.String("c17child", "", "internal: run one C17 history and write its trace to -out")
	flag.Parse()
	if *c17child != "" {
		os.Exit(mon.C17Child(*c17child, *out))
	}

	if *list {
		for _, id := range core.IDs() {
			fmt.Println(id)
		}
		return
	}
	if *replay != "" {
		os.Exit(core.Replay(*replay))
	}
	p := core.Get(*prop)
	if p == nil {
		fmt.Fprintf(os.Stderr, "unknown property %q\n", *prop)
		os.Exit(2)
	}
	if *worker {
		bz, err := os.ReadFile(*casesPath)
		if err != nil {
			fmt.Fprintln(os.Stderr, err)
			os.Exit(3)
		}
		var cases []core.Case
		if err := json.Unmarshal(bz, &cases); err != nil {
			fmt.Fprintln(os.Stderr, err)
			os.Exit(3)
		}
		core.RunWorker(p, cases, *idx, *of, *out, *logp)
		return
	}
	seed := uint64(1)
	s := *seedF
	if s == "" {
		s = os.Getenv("VERIF_SEED")
	}
	if s != "" {
		if v, err := strconv.ParseUint(s, 10, 64); err == nil {
			seed = v
		} else if v, err := strconv.ParseInt(s, 10, 64); err == nil {
			seed = uint64(v)
		}
	}
	if t := os.Getenv("VERIF_TIER"); t != "" && !isFlagSet("tier") {
		*tier = t
	}
	if *caseID != "" {
		for _, c := range p.Cases(seed, *tier) {
			if c.ID == *caseID {
				r := p.Run(c, true)
				r.CaseID = c.ID
				bz, _ := json.MarshalIndent(r, "", " ")
				fmt.Println(string(bz))
				if len(r.Violations) > 0 {
					os.Exit(1)
				}
				return
			}
		}
		fmt.Println("no such case")
		os.Exit(2)
	}
	self, _ := os.Executable()
	wd := 25 * time.Minute
	if *tier == "thorough" {
		wd = 110 * time.Minute
	}
	os.Exit(core.RunParent(core.RunOpts{Prop: *prop, Tier: *tier, Seed: seed, Workers: *workers, VerifDir: *verifDir, Self: self, Watchdog: wd}))
}

func isFlagSet(name string) bool {
	set := false
	flag.Visit(func(f *flag.Flag) {
		if f.Name == name {
			set = true
		}
	})
	return set
}
