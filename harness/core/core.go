// Package core is the property-independent part of vcheck: deterministic case lists,
// worker processes, three-valued verdicts, known findings, evidence and replay files.
package core

import (
	"bufio"
	"encoding/json"
	"fmt"
	"math/rand/v2"
	"os"
	"os/exec"
	"path/filepath"
	"runtime/debug"
	"sort"
	"strings"
	"sync"
	"time"
)

type Violation struct {
	// Key is a stable signature of the specific failing input / call site / history shape;
	// known findings are matched on it.
	Key    string      `json:"key"`
	Msg    string      `json:"msg"`
	Detail interface{} `json:"detail,omitempty"`
}

type CaseResult struct {
	CaseID       string           `json:"case_id"`
	Sig          string           `json:"sig,omitempty"` // abstract signature; distinct non-trivial cases are counted by it
	Nontrivial   bool             `json:"nontrivial"`
	Violations   []Violation      `json:"violations,omitempty"`
	Counters     map[string]int64 `json:"counters,omitempty"`
	Sample       interface{}      `json:"sample,omitempty"`
	Inconclusive string           `json:"inconclusive,omitempty"`
	Sigs         []string         `json:"sigs,omitempty"` // additional distinct non-trivial signatures seen inside the case
}

func (r *CaseResult) Count(name string, n int64) {
	if r.Counters == nil {
		r.Counters = map[string]int64{}
	}
	r.Counters[name] += n
}

func (r *CaseResult) Violate(key, format string, args ...interface{}) {
	msg := fmt.Sprintf(format, args...)
	for _, v := range r.Violations {
		if v.Key == key {
			return // one witness per key and case is enough
		}
	}
	if len(msg) > 2000 {
		msg = msg[:2000] + "…"
	}
	r.Violations = append(r.Violations, Violation{Key: key, Msg: msg})
}

func (r *CaseResult) AddSig(s string) { r.Sigs = append(r.Sigs, s) }

type Case struct {
	ID   string          `json:"id"`
	Spec json.RawMessage `json:"spec"`
}

// Prop is one property's check.
type Prop struct {
	ID          string
	Level       string // exploration | fault_enumeration
	Rule        string
	Assumptions []string
	// Cases is a pure function of (seed, tier).
	Cases func(seed uint64, tier string) []Case
	// Run executes one case against the real code. verbose is set on replay.
	Run func(c Case, verbose bool) CaseResult
	// MinNontrivial: fewer distinct non-trivial cases make the run inconclusive.
	MinNontrivial int
	// RequiredCounters must be > 0 in the aggregate, else the run is inconclusive (non-vacuity).
	RequiredCounters []string
	// CrashIsViolation: a worker process dying inside a case (fatal runtime error that recover()
	// cannot intercept) is a violation of this property rather than an inconclusive run.
	CrashIsViolation bool
}

var registry = map[string]*Prop{}

func Register(p *Prop)    { registry[p.ID] = p }
func Get(id string) *Prop { return registry[id] }
func IDs() []string {
	var ids []string
	for k := range registry {
		ids = append(ids, k)
	}
	sort.Strings(ids)
	return ids
}

func MkCase(id string, spec interface{}) Case {
	bz, err := json.Marshal(spec)
	if err != nil {
		panic(err)
	}
	return Case{ID: id, Spec: bz}
}

func Rng(seed uint64, stream uint64) *rand.Rand {
	return rand.New(rand.NewPCG(seed, stream^0x9e3779b97f4a7c15))
}

// ---- known findings -------------------------------------------------------------

type Finding struct {
	Property string `json:"property"`
	Key      string `json:"key"`
	Status   string `json:"status"` // known | fixed
	Commit   string `json:"commit,omitempty"`
	What     string `json:"what"`
}

func LoadFindings(path string) []Finding {
	bz, err := os.ReadFile(path)
	if err != nil {
		return nil
	}
	var f []Finding
	if err := json.Unmarshal(bz, &f); err != nil {
		fmt.Fprintf(os.Stderr, "known_findings.json unreadable: %v\n", err)
		return nil
	}
	return f
}

func matchFinding(fs []Finding, prop, key string) *Finding {
	for i := range fs {
		f := &fs[i]
		if f.Property != prop || f.Status != "known" {
			continue
		}
		if f.Key == key {
			return f
		}
		// a trailing or embedded '*' matches any run of characters (one finding per call-site class)
		if strings.Contains(f.Key, "*") && globMatch(f.Key, key) {
			return f
		}
	}
	return nil
}

func globMatch(pat, s string) bool {
	parts := strings.Split(pat, "*")
	if !strings.HasPrefix(s, parts[0]) {
		return false
	}
	s = s[len(parts[0]):]
	for i := 1; i < len(parts); i++ {
		p := parts[i]
		if i == len(parts)-1 {
			return strings.HasSuffix(s, p)
		}
		k := strings.Index(s, p)
		if k < 0 {
			return false
		}
		s = s[k+len(p):]
	}
	return true
}

// ---- running ---------------------------------------------------------------------

type RunOpts struct {
	Prop     string
	Tier     string
	Seed     uint64
	Workers  int
	VerifDir string
	Self     string // path of this binary
	Watchdog time.Duration
}

type workerOut struct {
	Results []CaseResult `json:"results"`
}

// RunWorker executes the cases with index ≡ idx (mod of) and writes results to out.
func RunWorker(p *Prop, cases []Case, idx, of int, out, logPath string) {
	lf, _ := os.OpenFile(logPath, os.O_CREATE|os.O_WRONLY|os.O_APPEND, 0o644)
	w := bufio.NewWriter(lf)
	var res workerOut
	flush := func() {
		bz, _ := json.Marshal(res)
		_ = os.WriteFile(out+".tmp", bz, 0o644)
		_ = os.Rename(out+".tmp", out)
	}
	for i, c := range cases {
		if i%of != idx {
			continue
		}
		fmt.Fprintf(w, "START %s\n", c.ID)
		w.Flush()
		r := runOne(p, c, false)
		res.Results = append(res.Results, r)
		fmt.Fprintf(w, "DONE %s\n", c.ID)
		w.Flush()
		if len(res.Results)%20 == 0 {
			flush()
		}
	}
	flush()
	lf.Close()
}

func runOne(p *Prop, c Case, verbose bool) (r CaseResult) {
	defer func() {
		if rec := recover(); rec != nil {
			r = CaseResult{CaseID: c.ID, Inconclusive: fmt.Sprintf("panic escaped the monitor: %v\n%s", rec, debug.Stack())}
		}
	}()
	r = p.Run(c, verbose)
	r.CaseID = c.ID
	return r
}

type Evidence struct {
	PropertyID  string                 `json:"property_id"`
	Tier        string                 `json:"tier"`
	Seed        int64                  `json:"seed"`
	Level       string                 `json:"level"`
	Coverage    map[string]interface{} `json:"coverage"`
	Assumptions []string               `json:"assumptions"`
	WallS       float64                `json:"wall_s"`
	Violations  int                    `json:"violations"`
}

// RunParent runs the whole check and returns the process exit code.
func RunParent(o RunOpts) int {
	start := time.Now()
	p := Get(o.Prop)
	if p == nil {
		fmt.Printf("unknown property %s\n", o.Prop)
		return 2
	}
	cases := p.Cases(o.Seed, o.Tier)
	if len(cases) == 0 {
		fmt.Printf("INCONCLUSIVE property=%s reason=no-cases\n", p.ID)
		return 2
	}
	tmp, err := os.MkdirTemp("", "vcheck-"+p.ID+"-")
	if err != nil {
		fmt.Println(err)
		return 2
	}
	defer os.RemoveAll(tmp)
	casesPath := filepath.Join(tmp, "cases.json")
	bz, _ := json.Marshal(cases)
	_ = os.WriteFile(casesPath, bz, 0o644)

	nw := o.Workers
	if nw > len(cases) {
		nw = len(cases)
	}
	if nw < 1 {
		nw = 1
	}
	type wres struct {
		idx      int
		err      error
		timedOut bool
		stderr   string
	}
	var wg sync.WaitGroup
	outs := make([]wres, nw)
	for i := 0; i < nw; i++ {
		wg.Add(1)
		go func(i int) {
			defer wg.Done()
			cmd := exec.Command(o.Self, "-worker", "-prop", p.ID, "-cases", casesPath,
				"-idx", fmt.Sprint(i), "-of", fmt.Sprint(nw),
				"-out", filepath.Join(tmp, fmt.Sprintf("out%d.json", i)),
				"-log", filepath.Join(tmp, fmt.Sprintf("log%d.txt", i)))
			errf, _ := os.Create(filepath.Join(tmp, fmt.Sprintf("stderr%d.txt", i)))
			cmd.Stderr = errf
			cmd.Stdout = errf
			if err := cmd.Start(); err != nil {
				outs[i] = wres{idx: i, err: err}
				return
			}
			done := make(chan error, 1)
			go func() { done <- cmd.Wait() }()
			select {
			case err := <-done:
				outs[i] = wres{idx: i, err: err}
			case <-time.After(o.Watchdog):
				_ = cmd.Process.Kill()
				<-done
				outs[i] = wres{idx: i, timedOut: true}
			}
			errf.Close()
			if b, err := os.ReadFile(filepath.Join(tmp, fmt.Sprintf("stderr%d.txt", i))); err == nil {
				s := string(b)
				if len(s) > 6000 {
					s = s[:3000] + "\n...\n" + s[len(s)-3000:]
				}
				outs[i].stderr = s
			}
		}(i)
	}
	wg.Wait()

	findings := LoadFindings(filepath.Join(o.VerifDir, "known_findings.json"))
	var all []CaseResult
	var inconclusive []string
	crashed := map[string]string{} // case id -> stderr of the fatal crash
	for i := 0; i < nw; i++ {
		var wo workerOut
		if b, err := os.ReadFile(filepath.Join(tmp, fmt.Sprintf("out%d.json", i))); err == nil {
			_ = json.Unmarshal(b, &wo)
		}
		all = append(all, wo.Results...)
		if outs[i].timedOut {
			inconclusive = append(inconclusive, fmt.Sprintf("worker %d hit the wall-clock watchdog", i))
			continue
		}
		if outs[i].err != nil {
			// fatal runtime error: attribute to the case that was started but not finished
			last := lastStarted(filepath.Join(tmp, fmt.Sprintf("log%d.txt", i)))
			if last != "" {
				crashed[last] = outs[i].stderr
			}
			if p.CrashIsViolation && last != "" {
				cr := CaseResult{CaseID: last}
				cr.Violate(p.ID+"/process-crash", "the worker process died while running this case: %s", firstLines(outs[i].stderr, 6))
				all = append(all, cr)
				continue
			}
			inconclusive = append(inconclusive, fmt.Sprintf("worker %d died (%v) in case %q: %s", i, outs[i].err, last, firstLines(outs[i].stderr, 12)))
		}
	}

	// aggregate
	counters := map[string]int64{}
	sigs := map[string]bool{}
	var samples []interface{}
	nViol := 0
	exit := 0
	caseByID := map[string]Case{}
	for _, c := range cases {
		caseByID[c.ID] = c
	}
	knownPrinted := map[string]bool{}
	for _, r := range all {
		for k, v := range r.Counters {
			counters[k] += v
		}
		if r.Nontrivial && r.Sig != "" {
			sigs[r.Sig] = true
		}
		for _, s := range r.Sigs {
			sigs[s] = true
		}
		if r.Sample != nil && len(samples) < 3 {
			samples = append(samples, r.Sample)
		}
		if r.Inconclusive != "" {
			inconclusive = append(inconclusive, fmt.Sprintf("case %s: %s", r.CaseID, firstLines(r.Inconclusive, 30)))
		}
		for _, v := range r.Violations {
			if f := matchFinding(findings, p.ID, v.Key); f != nil {
				counters["known_finding_hits"]++
				if !knownPrinted[v.Key] {
					knownPrinted[v.Key] = true
					fmt.Printf("KNOWN-FINDING: property=%s %s [key=%s]\n", p.ID, f.What, v.Key)
				}
				continue
			}
			nViol++
			replay := filepath.Join(o.VerifDir, "replays", fmt.Sprintf("%s-%s.json", p.ID, sanitize(r.CaseID)))
			_ = os.MkdirAll(filepath.Dir(replay), 0o755)
			rb, _ := json.MarshalIndent(map[string]interface{}{
				"property": p.ID, "seed": o.Seed, "tier": o.Tier, "case": caseByID[r.CaseID], "violations": r.Violations,
			}, "", " ")
			_ = os.WriteFile(replay, rb, 0o644)
			fmt.Printf("VIOLATION property=%s replay=%s key=%s :: %s\n", p.ID, replay, v.Key, oneLine(v.Msg))
			exit = 1
		}
	}
	if len(samples) == 0 && len(cases) > 0 {
		samples = append(samples, map[string]interface{}{"case_id": cases[0].ID, "spec": cases[0].Spec})
	}
	for _, rc := range p.RequiredCounters {
		if counters[rc] == 0 {
			inconclusive = append(inconclusive, fmt.Sprintf("monitor observed zero %q events", rc))
		}
	}
	if len(sigs) < p.MinNontrivial {
		inconclusive = append(inconclusive, fmt.Sprintf("only %d distinct non-trivial cases (need %d)", len(sigs), p.MinNontrivial))
	}
	if len(all) < len(cases) && len(inconclusive) == 0 {
		inconclusive = append(inconclusive, fmt.Sprintf("%d of %d cases produced no result", len(cases)-len(all), len(cases)))
	}

	cov := map[string]interface{}{
		"evaluations":         len(all),
		"distinct_nontrivial": len(sigs),
		"rule":                p.Rule,
		"samples":             samples,
		"counters":            counters,
		"cases_planned":       len(cases),
		"workers":             nw,
		"inconclusive":        inconclusive,
	}
	ev := Evidence{PropertyID: p.ID, Tier: o.Tier, Seed: int64(o.Seed), Level: p.Level, Coverage: cov,
		Assumptions: p.Assumptions, WallS: time.Since(start).Seconds(), Violations: nViol}
	eb, _ := json.MarshalIndent(ev, "", " ")
	_ = os.MkdirAll(filepath.Join(o.VerifDir, "evidence"), 0o755)
	_ = os.WriteFile(filepath.Join(o.VerifDir, "evidence", p.ID+".json"), eb, 0o644)

	keys := make([]string, 0, len(counters))
	for k := range counters {
		keys = append(keys, k)
	}
	sort.Strings(keys)
	var cs []string
	for _, k := range keys {
		cs = append(cs, fmt.Sprintf("%s=%d", k, counters[k]))
	}
	fmt.Printf("%s tier=%s seed=%d cases=%d/%d distinct_nontrivial=%d violations=%d wall=%.1fs\n  %s\n",
		p.ID, o.Tier, o.Seed, len(all), len(cases), len(sigs), nViol, time.Since(start).Seconds(), strings.Join(cs, " "))
	if exit == 0 && len(inconclusive) > 0 {
		for _, s := range inconclusive {
			fmt.Printf("INCONCLUSIVE property=%s reason=%s\n", p.ID, oneLine(s))
		}
		return 2
	}
	return exit
}

// Replay re-executes exactly the case stored in a replay file, verbosely.
func Replay(path string) int {
	bz, err := os.ReadFile(path)
	if err != nil {
		fmt.Println(err)
		return 2
	}
	var rf struct {
		Property string `json:"property"`
		Case     Case   `json:"case"`
	}
	if err := json.Unmarshal(bz, &rf); err != nil {
		fmt.Println(err)
		return 2
	}
	p := Get(rf.Property)
	if p == nil {
		fmt.Printf("unknown property %s\n", rf.Property)
		return 2
	}
	r := runOne(p, rf.Case, true)
	out, _ := json.MarshalIndent(r, "", " ")
	fmt.Println(string(out))
	if len(r.Violations) > 0 {
		for _, v := range r.Violations {
			fmt.Printf("VIOLATION property=%s replay=%s key=%s :: %s\n", p.ID, path, v.Key, oneLine(v.Msg))
		}
		return 1
	}
	if r.Inconclusive != "" {
		return 2
	}
	return 0
}

func lastStarted(logPath string) string {
	b, err := os.ReadFile(logPath)
	if err != nil {
		return ""
	}
	lines := strings.Split(strings.TrimSpace(string(b)), "\n")
	if len(lines) == 0 {
		return ""
	}
	last := lines[len(lines)-1]
	if strings.HasPrefix(last, "START ") {
		return strings.TrimPrefix(last, "START ")
	}
	return ""
}

func firstLines(s string, n int) string {
	lines := strings.Split(s, "\n")
	if len(lines) > n {
		lines = lines[:n]
	}
	return strings.Join(lines, " | ")
}

func oneLine(s string) string {
	s = strings.ReplaceAll(s, "\n", " | ")
	if len(s) > 600 {
		s = s[:600] + "…"
	}
	return s
}

func sanitize(s string) string {
	var b strings.Builder
	for _, r := range s {
		if (r >= 'a' && r <= 'z') || (r >= 'A' && r <= 'Z') || (r >= '0' && r <= '9') || r == '-' || r == '_' || r == '.' {
			b.WriteRune(r)
		} else {
			b.WriteRune('_')
		}
	}
	if b.Len() > 80 {
		return b.String()[:80]
	}
	return b.String()
}
