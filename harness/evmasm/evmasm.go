// Package evmasm emits raw EVM bytecode for the generated contract programs (there is
// no Solidity compiler in the image): straight-line call programs that record per step
// whether the EVM kept the frame, forwarders for every call kind, and small stubs.
package evmasm

import (
	"math/big"

	"github.com/ethereum/go-ethereum/common"
)

const (
	STOP           = 0x00
	ADD            = 0x01
	SUB            = 0x03
	ISZERO         = 0x15
	CALLVALUE      = 0x34
	CALLDATALOAD   = 0x35
	CALLDATASIZE   = 0x36
	CALLDATACOPY   = 0x37
	CODECOPY       = 0x39
	RETURNDATASIZE = 0x3d
	RETURNDATACOPY = 0x3e
	CALLER         = 0x33
	POP            = 0x50
	MSTORE         = 0x52
	SLOAD          = 0x54
	SSTORE         = 0x55
	JUMP           = 0x56
	JUMPI          = 0x57
	GAS            = 0x5a
	JUMPDEST       = 0x5b
	PUSH1          = 0x60
	PUSH2          = 0x61
	PUSH20         = 0x73
	PUSH32         = 0x7f
	DUP1           = 0x80
	DUP3           = 0x82
	CALL           = 0xf1
	CALLCODE       = 0xf2
	RETURN         = 0xf3
	DELEGATECALL   = 0xf4
	STATICCALL     = 0xfa
	REVERT         = 0xfd
	INVALID        = 0xfe
	SELFDESTRUCT   = 0xff
)

type Asm struct {
	code   []byte
	fixups []fixup
	blobs  [][]byte
}

type fixup struct {
	pos  int // position of the 2-byte immediate
	blob int
}

func (a *Asm) Op(ops ...byte) *Asm { a.code = append(a.code, ops...); return a }

func (a *Asm) Push1(v byte) *Asm { return a.Op(PUSH1, v) }

func (a *Asm) Push2(v int) *Asm { return a.Op(PUSH2, byte(v>>8), byte(v)) }

func (a *Asm) PushAddr(addr common.Address) *Asm {
	a.Op(PUSH20)
	a.code = append(a.code, addr.Bytes()...)
	return a
}

func (a *Asm) PushBig(v *big.Int) *Asm {
	if v == nil || v.Sign() == 0 {
		return a.Push1(0)
	}
	b := v.Bytes()
	a.Op(PUSH1 + byte(len(b)-1))
	a.code = append(a.code, b...)
	return a
}

func (a *Asm) PushU64(v uint64) *Asm { return a.PushBig(new(big.Int).SetUint64(v)) }

// PushBlobOffset pushes the (later resolved) code offset of a data blob.
func (a *Asm) PushBlobOffset(blob []byte) *Asm {
	a.Op(PUSH2, 0, 0)
	a.fixups = append(a.fixups, fixup{pos: len(a.code) - 2, blob: len(a.blobs)})
	a.blobs = append(a.blobs, blob)
	return a
}

func (a *Asm) Here() int { return len(a.code) }

// Bytes resolves blob offsets and returns the runtime code.
func (a *Asm) Bytes() []byte {
	out := append([]byte{}, a.code...)
	out = append(out, INVALID) // separator: execution never falls into the data
	offs := make([]int, len(a.blobs))
	for i, b := range a.blobs {
		offs[i] = len(out)
		out = append(out, b...)
	}
	for _, f := range a.fixups {
		o := offs[f.blob]
		out[f.pos], out[f.pos+1] = byte(o>>8), byte(o)
	}
	return out
}

// Step is one call of a program.
type Step struct {
	Kind  byte // CALL | STATICCALL | DELEGATECALL | CALLCODE
	To    common.Address
	Value *big.Int
	Data  []byte
	Gas   uint64 // explicit gas cap; 0 = all remaining gas
}

// Prog is a straight-line program. After step i it stores success+1 in slot i
// (0 = not reached, 1 = the call failed and was caught, 2 = the call succeeded).
// With Bubble the program reverts itself as soon as a call fails (no catch).
type Prog struct {
	Steps []Step
	// End: "stop" | "revert" | "invalid" | "loop" (infinite loop until out of gas)
	End string
	// Bubble: revert with the callee's return data when step i fails (for i in BubbleAt)
	BubbleAt map[int]bool
	// Touch: additional SSTORE(100+i, 7) before step i (own storage writes around the calls)
	Touch bool
}

func (p Prog) Runtime() []byte {
	a := &Asm{}
	for i, s := range p.Steps {
		if p.Touch {
			a.Push1(7).Push1(byte(100 + i)).Op(SSTORE)
		}
		n := len(s.Data)
		// codecopy(dest=0, offset=blob, size=n)
		a.Push2(n).PushBlobOffset(s.Data).Push1(0).Op(CODECOPY)
		// ret size, ret offset
		a.Push1(0).Push1(0)
		// args size, args offset
		a.Push2(n).Push1(0)
		if s.Kind == CALL || s.Kind == CALLCODE {
			a.PushBig(s.Value)
		}
		a.PushAddr(s.To)
		if s.Gas == 0 {
			a.Op(GAS)
		} else {
			a.PushU64(s.Gas)
		}
		a.Op(s.Kind)
		// stack: success
		if p.BubbleAt[i] {
			// if !success revert(returndata)
			a.Op(DUP1)
			okPos := a.Here()
			a.Op(PUSH2, 0, 0, JUMPI)
			a.Op(RETURNDATASIZE).Push1(0).Push1(0).Op(RETURNDATACOPY)
			a.Op(RETURNDATASIZE).Push1(0).Op(REVERT)
			dest := a.Here()
			a.Op(JUMPDEST)
			a.code[okPos+1], a.code[okPos+2] = byte(dest>>8), byte(dest)
		}
		a.Push1(1).Op(ADD).Push1(byte(i)).Op(SSTORE)
	}
	switch p.End {
	case "revert":
		a.Push1(0).Push1(0).Op(REVERT)
	case "invalid":
		a.Op(INVALID)
	case "loop":
		d := a.Here()
		a.Op(JUMPDEST).Push2(d).Op(JUMP)
	default:
		a.Op(STOP)
	}
	return a.Bytes()
}

// Forwarder returns a contract that forwards calldata[32:] to the address in
// calldata[0:32] with the given call kind (value = callvalue for CALL/CALLCODE),
// returns the callee's return data and reverts with it when the call fails.
func Forwarder(kind byte) []byte {
	a := &Asm{}
	a.Push1(0x20).Op(CALLDATASIZE, SUB)              // size
	a.Op(DUP1).Push1(0x20).Push1(0).Op(CALLDATACOPY) // mem[0..size) = calldata[32:]
	a.Push1(0).Push1(0)                              // ret size, ret offset
	a.Op(DUP3).Push1(0)                              // args size, args offset
	if kind == CALL || kind == CALLCODE {
		a.Op(CALLVALUE)
	}
	a.Push1(0).Op(CALLDATALOAD).Op(GAS, kind)
	a.Op(RETURNDATASIZE).Push1(0).Push1(0).Op(RETURNDATACOPY)
	pos := a.Here()
	a.Op(PUSH2, 0, 0, JUMPI)
	a.Op(RETURNDATASIZE).Push1(0).Op(REVERT)
	dest := a.Here()
	a.Op(JUMPDEST, RETURNDATASIZE).Push1(0).Op(RETURN)
	a.code[pos+1], a.code[pos+2] = byte(dest>>8), byte(dest)
	return a.code
}

// Catcher is a forwarder that never reverts: it stores success+1 in slot 0 and returns.
func Catcher(kind byte) []byte {
	a := &Asm{}
	a.Push1(0x20).Op(CALLDATASIZE, SUB)
	a.Op(DUP1).Push1(0x20).Push1(0).Op(CALLDATACOPY)
	a.Push1(0).Push1(0)
	a.Op(DUP3).Push1(0)
	if kind == CALL || kind == CALLCODE {
		a.Op(CALLVALUE)
	}
	a.Push1(0).Op(CALLDATALOAD).Op(GAS, kind)
	a.Push1(1).Op(ADD).Push1(0).Op(SSTORE)
	a.Op(STOP)
	return a.code
}

// Reverter always reverts; Looper burns all gas; CallerRecorder stores CALLER in slot 0.
func Reverter() []byte { return []byte{PUSH1, 0, PUSH1, 0, REVERT} }
func Looper() []byte   { return []byte{JUMPDEST, PUSH1, 0, JUMP} }
func CallerRecorder() []byte {
	return []byte{CALLER, PUSH1, 0, SSTORE, PUSH1, 1, PUSH1, 1, SSTORE, STOP}
}

// ForwardData builds the calldata for a Forwarder/Catcher.
func ForwardData(target common.Address, payload []byte) []byte {
	out := make([]byte, 32, 32+len(payload))
	copy(out[12:], target.Bytes())
	return append(out, payload...)
}

// ---- a labelled mini assembler and the soft-failing token ---------------------------------

type lasm struct {
	code   []byte
	labels map[string]int
	refs   map[int]string // position of a 2-byte immediate -> label
}

func newLasm() *lasm { return &lasm{labels: map[string]int{}, refs: map[int]string{}} }

func (l *lasm) op(b ...byte) *lasm { l.code = append(l.code, b...); return l }
func (l *lasm) label(n string) *lasm {
	l.labels[n] = len(l.code)
	return l.op(JUMPDEST)
}

func (l *lasm) pushLabel(n string) *lasm {
	l.op(PUSH2, 0, 0)
	l.refs[len(l.code)-2] = n
	return l
}

func (l *lasm) bytes() []byte {
	out := append([]byte{}, l.code...)
	for pos, n := range l.refs {
		o := l.labels[n]
		out[pos], out[pos+1] = byte(o>>8), byte(o)
	}
	return out
}

// SoftFailToken is the runtime code of an ERC-20 that follows the EIP-20 convention of
// reporting a failed transfer by returning false instead of reverting (it never reverts):
// name / symbol / decimals (18) / totalSupply / balanceOf / transfer, plus an open
// mint(address,uint256) for fixtures. Every other selector returns 32 zero bytes.
func SoftFailToken(symbol string) []byte {
	const (
		lt, eq, shr, push4, push21 = 0x10, 0x14, 0x1c, 0x63, 0x74
	)
	total := append([]byte{push21, 1}, make([]byte, 20)...) // storage slot 2^160: above every address
	l := newLasm()
	l.op(PUSH1, 0, CALLDATALOAD, PUSH1, 0xe0, shr)
	sel := func(s [4]byte, lab string) {
		l.op(DUP1, push4, s[0], s[1], s[2], s[3], eq).pushLabel(lab).op(JUMPI)
	}
	sel([4]byte{0x06, 0xfd, 0xde, 0x03}, "name")
	sel([4]byte{0x95, 0xd8, 0x9b, 0x41}, "name")
	sel([4]byte{0x31, 0x3c, 0xe5, 0x67}, "decimals")
	sel([4]byte{0x18, 0x16, 0x0d, 0xdd}, "total")
	sel([4]byte{0x70, 0xa0, 0x82, 0x31}, "balanceOf")
	sel([4]byte{0x40, 0xc1, 0x0f, 0x19}, "mint")
	sel([4]byte{0xa9, 0x05, 0x9c, 0xbb}, "transfer")
	ret32 := func() { l.op(PUSH1, 0x20, PUSH1, 0, RETURN) }
	l.label("zero")
	ret32()
	l.label("name")
	l.op(PUSH1, 0x20, PUSH1, 0, MSTORE, PUSH1, byte(len(symbol)), PUSH1, 0x20, MSTORE)
	sym := make([]byte, 32)
	copy(sym, symbol)
	l.op(PUSH32).op(sym...).op(PUSH1, 0x40, MSTORE, PUSH1, 0x60, PUSH1, 0, RETURN)
	l.label("decimals").op(PUSH1, 18, PUSH1, 0, MSTORE)
	ret32()
	l.label("total").op(total...).op(SLOAD, PUSH1, 0, MSTORE)
	ret32()
	l.label("balanceOf").op(PUSH1, 4, CALLDATALOAD, SLOAD, PUSH1, 0, MSTORE)
	ret32()
	credit := func() { // balance[to] += amount
		l.op(PUSH1, 0x24, CALLDATALOAD, PUSH1, 4, CALLDATALOAD, SLOAD, ADD, PUSH1, 4, CALLDATALOAD, SSTORE)
	}
	retTrue := func() { l.op(PUSH1, 1, PUSH1, 0, MSTORE); ret32() }
	l.label("mint")
	credit()
	l.op(PUSH1, 0x24, CALLDATALOAD).op(total...).op(SLOAD, ADD).op(total...).op(SSTORE)
	retTrue()
	l.label("transfer")
	l.op(PUSH1, 0x24, CALLDATALOAD, CALLER, SLOAD, lt).pushLabel("zero").op(JUMPI) // balance < amount: return false
	l.op(PUSH1, 0x24, CALLDATALOAD, CALLER, SLOAD, SUB, CALLER, SSTORE)
	credit()
	retTrue()
	return l.bytes()
}

// ReenterWhilePoor is the runtime code of a contract that, whenever it is called while its own coin
// balance is below `limit`, CALLs `target` with `payload` and ignores the outcome; once its balance has
// reached the limit it returns at once. Used as a call-back target that tries to run a precompile
// method from inside the execution that called it: every (nested) execution pays it one more unit of
// value through the bank, which every nesting level sees, so the recursion is bounded.
func ReenterWhilePoor(target common.Address, payload []byte, gas uint64, limit byte) []byte {
	const selfbalance, lt = 0x47, 0x10
	a := &Asm{}
	a.Push1(limit).Op(selfbalance, lt).Push1(8).Op(JUMPI, STOP) // 0..7: balance >= limit -> stop
	a.Op(JUMPDEST)                                              // 8
	a.Push2(len(payload)).PushBlobOffset(payload).Push1(0).Op(CODECOPY)
	// CALL(gas, to, value, inOffset, inSize, outOffset, outSize)
	a.Push1(0).Push1(0).Push2(len(payload)).Push1(0).Push1(0).PushAddr(target).PushU64(gas).Op(CALL, POP, STOP)
	return a.Bytes()
}
