// Package fix holds workload fixtures shared by the monitors: the oracle set of a
// bridged chain, token registration, claim construction, the external-chain model.
package fix

import (
	"crypto/ecdsa"
	"encoding/hex"
	"fmt"

	sdkmath "cosmossdk.io/math"
	codectypes "github.com/cosmos/cosmos-sdk/codec/types"
	sdk "github.com/cosmos/cosmos-sdk/types"
	banktypes "github.com/cosmos/cosmos-sdk/x/bank/types"
	minttypes "github.com/cosmos/cosmos-sdk/x/mint/types"
	"github.com/ethereum/go-ethereum/common"
	"github.com/ethereum/go-ethereum/crypto"

	fxtypes "github.com/functionx/fx-core/v8/types"
	crosschainkeeper "github.com/functionx/fx-core/v8/x/crosschain/keeper"
	crosschaintypes "github.com/functionx/fx-core/v8/x/crosschain/types"
	erc20types "github.com/functionx/fx-core/v8/x/erc20/types"
	trontypes "github.com/functionx/fx-core/v8/x/tron/types"

	"verif/harness/chain"
)

func KeeperOf(c *chain.Chain, name string) crosschainkeeper.Keeper {
	a := c.App
	switch name {
	case "eth":
		return a.EthKeeper
	case "bsc":
		return a.BscKeeper
	case "polygon":
		return a.PolygonKeeper
	case "avalanche":
		return a.AvalancheKeeper
	case "tron":
		return a.TronKeeper
	case "arbitrum":
		return a.ArbitrumKeeper
	case "optimism":
		return a.OptimismKeeper
	case "layer2":
		return a.Layer2Keeper
	}
	panic("unknown chain " + name)
}

// Fund mints coins to addr (test set-up only: equivalent to a genesis balance).
func Fund(c *chain.Chain, addr sdk.AccAddress, coins ...sdk.Coin) {
	cs := sdk.NewCoins(coins...)
	if err := c.App.BankKeeper.MintCoins(c.Ctx, minttypes.ModuleName, cs); err != nil {
		panic(err)
	}
	if err := c.App.BankKeeper.SendCoinsFromModuleToAccount(c.Ctx, minttypes.ModuleName, addr, cs); err != nil {
		panic(err)
	}
}

type Oracle struct {
	Idx     int
	Oracle  chain.Key
	Bridger chain.Key
	Ext     *ecdsa.PrivateKey
	ExtAddr string
	Val     sdk.ValAddress
}

type Bridge struct {
	C       *chain.Chain
	Name    string
	K       crosschainkeeper.Keeper
	Oracles []*Oracle
	// external chain model state
	ExtHeight  uint64
	EventNonce uint64
}

func ExtAddrOf(chainName string, k *ecdsa.PrivateKey) string {
	return crosschaintypes.ExternalAddrToStr(chainName, crypto.PubkeyToAddress(k.PublicKey).Bytes())
}

// ExtAddr converts 20 raw bytes into the chain's external address format.
func ExtAddr(chainName string, a common.Address) string {
	return crosschaintypes.ExternalAddrToStr(chainName, a.Bytes())
}

func NewOracle(c *chain.Chain, chainName string, i int) *Oracle {
	seed := c.Cfg.Seed
	ek := chain.DeriveKey(seed, chainName+"-ext", i)
	return &Oracle{
		Idx:     i,
		Oracle:  chain.DeriveKey(seed, chainName+"-oracle", i),
		Bridger: chain.DeriveKey(seed, chainName+"-bridger", i),
		Ext:     ek.ECDSA,
		ExtAddr: ExtAddrOf(chainName, ek.ECDSA),
		Val:     c.Vals[i%len(c.Vals)].Operator.Val(),
	}
}

// SetupBridge approves n oracles through the governance authority and bonds them with
// the given stakes (base units). Oracles are funded with 2x the maximum stake.
func SetupBridge(c *chain.Chain, name string, stakes []sdkmath.Int) (*Bridge, error) {
	b := &Bridge{C: c, Name: name, K: KeeperOf(c, name), ExtHeight: 1000}
	var addrs []string
	for i := range stakes {
		o := NewOracle(c, name, i)
		b.Oracles = append(b.Oracles, o)
		addrs = append(addrs, o.Oracle.Bech32())
		Fund(c, o.Oracle.Acc(), sdk.NewCoin(fxtypes.DefaultDenom, chain.FX(3_000_000)))
		Fund(c, o.Bridger.Acc(), chain.FXCoin(1000))
	}
	if r := c.Msg(&crosschaintypes.MsgUpdateChainOracles{ChainName: name, Oracles: addrs, Authority: chain.GovAuthority()}); !r.OK() {
		return nil, fmt.Errorf("update chain oracles: %s", r.ErrString())
	}
	for i, o := range b.Oracles {
		if r := b.Bond(o, stakes[i]); !r.OK() {
			return nil, fmt.Errorf("bond oracle %d: %s", i, r.ErrString())
		}
	}
	return b, nil
}

func (b *Bridge) Bond(o *Oracle, stake sdkmath.Int) chain.Result {
	return b.C.Msg(&crosschaintypes.MsgBondedOracle{
		OracleAddress:    o.Oracle.Bech32(),
		BridgerAddress:   o.Bridger.Bech32(),
		ExternalAddress:  o.ExtAddr,
		ValidatorAddress: o.Val.String(),
		DelegateAmount:   sdk.NewCoin(fxtypes.DefaultDenom, stake),
		ChainName:        b.Name,
	})
}

// SetOracleList replaces the governance-approved oracle list.
func (b *Bridge) SetOracleList(os []*Oracle) chain.Result {
	var addrs []string
	for _, o := range os {
		addrs = append(addrs, o.Oracle.Bech32())
	}
	return b.C.Msg(&crosschaintypes.MsgUpdateChainOracles{ChainName: b.Name, Oracles: addrs, Authority: chain.GovAuthority()})
}

// ClaimFn builds a claim for the given bridger.
type ClaimFn func(bridger string) crosschaintypes.ExternalClaim

// WrapClaim packs a claim in the MsgClaim wrapper the router accepts.
func WrapClaim(chainName, wrapperBridger string, claim crosschaintypes.ExternalClaim) *crosschaintypes.MsgClaim {
	a, err := codectypes.NewAnyWithValue(claim)
	if err != nil {
		panic(err)
	}
	return &crosschaintypes.MsgClaim{ChainName: chainName, BridgerAddress: wrapperBridger, Claim: a}
}

// Vote submits oracle o's vote for the claim built by fn.
func (b *Bridge) Vote(o *Oracle, fn ClaimFn) chain.Result {
	return b.VoteOn(b.C.Ctx, o, fn)
}

func (b *Bridge) VoteOn(ctx sdk.Context, o *Oracle, fn ClaimFn) chain.Result {
	cl := fn(o.Bridger.Bech32())
	return b.C.MsgOn(ctx, WrapClaim(b.Name, o.Bridger.Bech32(), cl))
}

// Quorum lets every oracle (in index order) vote; returns the first error, if any.
func (b *Bridge) Quorum(fn ClaimFn) error {
	for _, o := range b.Oracles {
		oc, found := b.K.GetOracle(b.C.Ctx, o.Oracle.Acc())
		if !found || !oc.Online {
			continue
		}
		if r := b.Vote(o, fn); !r.OK() {
			return fmt.Errorf("oracle %d vote: %s", o.Idx, r.ErrString())
		}
	}
	return nil
}

// NextEvent advances the external model: one more block and the next event nonce.
func (b *Bridge) NextEvent() (nonce, height uint64) {
	b.EventNonce++
	b.ExtHeight++
	return b.EventNonce, b.ExtHeight
}

func (b *Bridge) BridgeTokenClaim(nonce, height uint64, token common.Address, name, symbol string, decimals uint64) ClaimFn {
	return func(bridger string) crosschaintypes.ExternalClaim {
		return &crosschaintypes.MsgBridgeTokenClaim{
			EventNonce: nonce, BlockHeight: height, TokenContract: ExtAddr(b.Name, token),
			Name: name, Symbol: symbol, Decimals: decimals, BridgerAddress: bridger, ChainName: b.Name,
		}
	}
}

func (b *Bridge) SendToFxClaim(nonce, height uint64, token common.Address, amount sdkmath.Int, sender common.Address, receiver sdk.AccAddress, targetIbc string) ClaimFn {
	return func(bridger string) crosschaintypes.ExternalClaim {
		return &crosschaintypes.MsgSendToFxClaim{
			EventNonce: nonce, BlockHeight: height, TokenContract: ExtAddr(b.Name, token), Amount: amount,
			Sender: ExtAddr(b.Name, sender), Receiver: receiver.String(), TargetIbc: hex.EncodeToString([]byte(targetIbc)),
			BridgerAddress: bridger, ChainName: b.Name,
		}
	}
}

func (b *Bridge) SendToExternalClaim(nonce, height, batchNonce uint64, token common.Address) ClaimFn {
	return func(bridger string) crosschaintypes.ExternalClaim {
		return &crosschaintypes.MsgSendToExternalClaim{
			EventNonce: nonce, BlockHeight: height, BatchNonce: batchNonce, TokenContract: ExtAddr(b.Name, token),
			BridgerAddress: bridger, ChainName: b.Name,
		}
	}
}

func (b *Bridge) BridgeCallResultClaim(nonce, height, callNonce uint64, success bool, origin common.Address) ClaimFn {
	return func(bridger string) crosschaintypes.ExternalClaim {
		return &crosschaintypes.MsgBridgeCallResultClaim{
			EventNonce: nonce, BlockHeight: height, Nonce: callNonce, Success: success, TxOrigin: ExtAddr(b.Name, origin),
			BridgerAddress: bridger, ChainName: b.Name,
		}
	}
}

type BridgeCallIn struct {
	Sender, Refund, To, TxOrigin common.Address
	Tokens                       []common.Address
	Amounts                      []sdkmath.Int
	Data, Memo                   []byte
	Value                        sdkmath.Int
}

func (b *Bridge) BridgeCallClaim(nonce, height uint64, in BridgeCallIn) ClaimFn {
	return func(bridger string) crosschaintypes.ExternalClaim {
		var toks []string
		for _, t := range in.Tokens {
			toks = append(toks, ExtAddr(b.Name, t))
		}
		v := in.Value
		if v.IsNil() {
			v = sdkmath.ZeroInt()
		}
		return &crosschaintypes.MsgBridgeCallClaim{
			ChainName: b.Name, BridgerAddress: bridger, EventNonce: nonce, BlockHeight: height,
			Sender: ExtAddr(b.Name, in.Sender), Refund: ExtAddr(b.Name, in.Refund), To: ExtAddr(b.Name, in.To),
			TokenContracts: toks, Amounts: in.Amounts, Data: hex.EncodeToString(in.Data), Value: v,
			Memo: hex.EncodeToString(in.Memo), TxOrigin: ExtAddr(b.Name, in.TxOrigin),
		}
	}
}

// Token is one bridged token: external contract, bridge denom on this chain, base denom.
type Token struct {
	Ext         common.Address
	BridgeDenom string
	Base        string
	Symbol      string
	ERC20       common.Address
}

func TokenAddr(seed uint64, label string, i int) common.Address {
	return chain.DeriveKey(seed, "token-"+label, i).Hex()
}

// AddBridgeToken observes a bridge-token event for ext on this chain.
func (b *Bridge) AddBridgeToken(ext common.Address, name, symbol string, decimals uint64) (string, error) {
	n, h := b.NextEvent()
	if err := b.Quorum(b.BridgeTokenClaim(n, h, ext, name, symbol, decimals)); err != nil {
		return "", err
	}
	denom := crosschaintypes.NewBridgeDenom(b.Name, ExtAddr(b.Name, ext))
	if !b.K.HasBridgeToken(b.C.Ctx, denom) {
		return "", fmt.Errorf("bridge token %s not registered after quorum", denom)
	}
	return denom, nil
}

// RegisterCoin registers a module-owned token pair (base denom = lower(symbol)) whose
// aliases are the given bridge denoms, through the governance authority.
func RegisterCoin(c *chain.Chain, name, symbol string, decimals uint32, aliases ...string) (erc20types.TokenPair, error) {
	md := fxtypes.GetCrossChainMetadataManyToOne(name, symbol, decimals, aliases...)
	r := c.Msg(&erc20types.MsgRegisterCoin{Authority: chain.GovAuthority(), Metadata: md})
	if !r.OK() {
		return erc20types.TokenPair{}, fmt.Errorf("register coin: %s", r.ErrString())
	}
	p, ok := c.App.Erc20Keeper.GetTokenPair(c.Ctx, md.Base)
	if !ok {
		return p, fmt.Errorf("pair %s missing after register", md.Base)
	}
	return p, nil
}

func Metadata(c *chain.Chain, denom string) (banktypes.Metadata, bool) {
	return c.App.BankKeeper.GetDenomMetaData(c.Ctx, denom)
}

func IsTron(name string) bool { return name == trontypes.ModuleName }

// ---- confirmations (honest oracle behaviour: sign the checkpoint of the stored object) ----

func (b *Bridge) Sign(o *Oracle, checkpoint []byte) string {
	var sig []byte
	var err error
	if IsTron(b.Name) {
		sig, err = trontypes.NewTronSignature(checkpoint, o.Ext)
	} else {
		sig, err = crosschaintypes.NewEthereumSignature(checkpoint, o.Ext)
	}
	if err != nil {
		panic(err)
	}
	return hex.EncodeToString(sig)
}

func (b *Bridge) GravityID() string { return b.K.GetParams(b.C.Ctx).GravityId } // read from the parameters, not through the handlers' accessor

func (b *Bridge) OracleSetCheckpoint(set *crosschaintypes.OracleSet) []byte {
	var cp []byte
	var err error
	if IsTron(b.Name) {
		cp, err = trontypes.GetCheckpointOracleSet(set, b.GravityID())
	} else {
		cp, err = set.GetCheckpoint(b.GravityID())
	}
	if err != nil {
		panic(err)
	}
	return cp
}

func (b *Bridge) BatchCheckpoint(batch *crosschaintypes.OutgoingTxBatch) []byte {
	var cp []byte
	var err error
	if IsTron(b.Name) {
		cp, err = trontypes.GetCheckpointConfirmBatch(batch, b.GravityID())
	} else {
		cp, err = batch.GetCheckpoint(b.GravityID())
	}
	if err != nil {
		panic(err)
	}
	return cp
}

func (b *Bridge) BridgeCallCheckpoint(call *crosschaintypes.OutgoingBridgeCall) []byte {
	var cp []byte
	var err error
	if IsTron(b.Name) {
		cp, err = trontypes.GetCheckpointBridgeCall(call, b.GravityID())
	} else {
		cp, err = call.GetCheckpoint(b.GravityID())
	}
	if err != nil {
		panic(err)
	}
	return cp
}

func (b *Bridge) ConfirmOracleSet(o *Oracle, nonce uint64) chain.Result {
	set := b.K.GetOracleSet(b.C.Ctx, nonce)
	if set == nil {
		return chain.Result{Err: fmt.Errorf("oracle set %d not found", nonce)}
	}
	return b.C.Msg(&crosschaintypes.MsgOracleSetConfirm{
		Nonce: nonce, BridgerAddress: o.Bridger.Bech32(), ExternalAddress: o.ExtAddr,
		Signature: b.Sign(o, b.OracleSetCheckpoint(set)), ChainName: b.Name,
	})
}

func (b *Bridge) ConfirmBatch(o *Oracle, tokenContract string, nonce uint64) chain.Result {
	batch := b.K.GetOutgoingTxBatch(b.C.Ctx, tokenContract, nonce)
	if batch == nil {
		return chain.Result{Err: fmt.Errorf("batch %s/%d not found", tokenContract, nonce)}
	}
	return b.C.Msg(&crosschaintypes.MsgConfirmBatch{
		Nonce: nonce, TokenContract: tokenContract, BridgerAddress: o.Bridger.Bech32(), ExternalAddress: o.ExtAddr,
		Signature: b.Sign(o, b.BatchCheckpoint(batch)), ChainName: b.Name,
	})
}

func (b *Bridge) ConfirmBridgeCall(o *Oracle, nonce uint64) chain.Result {
	call, ok := b.K.GetOutgoingBridgeCallByNonce(b.C.Ctx, nonce)
	if !ok {
		return chain.Result{Err: fmt.Errorf("bridge call %d not found", nonce)}
	}
	return b.C.Msg(&crosschaintypes.MsgBridgeCallConfirm{
		Nonce: nonce, BridgerAddress: o.Bridger.Bech32(), ExternalAddress: o.ExtAddr,
		Signature: b.Sign(o, b.BridgeCallCheckpoint(call)), ChainName: b.Name,
	})
}

// ConfirmAllPending lets the given oracles confirm every stored oracle set, batch and
// outgoing bridge call they have not confirmed yet (an honest relayer's duty).
func (b *Bridge) ConfirmAllPending(os []*Oracle) {
	ctx := b.C.Ctx
	for _, o := range os {
		oc, found := b.K.GetOracle(ctx, o.Oracle.Acc())
		if !found {
			continue
		}
		_ = oc
		for _, set := range b.K.GetOracleSets(ctx) {
			if b.K.GetOracleSetConfirm(ctx, set.Nonce, o.Oracle.Acc()) == nil {
				b.ConfirmOracleSet(o, set.Nonce)
			}
		}
		for _, batch := range b.K.GetOutgoingTxBatches(ctx) {
			if b.K.GetBatchConfirm(ctx, batch.TokenContract, batch.BatchNonce, o.Oracle.Acc()) == nil {
				b.ConfirmBatch(o, batch.TokenContract, batch.BatchNonce)
			}
		}
		var calls []uint64
		b.K.IterateOutgoingBridgeCalls(ctx, func(oc *crosschaintypes.OutgoingBridgeCall) bool {
			calls = append(calls, oc.Nonce)
			return false
		})
		for _, n := range calls {
			if !b.K.HasBridgeCallConfirm(ctx, n, o.Oracle.Acc()) {
				b.ConfirmBridgeCall(o, n)
			}
		}
	}
}

// GenesisRoundTrip exports the bridge module's genesis state on a throw-away branch, wipes the
// module's store there and imports the state again (what a restart from an exported genesis does).
// It returns the branch and the differences between the module's store before and after.
func (b *Bridge) GenesisRoundTrip() (sdk.Context, []chain.DiffEntry, error) {
	c := b.C
	ctx := c.Branch()
	var gs *crosschaintypes.GenesisState
	var err error
	func() {
		defer func() {
			if r := recover(); r != nil {
				err = fmt.Errorf("export panicked: %v", r)
			}
		}()
		gs = crosschainkeeper.ExportGenesis(ctx, b.K)
	}()
	if err != nil {
		return ctx, nil, err
	}
	before := c.Dump(ctx, b.Name)
	st := ctx.KVStore(c.App.GetKVStoreKey()[b.Name])
	var keys [][]byte
	it := st.Iterator(nil, nil)
	for ; it.Valid(); it.Next() {
		keys = append(keys, append([]byte{}, it.Key()...))
	}
	it.Close()
	for _, k := range keys {
		st.Delete(k)
	}
	func() {
		defer func() {
			if r := recover(); r != nil {
				err = fmt.Errorf("import panicked: %v", r)
			}
		}()
		crosschainkeeper.InitGenesis(ctx, b.K, gs)
	}()
	if err != nil {
		return ctx, nil, err
	}
	return ctx, chain.Diff(before, c.Dump(ctx, b.Name)), nil
}
