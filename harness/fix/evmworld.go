package fix

import (
	"fmt"
	"math/big"
	"strings"

	sdkmath "cosmossdk.io/math"
	sdk "github.com/cosmos/cosmos-sdk/types"
	"github.com/ethereum/go-ethereum/common"
	"github.com/ethereum/go-ethereum/crypto"

	crosschaintypes "github.com/functionx/fx-core/v8/x/crosschain/types"
	erc20types "github.com/functionx/fx-core/v8/x/erc20/types"
	fxstakingtypes "github.com/functionx/fx-core/v8/x/staking/types"

	"verif/harness/chain"
)

// EvmWorld is the fixture of the precompile monitors (C08, C09, C10): one bridged chain
// with an oracle quorum, a module-owned token, the native coin and an externally-owned
// token, users holding every representation, delegations, pool entries and parked claims.
type EvmWorld struct {
	C        *chain.Chain
	W        *World
	B        *Bridge
	USDT     *WToken
	FX       *WToken
	XTK      *WToken
	Vals     []sdk.ValAddress
	Deployer chain.Key // deploys the generated programs
	Victim   chain.Key // holds assets the programs must not be able to touch
	Caller   chain.Key // sends the transactions
	Other    chain.Key
	// parked (observed, unexecuted) SendToFx claims: nonce -> amount
	Parked map[uint64]sdkmath.Int
	// pool entries owned by the victim
	VictimTxIDs []uint64
}

func StakingPack(method string, args ...interface{}) []byte {
	d, err := fxstakingtypes.GetABI().Pack(method, args...)
	if err != nil {
		panic(fmt.Errorf("pack %s: %w", method, err))
	}
	return d
}

func PrecompileStaking() common.Address { return fxstakingtypes.GetAddress() }

func NewEvmWorld(seed uint64, chainName string, inflation bool) (*EvmWorld, error) {
	c := chain.New(chain.Config{Seed: seed, NumVals: 3, NumUsers: 6, KeepInflation: inflation,
		CrosschainParams: func(n string, p *crosschaintypes.Params) { p.SignedWindow = 100_000 }})
	w := NewWorld(c)
	e := &EvmWorld{C: c, W: w, Deployer: c.Users[0], Victim: c.Users[1], Caller: c.Users[2], Other: c.Users[3], Parked: map[uint64]sdkmath.Int{}}
	for _, v := range c.Vals {
		e.Vals = append(e.Vals, v.Operator.Val())
	}
	stakes := []sdkmath.Int{chain.FX(10000), chain.FX(10000), chain.FX(10000)}
	b, err := w.AddBridge(chainName, stakes)
	if err != nil {
		return nil, err
	}
	e.B = b
	if _, err := c.Next(); err != nil {
		return nil, err
	}
	// the module-owned token: in every other world its denomination merely *starts with* the name of a
	// supported chain (ethfi, bscfi, tronfi): an ordinary coin that must not be taken for a bridge denomination
	sym := "USDT"
	if seed%2 == 1 {
		sym = strings.ToUpper(chainName) + "FI"
	}
	if e.USDT, err = w.AddModuleToken(sym, chainName); err != nil {
		return nil, err
	}
	if e.FX, err = w.AddFXToken(chainName); err != nil {
		return nil, err
	}
	if e.XTK, err = w.AddExternalToken(c.Users[5], "XTK", big.NewInt(1_000_000_000), chainName); err != nil {
		return nil, err
	}
	// everybody gets USDT as coin and as ERC-20, XTK as ERC-20
	for _, u := range []chain.Key{e.Deployer, e.Victim, e.Caller, e.Other} {
		coins := int64(1_000_000)
		if u.Label == e.Deployer.Label {
			coins = 100_000_000 // the deployer funds every generated program contract
		}
		if _, err := b.Deposit(c.Users[4], e.USDT, sdkmath.NewInt(coins), u.Hex(), u.Acc(), ""); err != nil {
			return nil, err
		}
		if _, err := b.Deposit(c.Users[4], e.USDT, sdkmath.NewInt(1_000_000), u.Hex(), u.Acc(), "erc20"); err != nil {
			return nil, err
		}
		xtk := int64(1_000_000)
		if u.Label == e.Deployer.Label {
			xtk = 100_000_000
		}
		if er := c.EthTx(c.Users[5], &e.XTK.ERC20, chain.ERC20Pack("transfer", u.Hex(), big.NewInt(xtk)), nil, 0); er.Failed() {
			return nil, fmt.Errorf("xtk transfer: %s", er.VmError())
		}
	}
	// the victim's portfolio: delegations, a pool entry, an outgoing bridge call
	pc := PrecompileStaking()
	for i, v := range e.Vals[:2] {
		if er := c.EthTx(e.Victim, &pc, StakingPack("delegateV2", v.String(), chain.FX(int64(5000*(i+1))).BigInt()), nil, 0); er.Failed() {
			return nil, fmt.Errorf("victim delegate: %s", er.VmError())
		}
	}
	for i := 0; i < 2; i++ {
		id, r := b.SendToExternal(e.Victim, e.Other.Hex(), sdk.NewCoin(e.USDT.Base, sdkmath.NewInt(int64(1000+i))), sdk.NewCoin(e.USDT.Base, sdkmath.NewInt(7)))
		if !r.OK() {
			return nil, fmt.Errorf("victim send: %s", r.ErrString())
		}
		e.VictimTxIDs = append(e.VictimTxIDs, id)
	}
	if r := b.BridgeCallMsg(e.Victim, e.Victim.Acc(), sdk.NewCoins(sdk.NewCoin(e.USDT.Base, sdkmath.NewInt(333))), e.Other.Hex(), []byte{1}, nil); !r.OK() {
		return nil, fmt.Errorf("victim bridge call: %s", r.ErrString())
	}
	if _, err := c.Next(); err != nil {
		return nil, err
	}
	return e, nil
}

// ParkDeposit observes a SendToFx event for receiver without executing it.
func (e *EvmWorld) ParkDeposit(t *WToken, amount sdkmath.Int, receiver sdk.AccAddress, target string) (uint64, error) {
	n, h := e.B.NextEvent()
	if err := e.B.Quorum(e.B.SendToFxClaim(n, h, t.Ext[e.B.Name], amount, e.Other.Hex(), receiver, target)); err != nil {
		return 0, err
	}
	e.Parked[n] = amount
	return n, nil
}

// NextContractAddr is the address the deployer's next CREATE will produce.
func (e *EvmWorld) NextContractAddr(ctx sdk.Context, deployer chain.Key) common.Address {
	return crypto.CreateAddress(deployer.Hex(), e.C.App.EvmKeeper.GetNonce(ctx, deployer.Hex()))
}

// FundContract gives addr FX, USDT (coin and ERC-20) and XTK on ctx (set-up only).
func (e *EvmWorld) FundContract(ctx sdk.Context, addr common.Address) error {
	c := e.C
	if err := c.App.BankKeeper.SendCoins(ctx, e.Deployer.Acc(), addr.Bytes(), sdk.NewCoins(chain.FXCoin(100_000), sdk.NewCoin(e.USDT.Base, sdkmath.NewInt(100_000)))); err != nil {
		return err
	}
	if r := c.MsgOn(ctx, &erc20types.MsgConvertCoin{Coin: sdk.NewCoin(e.USDT.Base, sdkmath.NewInt(100_000)), Receiver: addr.Hex(), Sender: e.Deployer.Bech32()}); !r.OK() {
		return fmt.Errorf("fund usdt erc20: %s", r.ErrString())
	}
	if er := c.EthTxOn(ctx, e.Deployer, &e.XTK.ERC20, chain.ERC20Pack("transfer", addr, big.NewInt(100_000)), nil, 0); er.Failed() {
		return fmt.Errorf("fund xtk: %s", er.VmError())
	}
	return nil
}
