package fix

import (
	"fmt"
	"time"

	sdk "github.com/cosmos/cosmos-sdk/types"
	govv1 "github.com/cosmos/cosmos-sdk/x/gov/types/v1"

	"verif/harness/chain"
)

// Propose submits a real governance proposal (messages carry the gov authority).
func Propose(c *chain.Chain, proposer chain.Key, msgs []sdk.Msg, deposit sdk.Coins, title string) (uint64, chain.Result) {
	return ProposeExpedited(c, proposer, msgs, deposit, title, false)
}

func ProposeExpedited(c *chain.Chain, proposer chain.Key, msgs []sdk.Msg, deposit sdk.Coins, title string, expedited bool) (uint64, chain.Result) {
	m, err := govv1.NewMsgSubmitProposal(msgs, deposit, proposer.Bech32(), "", title, title+" summary", expedited)
	if err != nil {
		return 0, chain.Result{Err: err}
	}
	r := c.Msg(m)
	if !r.OK() {
		return 0, r
	}
	var resp govv1.MsgSubmitProposalResponse
	if err := c.Resp(r, &resp); err != nil {
		return 0, chain.Result{Err: err}
	}
	return resp.ProposalId, r
}

func GovDeposit(c *chain.Chain, from chain.Key, id uint64, amount sdk.Coins) chain.Result {
	return c.Msg(govv1.NewMsgDeposit(from.Acc(), id, amount))
}

func GovVote(c *chain.Chain, voter chain.Key, id uint64, opt govv1.VoteOption) chain.Result {
	return c.Msg(govv1.NewMsgVote(voter.Acc(), id, opt, ""))
}

func GovVoteWeighted(c *chain.Chain, voter chain.Key, id uint64, opts govv1.WeightedVoteOptions) chain.Result {
	return c.Msg(govv1.NewMsgVoteWeighted(voter.Acc(), id, opts, ""))
}

func Proposal(c *chain.Chain, id uint64) (govv1.Proposal, bool) {
	p, err := c.App.GovKeeper.Proposals.Get(c.Ctx, id)
	return p, err == nil
}

// GovExec runs msgs through a complete real proposal: submit with the full minimum
// deposit, every validator votes yes, time jumps past the voting end, the gov end
// blocker executes. Returns the final proposal.
func GovExec(c *chain.Chain, proposer chain.Key, msgs ...sdk.Msg) (govv1.Proposal, error) {
	params, err := c.App.GovKeeper.Params.Get(c.Ctx)
	if err != nil {
		return govv1.Proposal{}, err
	}
	id, r := Propose(c, proposer, msgs, params.MinDeposit, "verif proposal")
	if !r.OK() {
		return govv1.Proposal{}, fmt.Errorf("submit: %s", r.ErrString())
	}
	p, _ := Proposal(c, id)
	if p.Status != govv1.StatusVotingPeriod {
		return p, fmt.Errorf("proposal %d did not enter voting (status %s)", id, p.Status)
	}
	for _, v := range c.Vals {
		if r := GovVote(c, v.Operator, id, govv1.OptionYes); !r.OK() {
			return p, fmt.Errorf("vote: %s", r.ErrString())
		}
	}
	dt := p.VotingEndTime.Sub(c.Time) + time.Second
	if _, err := c.EndBlock(dt); err != nil {
		return p, err
	}
	if _, err := c.EndBlock(0); err != nil {
		return p, err
	}
	p, _ = Proposal(c, id)
	return p, nil
}
