package fix

import (
	"encoding/hex"
	"fmt"
	"time"

	sdkmath "cosmossdk.io/math"
	sdk "github.com/cosmos/cosmos-sdk/types"
	transfertypes "github.com/cosmos/ibc-go/v8/modules/apps/transfer/types"
	clienttypes "github.com/cosmos/ibc-go/v8/modules/core/02-client/types"
	channeltypes "github.com/cosmos/ibc-go/v8/modules/core/04-channel/types"
	"github.com/cosmos/ibc-go/v8/modules/core/exported"
	localhost "github.com/cosmos/ibc-go/v8/modules/light-clients/09-localhost"

	fxtypes "github.com/functionx/fx-core/v8/types"

	"verif/harness/chain"
)

// Loop is an IBC loop-back fixture: transfer channels opened over connection-localhost
// on the single real app, so that MsgTransfer / MsgRecvPacket / MsgAcknowledgement /
// MsgTimeout run through the real IBC core (TAO checks, replay protection, the
// cache-and-discard rule for error acknowledgements) and the real fx middleware stack.
type Loop struct {
	C       *chain.Chain
	Relayer chain.Key
	// Pairs[i] = (a, b): channel a <-> channel b on port transfer
	Pairs [][2]string
}

var proofHeight = clienttypes.NewHeight(0, 1)

func NewLoop(c *chain.Chain, relayer chain.Key, pairs int) (*Loop, error) {
	l := &Loop{C: c, Relayer: relayer}
	for i := 0; i < pairs; i++ {
		a, b, err := l.openPair()
		if err != nil {
			return nil, err
		}
		l.Pairs = append(l.Pairs, [2]string{a, b})
	}
	return l, nil
}

func (l *Loop) openPair() (string, string, error) {
	c := l.C
	port := transfertypes.PortID
	signer := l.Relayer.Bech32()
	next := func() string {
		return channeltypes.FormatChannelIdentifier(c.App.IBCKeeper.ChannelKeeper.GetNextChannelSequence(c.Ctx))
	}
	a := next()
	r := c.Msg(channeltypes.NewMsgChannelOpenInit(port, transfertypes.Version, channeltypes.UNORDERED, []string{exported.LocalhostConnectionID}, port, signer))
	if !r.OK() {
		return "", "", fmt.Errorf("chan open init: %s", r.ErrString())
	}
	b := next()
	r = c.Msg(channeltypes.NewMsgChannelOpenTry(port, transfertypes.Version, channeltypes.UNORDERED, []string{exported.LocalhostConnectionID}, port, a, transfertypes.Version, localhost.SentinelProof, proofHeight, signer))
	if !r.OK() {
		return "", "", fmt.Errorf("chan open try: %s", r.ErrString())
	}
	r = c.Msg(channeltypes.NewMsgChannelOpenAck(port, a, b, transfertypes.Version, localhost.SentinelProof, proofHeight, signer))
	if !r.OK() {
		return "", "", fmt.Errorf("chan open ack: %s", r.ErrString())
	}
	r = c.Msg(channeltypes.NewMsgChannelOpenConfirm(port, b, localhost.SentinelProof, proofHeight, signer))
	if !r.OK() {
		return "", "", fmt.Errorf("chan open confirm: %s", r.ErrString())
	}
	return a, b, nil
}

// Packet builds the ICS-20 packet that `srcChannel` would have sent with the given sequence.
func (l *Loop) Packet(seq uint64, srcChannel, dstChannel string, data transfertypes.FungibleTokenPacketData, timeout time.Time) channeltypes.Packet {
	return channeltypes.NewPacket(data.GetBytes(), seq, transfertypes.PortID, srcChannel, transfertypes.PortID, dstChannel, clienttypes.ZeroHeight(), uint64(timeout.UnixNano()))
}

// Send submits a real MsgTransfer on srcChannel and returns the packet that was committed.
func (l *Loop) Send(ctx sdk.Context, sender chain.Key, srcChannel string, coin sdk.Coin, receiver, memo string, timeout time.Time) (channeltypes.Packet, chain.Result) {
	c := l.C
	seq, _ := c.App.IBCKeeper.ChannelKeeper.GetNextSequenceSend(ctx, transfertypes.PortID, srcChannel)
	r := c.MsgOn(ctx, transfertypes.NewMsgTransfer(transfertypes.PortID, srcChannel, coin, sender.Bech32(), receiver, clienttypes.ZeroHeight(), uint64(timeout.UnixNano()), memo))
	if !r.OK() {
		return channeltypes.Packet{}, r
	}
	return l.sentPacket(ctx, seq, srcChannel, sender.Bech32(), coin, receiver, memo, timeout), r
}

func (l *Loop) sentPacket(ctx sdk.Context, seq uint64, srcChannel, sender string, coin sdk.Coin, receiver, memo string, timeout time.Time) channeltypes.Packet {
	c := l.C
	fullDenom := coin.Denom
	if h := mustHash(coin.Denom); h != nil {
		if tr, ok := c.App.IBCTransferKeeper.GetDenomTrace(ctx, h); ok {
			fullDenom = tr.GetFullDenomPath()
		}
	}
	data := transfertypes.NewFungibleTokenPacketData(fullDenom, coin.Amount.String(), sender, receiver, memo)
	return l.Packet(seq, srcChannel, l.Counterparty(srcChannel), data, timeout)
}

func mustHash(denom string) []byte {
	if len(denom) > 4 && denom[:4] == "ibc/" {
		h, err := transfertypes.ParseHexHash(denom[4:])
		if err == nil {
			return h
		}
	}
	return nil
}

// PacketFor reconstructs the packet of a send that happened elsewhere (e.g. inside a precompile).
func (l *Loop) PacketFor(ctx sdk.Context, seq uint64, srcChannel, sender string, coin sdk.Coin, receiver, memo string, timeoutNanos uint64) channeltypes.Packet {
	p := l.sentPacket(ctx, seq, srcChannel, sender, coin, receiver, memo, time.Unix(0, 0))
	p.TimeoutTimestamp = timeoutNanos
	return p
}

func (l *Loop) Counterparty(ch string) string {
	for _, p := range l.Pairs {
		if p[0] == ch {
			return p[1]
		}
		if p[1] == ch {
			return p[0]
		}
	}
	return ""
}

// Recv relays the packet to its destination end. The acknowledgement written (if any) is returned.
func (l *Loop) Recv(ctx sdk.Context, p channeltypes.Packet) ([]byte, chain.Result) {
	c := l.C
	r := c.MsgOn(ctx, channeltypes.NewMsgRecvPacket(p, localhost.SentinelProof, proofHeight, l.Relayer.Bech32()))
	var ackBz []byte
	for _, e := range r.Events {
		if e.Type == channeltypes.EventTypeWriteAck {
			for _, a := range e.Attributes {
				if a.Key == channeltypes.AttributeKeyAckHex {
					ackBz, _ = hex.DecodeString(a.Value)
				}
			}
		}
	}
	return ackBz, r
}

func (l *Loop) Ack(ctx sdk.Context, p channeltypes.Packet, ack []byte) chain.Result {
	return l.C.MsgOn(ctx, channeltypes.NewMsgAcknowledgement(p, ack, localhost.SentinelProof, proofHeight, l.Relayer.Bech32()))
}

func (l *Loop) Timeout(ctx sdk.Context, p channeltypes.Packet) chain.Result {
	c := l.C
	next, _ := c.App.IBCKeeper.ChannelKeeper.GetNextSequenceRecv(ctx, p.DestinationPort, p.DestinationChannel)
	return c.MsgOn(ctx, channeltypes.NewMsgTimeout(p, next, localhost.SentinelProof, proofHeight, l.Relayer.Bech32()))
}

// AckOK / AckErr recognise the two acknowledgement kinds of ICS-20.
func AckOK(ack []byte) bool {
	var a channeltypes.Acknowledgement
	if err := transfertypes.ModuleCdc.UnmarshalJSON(ack, &a); err != nil {
		return false
	}
	return a.Success()
}

var _ = sdkmath.ZeroInt

// Explain re-runs the two receive steps of the middleware stack on a throw-away branch and
// returns their errors (error acknowledgements hide the cause). Diagnostics only.
func (l *Loop) Explain(ctx sdk.Context, p channeltypes.Packet) (out string) {
	defer func() {
		if r := recover(); r != nil {
			out = fmt.Sprintf("panic: %v", r)
		}
	}()
	c := l.C
	dbg, _ := ctx.CacheContext()
	var data transfertypes.FungibleTokenPacketData
	if err := transfertypes.ModuleCdc.UnmarshalJSON(p.GetData(), &data); err != nil {
		return "unmarshal: " + err.Error()
	}
	inner := data
	if recv, _, err := fxtypes.ParseAddress(data.Receiver); err != nil {
		return "parse receiver: " + err.Error()
	} else {
		inner.Receiver = recv.String()
	}
	if err := inner.ValidateBasic(); err != nil {
		return "packet data: " + err.Error()
	}
	if err := c.App.IBCTransferKeeper.OnRecvPacket(dbg, p, inner); err != nil {
		return "transfer: " + err.Error()
	}
	if err := c.App.IBCMiddlewareKeeper.OnRecvPacket(dbg, p, data); err != nil {
		return "middleware: " + err.Error()
	}
	return "no error"
}

// RecvForeign plays a remote chain that is not this application: the packet is marked received on
// the destination end and `ack` is what that chain wrote as its acknowledgement (any bytes the
// ICS-04 rules admit, e.g. an error acknowledgement with an empty text). Nothing of this
// application's receive logic runs.
func (l *Loop) RecvForeign(ctx sdk.Context, p channeltypes.Packet, ack []byte) {
	ck := l.C.App.IBCKeeper.ChannelKeeper
	ck.SetPacketReceipt(ctx, p.DestinationPort, p.DestinationChannel, p.Sequence)
	ck.SetPacketAcknowledgement(ctx, p.DestinationPort, p.DestinationChannel, p.Sequence, channeltypes.CommitAcknowledgement(ack))
}
