package fix

import (
	"encoding/hex"
	"fmt"
	"math/big"

	sdkmath "cosmossdk.io/math"
	sdk "github.com/cosmos/cosmos-sdk/types"
	"github.com/ethereum/go-ethereum/common"

	"github.com/functionx/fx-core/v8/contract"
	fxtypes "github.com/functionx/fx-core/v8/types"
	crosschaintypes "github.com/functionx/fx-core/v8/x/crosschain/types"
	erc20types "github.com/functionx/fx-core/v8/x/erc20/types"

	"verif/harness/chain"
)

// TokenKind enumerates the ownership kinds the properties talk about.
type TokenKind string

const (
	KindModule   TokenKind = "module-owned"   // coin is the origin, ERC-20 deployed and owned by the erc20 module
	KindFX       TokenKind = "fx"             // the native coin, bridged from the chain's own escrow
	KindExternal TokenKind = "external-owned" // ERC-20 is the origin (deployed by a user), coin minted on conversion
)

// WToken is one token of the world, possibly bridged on several chains.
type WToken struct {
	Kind   TokenKind
	Symbol string
	Base   string                    // base denom on fxcore
	ERC20  common.Address            // ERC-20 representation
	Ext    map[string]common.Address // chain -> external contract
	Denom  map[string]string         // chain -> bridge denom
}

func (t *WToken) ExtStr(chainName string) string { return ExtAddr(chainName, t.Ext[chainName]) }

// World = one chain instance + bridges + tokens.
type World struct {
	C       *chain.Chain
	Bridges map[string]*Bridge
	Order   []string
	Tokens  []*WToken
}

func NewWorld(c *chain.Chain) *World { return &World{C: c, Bridges: map[string]*Bridge{}} }

func (w *World) AddBridge(name string, stakes []sdkmath.Int) (*Bridge, error) {
	b, err := SetupBridge(w.C, name, stakes)
	if err != nil {
		return nil, err
	}
	w.Bridges[name] = b
	w.Order = append(w.Order, name)
	return b, nil
}

// ObserveHeight makes the bridge observe some event so that an external height is
// known (a precondition for batches and outgoing bridge calls): a bridge-token claim
// for a throw-away token.
func (w *World) AddModuleToken(symbol string, chains ...string) (*WToken, error) {
	t := &WToken{Kind: KindModule, Symbol: symbol, Ext: map[string]common.Address{}, Denom: map[string]string{}}
	var aliases []string
	for i, cn := range chains {
		b := w.Bridges[cn]
		ext := TokenAddr(w.C.Cfg.Seed, symbol+"-"+cn, i)
		d, err := b.AddBridgeToken(ext, symbol+" token", symbol, 18)
		if err != nil {
			return nil, err
		}
		t.Ext[cn], t.Denom[cn] = ext, d
		aliases = append(aliases, d)
	}
	pair, err := RegisterCoin(w.C, symbol+" token", symbol, 18, aliases...)
	if err != nil {
		return nil, err
	}
	t.Base, t.ERC20 = pair.Denom, common.HexToAddress(pair.Erc20Address)
	w.Tokens = append(w.Tokens, t)
	return t, nil
}

// AddFXToken bridges the native coin on the given chain.
func (w *World) AddFXToken(chainName string) (*WToken, error) {
	b := w.Bridges[chainName]
	ext := TokenAddr(w.C.Cfg.Seed, "FX-"+chainName, 0)
	d, err := b.AddBridgeToken(ext, "Function X", fxtypes.DefaultDenom, 18)
	if err != nil {
		return nil, err
	}
	pair, ok := w.C.App.Erc20Keeper.GetTokenPair(w.C.Ctx, fxtypes.DefaultDenom)
	if !ok {
		return nil, fmt.Errorf("FX pair missing")
	}
	t := &WToken{Kind: KindFX, Symbol: fxtypes.DefaultDenom, Base: fxtypes.DefaultDenom, ERC20: common.HexToAddress(pair.Erc20Address),
		Ext: map[string]common.Address{chainName: ext}, Denom: map[string]string{chainName: d}}
	w.Tokens = append(w.Tokens, t)
	return t, nil
}

// AddExternalToken deploys a FIP20 owned by `owner` (an ordinary user), mints supply to
// the owner and registers it as an externally-owned pair whose coin has bridge aliases.
func (w *World) AddExternalToken(owner chain.Key, symbol string, supply *big.Int, chains ...string) (*WToken, error) {
	c := w.C
	fip := contract.GetFIP20()
	addr, err := c.App.EvmKeeper.DeployUpgradableContract(c.Ctx, owner.Hex(), fip.Address, nil, &fip.ABI, symbol+" token", symbol, uint8(18), owner.Hex())
	if err != nil {
		return nil, fmt.Errorf("deploy external token: %w", err)
	}
	if r := c.EthTx(owner, &addr, chain.ERC20Pack("mint", owner.Hex(), supply), nil, 0); r.Failed() {
		return nil, fmt.Errorf("mint external token: %s", r.VmError())
	}
	t := &WToken{Kind: KindExternal, Symbol: symbol, ERC20: addr, Ext: map[string]common.Address{}, Denom: map[string]string{}}
	var aliases []string
	for i, cn := range chains {
		b := w.Bridges[cn]
		ext := TokenAddr(c.Cfg.Seed, symbol+"-"+cn, i)
		d, err := b.AddBridgeToken(ext, symbol+" token", symbol, 18)
		if err != nil {
			return nil, err
		}
		t.Ext[cn], t.Denom[cn] = ext, d
		aliases = append(aliases, d)
	}
	r := c.Msg(&erc20types.MsgRegisterERC20{Authority: chain.GovAuthority(), Erc20Address: addr.Hex(), Aliases: aliases})
	if !r.OK() {
		return nil, fmt.Errorf("register erc20: %s", r.ErrString())
	}
	pair, ok := c.App.Erc20Keeper.GetTokenPair(c.Ctx, addr.Hex())
	if !ok {
		return nil, fmt.Errorf("external pair missing")
	}
	t.Base = pair.Denom
	w.Tokens = append(w.Tokens, t)
	return t, nil
}

// ---- user level operations (all through the real message router / EVM) -------------

func PrecompileCrosschain() common.Address { return crosschaintypes.GetAddress() }

func PackCrosschain(method string, args ...interface{}) []byte {
	data, err := crosschaintypes.GetABI().Pack(method, args...)
	if err != nil {
		panic(fmt.Errorf("pack %s: %w", method, err))
	}
	return data
}

// ExecuteClaim calls the executeClaim precompile method from `from`.
func (b *Bridge) ExecuteClaim(from chain.Key, nonce uint64) chain.EvmResult {
	to := PrecompileCrosschain()
	return b.C.EthTx(from, &to, PackCrosschain("executeClaim", b.Name, new(big.Int).SetUint64(nonce)), nil, 5_000_000)
}

// Deposit = quorum on a SendToFx event + execution of the parked claim. target "" credits
// the bank coin, "erc20" the ERC-20.
func (b *Bridge) Deposit(executor chain.Key, t *WToken, amount sdkmath.Int, sender common.Address, receiver sdk.AccAddress, target string) (uint64, error) {
	n, h := b.NextEvent()
	if err := b.Quorum(b.SendToFxClaim(n, h, t.Ext[b.Name], amount, sender, receiver, target)); err != nil {
		return n, err
	}
	if r := b.ExecuteClaim(executor, n); r.Failed() {
		return n, fmt.Errorf("executeClaim(%d): %s", n, r.VmError())
	}
	return n, nil
}

func (b *Bridge) SendToExternal(from chain.Key, dest common.Address, amount, fee sdk.Coin) (uint64, chain.Result) {
	r := b.C.Msg(&crosschaintypes.MsgSendToExternal{Sender: from.Bech32(), Dest: ExtAddr(b.Name, dest), Amount: amount, BridgeFee: fee, ChainName: b.Name})
	if !r.OK() {
		return 0, r
	}
	var resp crosschaintypes.MsgSendToExternalResponse
	if err := b.C.Resp(r, &resp); err != nil {
		panic(err)
	}
	return resp.OutgoingTxId, r
}

func (b *Bridge) CancelSend(from chain.Key, id uint64) chain.Result {
	return b.C.Msg(&crosschaintypes.MsgCancelSendToExternal{TransactionId: id, Sender: from.Bech32(), ChainName: b.Name})
}

func (b *Bridge) IncreaseFee(from chain.Key, id uint64, add sdk.Coin) chain.Result {
	return b.C.Msg(&crosschaintypes.MsgIncreaseBridgeFee{ChainName: b.Name, TransactionId: id, Sender: from.Bech32(), AddBridgeFee: add})
}

func (b *Bridge) RequestBatch(o *Oracle, bridgeDenom string, minFee, baseFee sdkmath.Int, feeReceive common.Address) (uint64, chain.Result) {
	r := b.C.Msg(&crosschaintypes.MsgRequestBatch{Sender: o.Bridger.Bech32(), Denom: bridgeDenom, MinimumFee: minFee,
		FeeReceive: ExtAddr(b.Name, feeReceive), ChainName: b.Name, BaseFee: baseFee})
	if !r.OK() {
		return 0, r
	}
	var resp crosschaintypes.MsgRequestBatchResponse
	if err := b.C.Resp(r, &resp); err != nil {
		panic(err)
	}
	return resp.BatchNonce, r
}

func (b *Bridge) BridgeCallMsg(from chain.Key, refund sdk.AccAddress, coins sdk.Coins, to common.Address, data, memo []byte) chain.Result {
	return b.C.Msg(&crosschaintypes.MsgBridgeCall{ChainName: b.Name, Sender: from.Bech32(), Refund: refund.String(), Coins: coins,
		To: ExtAddr(b.Name, to), Data: hex.EncodeToString(data), Value: sdkmath.ZeroInt(), Memo: hex.EncodeToString(memo)})
}

// ObservedHeight is the last external height fxcore has observed.
func (b *Bridge) ObservedHeight() uint64 {
	return b.K.GetLastObservedBlockHeight(b.C.Ctx).ExternalBlockHeight
}

// Pool / batches / calls as stored.
func (b *Bridge) Pool() []*crosschaintypes.OutgoingTransferTx {
	return b.K.GetUnbatchedTransactions(b.C.Ctx)
}

func (b *Bridge) Batches() []*crosschaintypes.OutgoingTxBatch {
	return b.K.GetOutgoingTxBatches(b.C.Ctx)
}

func (b *Bridge) Calls() []*crosschaintypes.OutgoingBridgeCall {
	var out []*crosschaintypes.OutgoingBridgeCall
	b.K.IterateOutgoingBridgeCalls(b.C.Ctx, func(oc *crosschaintypes.OutgoingBridgeCall) bool {
		out = append(out, oc)
		return false
	})
	return out
}
