package fix

import (
	"math/big"
	"testing"

	sdkmath "cosmossdk.io/math"
	sdk "github.com/cosmos/cosmos-sdk/types"

	fxtypes "github.com/functionx/fx-core/v8/types"
	crosschaintypes "github.com/functionx/fx-core/v8/x/crosschain/types"

	"verif/harness/chain"
)

func TestWorld(t *testing.T) {
	c := chain.New(chain.Config{Seed: 7, NumVals: 2, NumUsers: 4, CrosschainParams: func(n string, p *crosschaintypes.Params) { p.SignedWindow = 10 }})
	w := NewWorld(c)
	st := []sdkmath.Int{chain.FX(10000), chain.FX(10000), chain.FX(20000)}
	eth, err := w.AddBridge("eth", st)
	if err != nil {
		t.Fatal(err)
	}
	bsc, err := w.AddBridge("bsc", st)
	if err != nil {
		t.Fatal(err)
	}
	_ = bsc
	c.Next()
	usdt, err := w.AddModuleToken("USDT", "eth", "bsc")
	if err != nil {
		t.Fatal(err)
	}
	fx, err := w.AddFXToken("eth")
	if err != nil {
		t.Fatal(err)
	}
	ext, err := w.AddExternalToken(c.Users[3], "XTK", big.NewInt(1_000_000), "eth")
	if err != nil {
		t.Fatal(err)
	}
	t.Logf("usdt=%+v\nfx=%+v\next=%+v", usdt, fx, ext)
	u := c.Users[0]
	if _, err := eth.Deposit(c.Users[1], usdt, sdkmath.NewInt(1000), u.Hex(), u.Acc(), ""); err != nil {
		t.Fatal(err)
	}
	if _, err := eth.Deposit(c.Users[1], usdt, sdkmath.NewInt(500), u.Hex(), u.Acc(), "erc20"); err != nil {
		t.Fatal(err)
	}
	if _, err := eth.Deposit(c.Users[1], fx, sdkmath.NewInt(777), u.Hex(), u.Acc(), ""); err != nil {
		t.Fatal(err)
	}
	t.Logf("bal usdt=%s erc20=%s supply=%s ethmod=%s", c.Balance(c.Ctx, u.Acc(), usdt.Base), c.ERC20Balance(c.Ctx, usdt.ERC20, u.Hex()), c.Supply(c.Ctx, usdt.Base), c.App.BankKeeper.GetAllBalances(c.Ctx, chain.ModuleAddr("eth")))
	id, r := eth.SendToExternal(u, c.Users[2].Hex(), sdk.NewCoin(usdt.Base, sdkmath.NewInt(300)), sdk.NewCoin(usdt.Base, sdkmath.NewInt(5)))
	t.Logf("send id=%d err=%s", id, r.ErrString())
	bn, r := eth.RequestBatch(eth.Oracles[0], usdt.Denom["eth"], sdkmath.NewInt(1), sdkmath.ZeroInt(), c.Users[2].Hex())
	t.Logf("batch=%d err=%s batches=%d", bn, r.ErrString(), len(eth.Batches()))
	eth.ConfirmAllPending(eth.Oracles)
	n, h := eth.NextEvent()
	if err := eth.Quorum(eth.SendToExternalClaim(n, h, bn, usdt.Ext["eth"])); err != nil {
		t.Fatal(err)
	}
	t.Logf("batches after=%d supply=%s", len(eth.Batches()), c.Supply(c.Ctx, usdt.Base))
	// bridge call out by msg
	r = eth.BridgeCallMsg(u, u.Acc(), sdk.NewCoins(sdk.NewCoin(usdt.Base, sdkmath.NewInt(50))), c.Users[2].Hex(), []byte{1, 2}, nil)
	t.Logf("bridgecall err=%s calls=%d", r.ErrString(), len(eth.Calls()))
	// external token: convert erc20 -> coin, send out
	r = c.Msg(&crosschaintypes.MsgSendToExternal{})
	_ = r
	own := c.Users[3]
	t.Logf("ext erc20 bal=%s", c.ERC20Balance(c.Ctx, ext.ERC20, own.Hex()))
	// FX send out
	id, r = eth.SendToExternal(u, c.Users[2].Hex(), sdk.NewCoin(fxtypes.DefaultDenom, sdkmath.NewInt(100)), sdk.NewCoin(fxtypes.DefaultDenom, sdkmath.NewInt(1)))
	t.Logf("fx send id=%d err=%s", id, r.ErrString())
	if _, err := c.Next(); err != nil {
		t.Fatal(err)
	}
	t.Logf("invariants: %v", c.Invariants(c.Ctx))
}
