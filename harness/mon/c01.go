package mon

import "verif/harness/core"

func init() {
	core.Register(&core.Prop{
		ID:    "C01",
		Level: "exploration",
		Rule: "seeded vote schedules over N oracles x competing claim variants x membership churn on a real app; " +
			"a case is non-trivial if >=3 nonces were observed and it contained competing claims or an observation while a later nonce already had votes; " +
			"distinct by (chain, N, stake kind, #observations, flags)",
		Assumptions: []string{
			"votes enter through the real MsgServiceRouter on the block's finalize-state context (and as signed txs in 1/4 of the cases); claims only via the MsgClaim wrapper, the only routable form",
			"event streams are shorter than the 100-event pruning window",
		},
		Cases:            func(seed uint64, tier string) []core.Case { return votesCases(seed, tier, "C01") },
		Run:              func(c core.Case, v bool) core.CaseResult { return runVotes(c, v, true, false) },
		MinNontrivial:    5,
		RequiredCounters: []string{"observations", "votes_accepted", "execute_ok", "run_ahead_votes"},
	})
	core.Register(&core.Prop{
		ID:    "C02",
		Level: "exploration",
		Rule: "same vote workload with stake distributions near the 66% boundary; at every observation the voter set is re-tallied independently " +
			"(distinct registered oracles, power = stake / power reduction, exact 100*P >= 66*T); non-trivial as C01; distinct by (chain, N, stake kind, #observations, flags)",
		Assumptions: []string{
			"power of an oracle = recorded delegate amount / sdk.DefaultPowerReduction as in Oracle.GetPower",
			"required signers resolved with the app codec's GetMsgV1Signers (what the ante handler uses)",
		},
		Cases:            func(seed uint64, tier string) []core.Case { return votesCases(seed, tier, "C02") },
		Run:              func(c core.Case, v bool) core.CaseResult { return runVotes(c, v, false, true) },
		MinNontrivial:    5,
		RequiredCounters: []string{"observations", "quorum_checks", "total_power_checks"},
	})
}
