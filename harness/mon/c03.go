package mon

import (
	"encoding/hex"
	"encoding/json"
	"fmt"
	"math/rand/v2"
	"strings"

	sdkmath "cosmossdk.io/math"
	sdk "github.com/cosmos/cosmos-sdk/types"
	"github.com/ethereum/go-ethereum/common"

	fxtypes "github.com/functionx/fx-core/v8/types"
	crosschaintypes "github.com/functionx/fx-core/v8/x/crosschain/types"

	"verif/harness/chain"
	"verif/harness/core"
	"verif/harness/fix"
)

// C03: two claims for one nonce are tallied together only if they agree on every field
// that influences execution.
//   part A (stateless): ClaimHash of (base, single-field variant) pairs and of re-splits of
//           adjacent free-form fields must differ;
//   part B (stateful twin): a quorum in which the threshold-crossing voter submits the
//           variant. If the variant vote makes the nonce observed, the resulting state must
//           be byte-identical to the branch in which the crossing voter submitted the
//           majority's claim (the executed effect is the one the quorum voted for).

type c03Spec struct {
	Part  string `json:"part"`
	Seed  uint64 `json:"seed"`
	Chain string `json:"chain"`
	Kind  string `json:"kind"`  // claim type
	Field string `json:"field"` // mutated field (part B)
	N     int    `json:"n"`     // pairs (part A)
	Pos   string `json:"pos"`   // part B: which voter submits the variant: cross | first
}

var c03Kinds = []string{"send_to_fx", "bridge_call", "bridge_token", "send_to_external", "oracle_set_updated", "bridge_call_result"}

// fields of each claim type that influence what is executed (the statement's list)
var c03Fields = map[string][]string{
	"send_to_fx":         {"token", "amount", "sender", "receiver", "target", "height"},
	"bridge_call":        {"token", "amount", "sender", "refund", "to", "data", "memo", "value", "tx_origin", "height", "tokens_len", "migrate_data_value", "migrate_value_memo", "migrate_decoded_payloads"},
	"bridge_token":       {"token", "name", "symbol", "decimals", "channel_ibc", "height", "resplit_name_symbol", "migrate_decimals_channel", "symbol_case", "name_case"},
	"send_to_external":   {"token", "batch_nonce", "height"},
	"oracle_set_updated": {"set_nonce", "member_power", "member_addr", "members_len", "height", "migrate_height_setnonce"},
	"bridge_call_result": {"call_nonce", "success", "cause", "tx_origin", "height"},
}

func c03Cases(seed uint64, tier string) []core.Case {
	rng := core.Rng(seed, 0xC03)
	var out []core.Case
	nA := 40000
	if tier == "thorough" {
		nA = 1500000
	}
	chains := []string{"eth", "tron", "bsc"}
	for i, k := range c03Kinds {
		for j, ch := range chains {
			out = append(out, core.MkCase(fmt.Sprintf("C03-A-%s-%s", k, ch), c03Spec{Part: "A", Seed: rng.Uint64(), Chain: ch, Kind: k, N: nA}))
			_, _ = i, j
		}
	}
	reps := 1
	if tier == "thorough" {
		reps = 6
	}
	for rep := 0; rep < reps; rep++ {
		for _, k := range c03Kinds {
			for _, f := range c03Fields[k] {
				for _, pos := range []string{"cross", "first"} {
					ch := chains[(rep+len(f))%len(chains)]
					out = append(out, core.MkCase(fmt.Sprintf("C03-B-%s-%s-%s-%d", k, f, pos, rep),
						c03Spec{Part: "B", Seed: rng.Uint64(), Chain: ch, Kind: k, Field: f, Pos: pos}))
				}
			}
		}
	}
	// part B only (kept last): the chain name carried inside the claim is not voted on as such (the vote is routed
	// by the wrapper's chain name); a voter that writes another chain of the same address format into it must
	// not change what is executed
	for rep := 0; rep < reps; rep++ {
		for _, k := range c03Kinds {
			for _, pos := range []string{"cross", "first"} {
				ch := []string{"eth", "bsc"}[(rep+len(k))%2]
				out = append(out, core.MkCase(fmt.Sprintf("C03-B-%s-inner_chain_name-%s-%d", k, pos, rep),
					c03Spec{Part: "B", Seed: rng.Uint64(), Chain: ch, Kind: k, Field: "inner_chain_name", Pos: pos}))
			}
		}
	}
	return out
}

func init() {
	core.Register(&core.Prop{
		ID:    "C03",
		Level: "exploration",
		Rule: "part A: random valid claims of all six types x single-field variants (every field the statement lists) and '/'-re-splits of adjacent free-form fields, both passing ValidateBasic, ClaimHash compared; " +
			"part B: per (claim type, field, voter position) a real quorum on a branched state where one voter submits the variant, compared byte-for-byte with the all-honest branch. " +
			"Non-trivial: a part-A batch with >=1000 valid pairs, or a part-B case in which both branches ran to an observation decision; distinct by (part, type, field, position, chain)",
		Assumptions: []string{
			"claims are built in-process (a wire-decoded MsgClaim cannot pass ValidateBasic at this commit, observation O5)",
			"part B compares full multistore dumps of two copy-on-write branches of the same block state",
		},
		Cases:            c03Cases,
		Run:              runC03,
		MinNontrivial:    20,
		RequiredCounters: []string{"hash_pairs", "partB_cases", "partB_variant_not_tallied"},
	})
}

func runC03(cs core.Case, verbose bool) core.CaseResult {
	var spec c03Spec
	res := core.CaseResult{}
	if err := json.Unmarshal(cs.Spec, &spec); err != nil {
		res.Inconclusive = err.Error()
		return res
	}
	chain.Init()
	if spec.Part == "A" {
		c03PartA(spec, &res)
	} else {
		c03PartB(spec, &res, verbose)
	}
	return res
}

// ---- claim generator -----------------------------------------------------------------

type claimGen struct {
	rng   *rand.Rand
	chain string
}

func (g *claimGen) addr() string {
	var a common.Address
	for i := range a {
		a[i] = byte(g.rng.IntN(256))
	}
	return fix.ExtAddr(g.chain, a)
}

func (g *claimGen) bech() string {
	a := make([]byte, 20)
	for i := range a {
		a[i] = byte(g.rng.IntN(256))
	}
	return sdk.AccAddress(a).String()
}

func (g *claimGen) hexs(max int) string {
	n := g.rng.IntN(max + 1)
	b := make([]byte, n)
	for i := range b {
		b[i] = byte(g.rng.IntN(256))
	}
	return hex.EncodeToString(b)
}

func (g *claimGen) free() string {
	alpha := "abAB/ x1/"
	n := 1 + g.rng.IntN(8)
	var sb strings.Builder
	for i := 0; i < n; i++ {
		sb.WriteByte(alpha[g.rng.IntN(len(alpha))])
	}
	return sb.String()
}

func (g *claimGen) amount() sdkmath.Int {
	switch g.rng.IntN(4) {
	case 0:
		return sdkmath.NewInt(int64(g.rng.IntN(3)))
	case 1:
		return sdkmath.NewIntFromUint64(g.rng.Uint64())
	default:
		return sdkmath.NewInt(int64(1 + g.rng.IntN(1_000_000)))
	}
}

func (g *claimGen) u64() uint64 {
	switch g.rng.IntN(4) {
	case 0:
		return 1 + uint64(g.rng.IntN(3))
	case 1:
		return g.rng.Uint64() | 1
	default:
		return 1 + uint64(g.rng.IntN(100000))
	}
}

func (g *claimGen) base(kind, bridger string) crosschaintypes.ExternalClaim {
	n, h := g.u64(), g.u64()
	switch kind {
	case "send_to_fx":
		t := ""
		if g.rng.IntN(2) == 0 {
			t = hex.EncodeToString([]byte([]string{"erc20", "px/transfer/channel-0", "module/evm"}[g.rng.IntN(3)]))
		}
		return &crosschaintypes.MsgSendToFxClaim{EventNonce: n, BlockHeight: h, TokenContract: g.addr(), Amount: g.amount(), Sender: g.addr(), Receiver: g.bech(), TargetIbc: t, BridgerAddress: bridger, ChainName: g.chain}
	case "bridge_call":
		k := g.rng.IntN(4)
		var toks []string
		var amts []sdkmath.Int
		for i := 0; i < k; i++ {
			toks = append(toks, g.addr())
			amts = append(amts, g.amount())
		}
		return &crosschaintypes.MsgBridgeCallClaim{ChainName: g.chain, BridgerAddress: bridger, EventNonce: n, BlockHeight: h, Sender: g.addr(), Refund: g.addr(), TokenContracts: toks, Amounts: amts,
			To: g.addr(), Data: g.hexs(40), Value: g.amount(), Memo: g.hexs(40), TxOrigin: g.addr()}
	case "bridge_token":
		return &crosschaintypes.MsgBridgeTokenClaim{EventNonce: n, BlockHeight: h, TokenContract: g.addr(), Name: g.free(), Symbol: g.free(), Decimals: uint64(g.rng.IntN(30)), BridgerAddress: bridger, ChannelIbc: g.hexs(12), ChainName: g.chain}
	case "send_to_external":
		return &crosschaintypes.MsgSendToExternalClaim{EventNonce: n, BlockHeight: h, BatchNonce: g.u64(), TokenContract: g.addr(), BridgerAddress: bridger, ChainName: g.chain}
	case "oracle_set_updated":
		k := 1 + g.rng.IntN(5)
		var ms []crosschaintypes.BridgeValidator
		for i := 0; i < k; i++ {
			ms = append(ms, crosschaintypes.BridgeValidator{Power: g.u64(), ExternalAddress: g.addr()})
		}
		return &crosschaintypes.MsgOracleSetUpdatedClaim{EventNonce: n, BlockHeight: h, OracleSetNonce: uint64(g.rng.IntN(50)), Members: ms, BridgerAddress: bridger, ChainName: g.chain}
	case "bridge_call_result":
		return &crosschaintypes.MsgBridgeCallResultClaim{ChainName: g.chain, BridgerAddress: bridger, EventNonce: n, BlockHeight: h, Nonce: g.u64(), TxOrigin: g.addr(), Success: g.rng.IntN(2) == 0, Cause: g.hexs(20)}
	}
	panic(kind)
}

func cloneClaim(c crosschaintypes.ExternalClaim) crosschaintypes.ExternalClaim {
	bz, err := c.(interface{ Marshal() ([]byte, error) }).Marshal()
	if err != nil {
		panic(err)
	}
	var out crosschaintypes.ExternalClaim
	switch c.(type) {
	case *crosschaintypes.MsgSendToFxClaim:
		out = &crosschaintypes.MsgSendToFxClaim{}
	case *crosschaintypes.MsgBridgeCallClaim:
		out = &crosschaintypes.MsgBridgeCallClaim{}
	case *crosschaintypes.MsgBridgeTokenClaim:
		out = &crosschaintypes.MsgBridgeTokenClaim{}
	case *crosschaintypes.MsgSendToExternalClaim:
		out = &crosschaintypes.MsgSendToExternalClaim{}
	case *crosschaintypes.MsgOracleSetUpdatedClaim:
		out = &crosschaintypes.MsgOracleSetUpdatedClaim{}
	case *crosschaintypes.MsgBridgeCallResultClaim:
		out = &crosschaintypes.MsgBridgeCallResultClaim{}
	}
	if err := out.(interface{ Unmarshal([]byte) error }).Unmarshal(bz); err != nil {
		panic(err)
	}
	return out
}

func differentHex(g *claimGen, old string) string {
	for {
		n := g.hexs(20)
		if n != old {
			return n
		}
	}
}

// mutate returns a copy of c differing exactly in `field` (nil when not applicable).
// migrate builds a pair of claims in which characters move across the boundary of two adjacent
// variable-length fields whose alphabets overlap (hex call data / decimal value / hex memo, two
// adjacent counters, decimals / hex channel): c is adjusted in place, the neighbour is returned.
// Both stay valid; they are told apart only by the separator between the two fields.
func (g *claimGen) migrate(c crosschaintypes.ExternalClaim, field string) crosschaintypes.ExternalClaim {
	dec := func(s string) (sdkmath.Int, bool) { return sdkmath.NewIntFromString(s) }
	switch m := c.(type) {
	case *crosschaintypes.MsgBridgeCallClaim:
		if m.Value.IsNil() || m.Value.IsNegative() {
			m.Value = sdkmath.ZeroInt()
		}
		switch field {
		case "migrate_data_value": // (D+"10", V) vs (D, "10"+V)
			m.Data += "10"
			v := cloneClaim(m).(*crosschaintypes.MsgBridgeCallClaim)
			v.Data = m.Data[:len(m.Data)-2]
			nv, ok := dec("10" + m.Value.String())
			if !ok {
				return nil
			}
			v.Value = nv
			return v
		case "migrate_decoded_payloads":
			// the same with the payload *bytes*: data "a", value 5, memo "7/b" vs data "a/5", value 7, memo "b"
			// (hex text cannot contain the separator, the decoded bytes can)
			a, b := fmt.Sprintf("%x", g.rng.Uint64()), fmt.Sprintf("%x", g.rng.Uint64())
			d1, d2 := int64(1+g.rng.IntN(9)), int64(1+g.rng.IntN(9))
			m.Data, m.Value, m.Memo = hex.EncodeToString([]byte(a)), sdkmath.NewInt(d1), hex.EncodeToString([]byte(fmt.Sprintf("%d/%s", d2, b)))
			v := cloneClaim(m).(*crosschaintypes.MsgBridgeCallClaim)
			v.Data, v.Value, v.Memo = hex.EncodeToString([]byte(fmt.Sprintf("%s/%d", a, d1))), sdkmath.NewInt(d2), hex.EncodeToString([]byte(b))
			return v
		case "migrate_value_memo": // (V+"10", M) vs (V, "10"+M)
			if !m.Value.IsPositive() {
				m.Value = sdkmath.NewInt(7)
			}
			v := cloneClaim(m).(*crosschaintypes.MsgBridgeCallClaim)
			nv, ok := dec(m.Value.String() + "10")
			if !ok {
				return nil
			}
			m.Value = nv
			v.Memo = "10" + m.Memo
			return v
		}
	case *crosschaintypes.MsgOracleSetUpdatedClaim:
		if field == "migrate_height_setnonce" { // (H, "1"+S) vs (H+"1", S)
			h, sn := 1+uint64(g.rng.IntN(1_000_000)), 1+uint64(g.rng.IntN(1_000_000))
			var a, b uint64
			fmt.Sscan("1"+fmt.Sprint(sn), &a)
			fmt.Sscan(fmt.Sprint(h)+"1", &b)
			m.BlockHeight, m.OracleSetNonce = h, a
			v := cloneClaim(m).(*crosschaintypes.MsgOracleSetUpdatedClaim)
			v.BlockHeight, v.OracleSetNonce = b, sn
			return v
		}
	case *crosschaintypes.MsgBridgeTokenClaim:
		if field == "migrate_decimals_channel" { // (1, "80"+X) vs (180, X)
			m.Decimals = 1
			m.ChannelIbc = "80" + m.ChannelIbc
			v := cloneClaim(m).(*crosschaintypes.MsgBridgeTokenClaim)
			v.Decimals, v.ChannelIbc = 180, m.ChannelIbc[2:]
			return v
		}
	}
	return nil
}

func (g *claimGen) mutate(c crosschaintypes.ExternalClaim, field string) crosschaintypes.ExternalClaim {
	if strings.HasPrefix(field, "migrate_") {
		return g.migrate(c, field)
	}
	v := cloneClaim(c)
	if field == "inner_chain_name" {
		other := map[string]string{"eth": "bsc", "bsc": "eth", "polygon": "eth"}[g.chain]
		if other == "" {
			return nil
		}
		switch m := v.(type) {
		case *crosschaintypes.MsgSendToFxClaim:
			m.ChainName = other
		case *crosschaintypes.MsgBridgeCallClaim:
			m.ChainName = other
		case *crosschaintypes.MsgBridgeTokenClaim:
			m.ChainName = other
		case *crosschaintypes.MsgSendToExternalClaim:
			m.ChainName = other
		case *crosschaintypes.MsgOracleSetUpdatedClaim:
			m.ChainName = other
		case *crosschaintypes.MsgBridgeCallResultClaim:
			m.ChainName = other
		}
		return v
	}
	// a different value of a counter: the neighbour, or the same value plus 2^8 / 2^16 / 2^32 / 2^63 (equal
	// after any narrowing conversion)
	bump := func(x uint64) uint64 {
		switch g.rng.IntN(6) {
		case 0:
			return x + 1<<8
		case 1:
			return x + 1<<16
		case 2:
			return x + 1<<32
		case 3:
			return x ^ 1<<63
		}
		if x == ^uint64(0) {
			return x - 1
		}
		return x + 1
	}
	switch m := v.(type) {
	case *crosschaintypes.MsgSendToFxClaim:
		switch field {
		case "token":
			m.TokenContract = g.addr()
		case "amount":
			m.Amount = m.Amount.AddRaw(1)
		case "sender":
			m.Sender = g.addr()
		case "receiver":
			m.Receiver = g.bech()
		case "target":
			// another target: none, the EVM, an IBC route in its two spellings, and literal strings that look like
			// the parts of a route
			spell := []string{"", "erc20", "module/evm", "ibc/0/px", "px/transfer/channel-0", "channel-0/px", "transfer/channel-0", "ibc/1/px", "px/transfer/channel-1", "channel-1/px"}
			cur := m.TargetIbc
			for tries := 0; tries < 20 && m.TargetIbc == cur; tries++ {
				m.TargetIbc = hex.EncodeToString([]byte(spell[g.rng.IntN(len(spell))]))
				if m.TargetIbc == hex.EncodeToString(nil) {
					m.TargetIbc = ""
				}
			}
			if m.TargetIbc == cur {
				return nil
			}
		case "height":
			m.BlockHeight = bump(m.BlockHeight)
		default:
			return nil
		}
	case *crosschaintypes.MsgBridgeCallClaim:
		switch field {
		case "token":
			if len(m.TokenContracts) == 0 {
				return nil
			}
			m.TokenContracts[g.rng.IntN(len(m.TokenContracts))] = g.addr()
		case "amount":
			if len(m.Amounts) == 0 {
				return nil
			}
			i := g.rng.IntN(len(m.Amounts))
			m.Amounts[i] = m.Amounts[i].AddRaw(1)
		case "tokens_len":
			m.TokenContracts = append(m.TokenContracts, g.addr())
			m.Amounts = append(m.Amounts, g.amount())
		case "sender":
			m.Sender = g.addr()
		case "refund":
			m.Refund = g.addr()
		case "to":
			m.To = g.addr()
		case "data":
			m.Data = differentHex(g, m.Data)
		case "memo":
			m.Memo = differentHex(g, m.Memo)
		case "value":
			m.Value = m.Value.AddRaw(1)
		case "tx_origin":
			m.TxOrigin = g.addr()
		case "height":
			m.BlockHeight = bump(m.BlockHeight)
		default:
			return nil
		}
	case *crosschaintypes.MsgBridgeTokenClaim:
		switch field {
		case "token":
			m.TokenContract = g.addr()
		case "name":
			m.Name = m.Name + "x"
		case "symbol":
			m.Symbol = m.Symbol + "y"
		case "decimals":
			m.Decimals = bump(m.Decimals)
		case "channel_ibc":
			m.ChannelIbc = differentHex(g, m.ChannelIbc)
		case "height":
			m.BlockHeight = bump(m.BlockHeight)
		case "symbol_case": // free-form text is case-sensitive ("fx" is not the native coin's symbol "FX")
			sw := swapCase(m.Symbol)
			if sw == m.Symbol {
				return nil
			}
			m.Symbol = sw
		case "name_case":
			sw := swapCase(m.Name)
			if sw == m.Name {
				return nil
			}
			m.Name = sw
		case "resplit_name_symbol":
			// move the boundary between the two adjacent free-form fields across a '/'
			joined := m.Name + "/" + m.Symbol
			var cuts []int
			for i := 1; i < len(joined)-1; i++ {
				if joined[i] == '/' && i != len(m.Name) {
					cuts = append(cuts, i)
				}
			}
			if len(cuts) == 0 {
				return nil
			}
			cut := cuts[g.rng.IntN(len(cuts))]
			m.Name, m.Symbol = joined[:cut], joined[cut+1:]
			if m.Name == "" || m.Symbol == "" {
				return nil
			}
		default:
			return nil
		}
	case *crosschaintypes.MsgSendToExternalClaim:
		switch field {
		case "token":
			m.TokenContract = g.addr()
		case "batch_nonce":
			m.BatchNonce = bump(m.BatchNonce)
		case "height":
			m.BlockHeight = bump(m.BlockHeight)
		default:
			return nil
		}
	case *crosschaintypes.MsgOracleSetUpdatedClaim:
		switch field {
		case "set_nonce":
			m.OracleSetNonce = bump(m.OracleSetNonce)
		case "member_power":
			i := g.rng.IntN(len(m.Members))
			m.Members[i].Power = bump(m.Members[i].Power)
		case "member_addr":
			m.Members[g.rng.IntN(len(m.Members))].ExternalAddress = g.addr()
		case "members_len":
			m.Members = append(m.Members, crosschaintypes.BridgeValidator{Power: g.u64(), ExternalAddress: g.addr()})
		case "height":
			m.BlockHeight = bump(m.BlockHeight)
		default:
			return nil
		}
	case *crosschaintypes.MsgBridgeCallResultClaim:
		switch field {
		case "call_nonce":
			m.Nonce = bump(m.Nonce)
		case "success":
			m.Success = !m.Success
		case "cause":
			m.Cause = differentHex(g, m.Cause)
		case "tx_origin":
			m.TxOrigin = g.addr()
		case "height":
			m.BlockHeight = bump(m.BlockHeight)
		default:
			return nil
		}
	}
	return v
}

func c03PartA(spec c03Spec, res *core.CaseResult) {
	g := &claimGen{rng: core.Rng(spec.Seed, 3), chain: spec.Chain}
	bridger := g.bech()
	fields := c03Fields[spec.Kind]
	valid := int64(0)
	var sample []string
	for i := 0; i < spec.N; i++ {
		base := g.base(spec.Kind, bridger)
		if base.ValidateBasic() != nil {
			continue
		}
		f := fields[i%len(fields)]
		v := g.mutate(base, f)
		if v == nil || v.ValidateBasic() != nil || base.ValidateBasic() != nil {
			continue
		}
		if strings.HasPrefix(f, "migrate_") {
			res.Count("boundary_migration_pairs", 1)
		}
		valid++
		res.Count("hash_pairs", 1)
		if string(base.ClaimHash()) == string(v.ClaimHash()) {
			res.Count("hash_collisions", 1)
			res.Violate(fmt.Sprintf("C03/hash-collision/%s/%s", spec.Kind, f),
				"two valid %s claims differing only in %q have the same ClaimHash:\n A=%s\n B=%s", spec.Kind, f, base.String(), v.String())
		}
		if len(sample) < 2 {
			sample = append(sample, fmt.Sprintf("%s vs variant[%s]: %s | %s", spec.Kind, f, base.String(), v.String()))
		}
	}
	res.Nontrivial = valid >= 1000
	res.Sig = fmt.Sprintf("A/%s/%s", spec.Kind, spec.Chain)
	res.Sample = map[string]interface{}{"spec": spec, "pairs": sample}
}

// ---- part B ---------------------------------------------------------------------------

func c03PartB(spec c03Spec, res *core.CaseResult, verbose bool) {
	res.Count("partB_cases", 1)
	c := chain.New(chain.Config{Seed: spec.Seed, NumVals: 2, NumUsers: 4})
	w := fix.NewWorld(c)
	stakes := []sdkmath.Int{chain.FX(10000), chain.FX(10000), chain.FX(10000), chain.FX(10000)}
	b, err := w.AddBridge(spec.Chain, stakes)
	if err != nil {
		res.Inconclusive = "setup: " + err.Error()
		return
	}
	if _, err := c.Next(); err != nil {
		res.Inconclusive = err.Error()
		return
	}
	user, other := c.Users[0], c.Users[1]
	tok, err := w.AddModuleToken("USDC", spec.Chain)
	if err != nil {
		res.Inconclusive = "token: " + err.Error()
		return
	}
	g := &claimGen{rng: core.Rng(spec.Seed, 4), chain: spec.Chain}

	// build the majority's claim (executable in the current state) for the next nonce
	var honest crosschaintypes.ExternalClaim
	mkNonce := func() (uint64, uint64) { return b.NextEvent() }
	switch spec.Kind {
	case "send_to_fx":
		n, h := mkNonce()
		honest = b.SendToFxClaim(n, h, tok.Ext[spec.Chain], sdkmath.NewInt(1234), user.Hex(), user.Acc(), "")("x")
	case "bridge_call":
		n, h := mkNonce()
		honest = b.BridgeCallClaim(n, h, fix.BridgeCallIn{Sender: user.Hex(), Refund: user.Hex(), To: other.Hex(), TxOrigin: user.Hex(),
			Tokens: []common.Address{tok.Ext[spec.Chain]}, Amounts: []sdkmath.Int{sdkmath.NewInt(99)}, Data: []byte{1, 2, 3}, Memo: []byte{9}})("x")
	case "bridge_token":
		n, h := mkNonce()
		name, symbol := "Wrapped/B", "C/D"
		if spec.Field == "resplit_name_symbol" {
			// the re-split neighbour of (tok/B, FX) names the native coin's symbol
			name, symbol = "tok", "B/FX"
		}
		honest = &crosschaintypes.MsgBridgeTokenClaim{EventNonce: n, BlockHeight: h, TokenContract: g.addr(), Name: name, Symbol: symbol, Decimals: 18, ChainName: spec.Chain}
	case "send_to_external":
		if _, err := b.Deposit(other, tok, sdkmath.NewInt(5000), user.Hex(), user.Acc(), ""); err != nil {
			res.Inconclusive = "deposit: " + err.Error()
			return
		}
		for i := 0; i < 2; i++ {
			if _, r := b.SendToExternal(user, other.Hex(), sdk.NewCoin(tok.Base, sdkmath.NewInt(100)), sdk.NewCoin(tok.Base, sdkmath.NewInt(int64(3+i)))); !r.OK() {
				res.Inconclusive = "send: " + r.ErrString()
				return
			}
			if _, r := b.RequestBatch(b.Oracles[0], tok.Denom[spec.Chain], sdkmath.NewInt(1), sdkmath.ZeroInt(), other.Hex()); !r.OK() {
				res.Inconclusive = "batch: " + r.ErrString()
				return
			}
			if _, err := c.Next(); err != nil {
				res.Inconclusive = err.Error()
				return
			}
		}
		n, h := mkNonce()
		honest = b.SendToExternalClaim(n, h, 1, tok.Ext[spec.Chain])("x")
	case "oracle_set_updated":
		n, h := mkNonce()
		var ms []crosschaintypes.BridgeValidator
		for _, o := range b.Oracles {
			ms = append(ms, crosschaintypes.BridgeValidator{Power: 1000, ExternalAddress: o.ExtAddr})
		}
		honest = &crosschaintypes.MsgOracleSetUpdatedClaim{EventNonce: n, BlockHeight: h, OracleSetNonce: 0, Members: ms, ChainName: spec.Chain}
	case "bridge_call_result":
		if _, err := b.Deposit(other, tok, sdkmath.NewInt(5000), user.Hex(), user.Acc(), ""); err != nil {
			res.Inconclusive = "deposit: " + err.Error()
			return
		}
		for i := 0; i < 2; i++ {
			if r := b.BridgeCallMsg(user, user.Acc(), sdk.NewCoins(sdk.NewCoin(tok.Base, sdkmath.NewInt(40))), other.Hex(), []byte{7}, nil); !r.OK() {
				res.Inconclusive = "bridge call: " + r.ErrString()
				return
			}
		}
		n, h := mkNonce()
		honest = b.BridgeCallResultClaim(n, h, 1, true, user.Hex())("x")
	}
	variant := g.mutate(honest, spec.Field)
	if spec.Kind == "bridge_token" && spec.Field == "resplit_name_symbol" {
		v := cloneClaim(honest).(*crosschaintypes.MsgBridgeTokenClaim)
		v.Name, v.Symbol = "tok/B", "FX"
		variant = v
	}
	if spec.Kind == "oracle_set_updated" && spec.Field == "member_addr" {
		// the handler only admits members that are registered external addresses
		v := cloneClaim(honest).(*crosschaintypes.MsgOracleSetUpdatedClaim)
		v.Members[0].ExternalAddress, v.Members[1].ExternalAddress = v.Members[1].ExternalAddress, v.Members[0].ExternalAddress
		variant = v
	}
	if variant == nil {
		res.Inconclusive = "no variant for " + spec.Field
		return
	}
	withBridger := func(cl crosschaintypes.ExternalClaim, bridger string) crosschaintypes.ExternalClaim {
		x := cloneClaim(cl)
		switch m := x.(type) {
		case *crosschaintypes.MsgSendToFxClaim:
			m.BridgerAddress = bridger
		case *crosschaintypes.MsgBridgeCallClaim:
			m.BridgerAddress = bridger
		case *crosschaintypes.MsgBridgeTokenClaim:
			m.BridgerAddress = bridger
		case *crosschaintypes.MsgSendToExternalClaim:
			m.BridgerAddress = bridger
		case *crosschaintypes.MsgOracleSetUpdatedClaim:
			m.BridgerAddress = bridger
		case *crosschaintypes.MsgBridgeCallResultClaim:
			m.BridgerAddress = bridger
		}
		return x
	}
	if variant.ValidateBasic() != nil && withBridger(variant, b.Oracles[0].Bridger.Bech32()).ValidateBasic() != nil {
		res.Inconclusive = "variant invalid"
		return
	}
	nonce := honest.GetEventNonce()
	// 4 equal oracles: three votes cross 66%. The hostile voter is the 3rd (crossing) or the 1st.
	hostile := 2
	if spec.Pos == "first" {
		hostile = 0
	}
	run := func(ctx sdk.Context, useVariant bool) (observed bool, errs []string) {
		for i := 0; i < 3; i++ {
			cl := honest
			if useVariant && i == hostile {
				cl = variant
			}
			o := b.Oracles[i]
			r := c.MsgOn(ctx, fix.WrapClaim(spec.Chain, o.Bridger.Bech32(), withBridger(cl, o.Bridger.Bech32())))
			if !r.OK() {
				errs = append(errs, fmt.Sprintf("vote %d: %s", i, short(r.ErrString())))
			}
		}
		observed = b.K.GetLastObservedEventNonce(ctx) == nonce
		if observed {
			// run the parked claim, where the claim type parks one
			if _, ok := b.K.GetPendingExecuteClaim(ctx, nonce); ok {
				to := fix.PrecompileCrosschain()
				er := c.EthTxOn(ctx, other, &to, fix.PackCrosschain("executeClaim", spec.Chain, sdkmath.NewIntFromUint64(nonce).BigInt()), nil, 5_000_000)
				if er.Failed() {
					errs = append(errs, "execute: "+short(er.VmError()))
				}
			}
		}
		return observed, errs
	}
	brA := c.Branch()
	brB := c.Branch()
	obsA, errA := run(brA, false)
	obsB, errB := run(brB, true)
	res.Nontrivial = obsA
	res.Sig = fmt.Sprintf("B/%s/%s/%s/%s", spec.Kind, spec.Field, spec.Pos, spec.Chain)
	res.Sample = map[string]interface{}{"spec": spec, "honest": honest.String(), "variant": variant.String(), "observed_honest": obsA, "observed_with_variant": obsB, "errs_honest": errA, "errs_variant": errB}
	if verbose {
		fmt.Printf("honest=%s\nvariant=%s\nobsA=%v obsB=%v errA=%v errB=%v\n", honest, variant, obsA, obsB, errA, errB)
	}
	if !obsA {
		res.Inconclusive = fmt.Sprintf("the all-honest branch did not observe the event: %v", errA)
		return
	}
	if !obsB {
		res.Count("partB_variant_not_tallied", 1)
		return
	}
	res.Count("partB_variant_tallied_together", 1)
	// the variant was counted towards the same attestation: the effect must be the majority's
	diff := chain.Diff(c.Dump(brA), c.Dump(brB))
	var lines []string
	for _, d := range diff {
		if isBookkeepingDiff(d) {
			continue
		}
		lines = append(lines, d.String())
	}
	if len(lines) > 0 {
		if len(lines) > 12 {
			lines = append(lines[:12], fmt.Sprintf("… %d more", len(lines)-12))
		}
		res.Violate(fmt.Sprintf("C03/variant-tallied-and-executed/%s/%s", spec.Kind, spec.Field),
			"a %s claim differing from the majority's in %q was tallied with it (voter position %s) and the resulting state differs from the all-honest outcome in %d keys:\n%s\nhonest=%s\nvariant=%s",
			spec.Kind, spec.Field, spec.Pos, len(lines), strings.Join(lines, "\n"), honest.String(), variant.String())
	}
}

// isBookkeepingDiff: differences that do not describe an executed effect: the stored
// attestation carries the first voter's claim object (its bridger address differs by
// construction), and the EVM module's transient tx bookkeeping.
func isBookkeepingDiff(d chain.DiffEntry) bool {
	if len(d.Key) > 0 && d.Key[0] == crosschaintypes.OracleAttestationKey[0] && isCrosschainStore(d.Store) {
		return true
	}
	return false
}

func isCrosschainStore(s string) bool {
	for _, n := range crosschaintypes.GetSupportChains() {
		if n == s {
			return true
		}
	}
	return false
}

var _ = fxtypes.DefaultDenom

func swapCase(s string) string {
	b := []byte(s)
	for i, c := range b {
		switch {
		case c >= 'a' && c <= 'z':
			b[i] = c - 32
		case c >= 'A' && c <= 'Z':
			b[i] = c + 32
		}
	}
	return string(b)
}
