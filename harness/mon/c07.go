package mon

import (
	"encoding/json"
	"fmt"
	"math/big"
	"math/rand/v2"
	"regexp"
	"sort"
	"strings"
	"time"

	"cosmossdk.io/collections"
	sdkmath "cosmossdk.io/math"
	sdk "github.com/cosmos/cosmos-sdk/types"
	authtypes "github.com/cosmos/cosmos-sdk/x/auth/types"
	banktypes "github.com/cosmos/cosmos-sdk/x/bank/types"
	distrtypes "github.com/cosmos/cosmos-sdk/x/distribution/types"
	govtypes "github.com/cosmos/cosmos-sdk/x/gov/types"
	govv1 "github.com/cosmos/cosmos-sdk/x/gov/types/v1"
	"github.com/ethereum/go-ethereum/common"

	fxtypes "github.com/functionx/fx-core/v8/types"
	crosschaintypes "github.com/functionx/fx-core/v8/x/crosschain/types"
	erc20types "github.com/functionx/fx-core/v8/x/erc20/types"
	fxevmtypes "github.com/functionx/fx-core/v8/x/evm/types"
	fxgovtypes "github.com/functionx/fx-core/v8/x/gov/types"

	"verif/harness/chain"
	"verif/harness/core"
	"verif/harness/fix"
)

// C07: begin/end-block never fail. The oracle is trivial (FinalizeBlock/Commit returned
// an error or panicked); the workload's job is to reach aged states: unconfirmed oracle
// sets, batches and outgoing bridge calls past the signed window, oracle-set churn,
// governance proposals of every fx message type ending in pass / fail / panic.

type c07Spec struct {
	Seed   uint64 `json:"seed"`
	Chain  string `json:"chain"`
	Window uint64 `json:"window"`
	Steps  int    `json:"steps"`
	// Confirm: who confirms pending objects: none | some | all
	Confirm string `json:"confirm"`
	N       int    `json:"n"`
	Gov     bool   `json:"gov"`
	// Tiny: the delegate threshold is lowered to 1 FX and most oracles bond less than one unit of
	// power (100 FX); the few with power are the ones that stop confirming
	Tiny bool `json:"tiny"`
}

func init() {
	core.Register(&core.Prop{
		ID:    "C07",
		Level: "exploration",
		Rule: "seeded histories that create every kind of pending object (oracle set, batch, outgoing bridge call by message / by precompile / by failed inbound call) and let the chain idle past the signed window " +
			"with none / some / all oracles confirming, plus oracle churn and governance proposals of fx message types ending in pass, fail and panic; every block is a real FinalizeBlock+Commit. " +
			"Non-trivial: the history aged at least one unconfirmed object past the window or ended a proposal; distinct by (chain, window, aged kinds, confirm pattern, proposal outcomes)",
		Assumptions: []string{
			"blocks are driven through ABCI FinalizeBlock/Commit of the real app; operations enter through the message router / EVM keeper on the finalize-state context",
			"universal over reachable states: only sampled",
		},
		Cases:            c07Cases,
		Run:              runC07,
		MinNontrivial:    8,
		RequiredCounters: []string{"blocks", "aged_oracle_sets", "aged_batches", "aged_bridge_calls", "proposals_ended", "slashed_oracles"},
	})
}

func c07Cases(seed uint64, tier string) []core.Case {
	rng := core.Rng(seed, 0xC07)
	n := 36
	if tier == "thorough" {
		n = 400
	}
	chains := []string{"eth", "bsc", "tron", "polygon", "avalanche", "arbitrum", "optimism", "layer2"}
	confirms := []string{"none", "some", "all", "some"}
	var out []core.Case
	for i := 0; i < n; i++ {
		out = append(out, core.MkCase(fmt.Sprintf("C07-%03d", i), c07Spec{
			Seed: rng.Uint64(), Chain: chains[i%len(chains)], Window: uint64(2 + rng.IntN(12)), Steps: 50 + rng.IntN(60),
			Confirm: confirms[i%len(confirms)], N: 2 + rng.IntN(5), Gov: i%2 == 0, Tiny: i%6 == 5,
		}))
	}
	return out
}

var reHex = regexp.MustCompile(`(0x)?[0-9a-fA-F]{16,}|fx1[0-9a-z]{20,}|\d+`)

var reFxFrame = regexp.MustCompile(`github\.com/functionx/fx-core/v8/([^\s(]+)`)

func normalizeErr(s string) string {
	// the innermost fx-core frame of the panic stack identifies the call site
	if m := reFxFrame.FindStringSubmatch(s); m != nil {
		return "panic@" + m[1]
	}
	line := strings.SplitN(s, "\n", 2)[0]
	line = reHex.ReplaceAllString(line, "#")
	if len(line) > 160 {
		line = line[:160]
	}
	return line
}

type c07Run struct {
	spec     c07Spec
	c        *chain.Chain
	w        *fix.World
	b        *fix.Bridge
	tok      *fix.WToken
	res      *core.CaseResult
	verb     bool
	kinds    map[string]bool
	outcomes map[string]bool
	diligent []*fix.Oracle
	// spenders: proposals whose message lets the governance account spend its own balance, which is the
	// escrow of every open proposal's deposits; escrowShort names the kinds that had passed when the
	// escrow first held less than the recorded deposits
	spenders    map[uint64]string
	escrowShort string
}

func (r *c07Run) logf(f string, a ...interface{}) {
	if r.verb {
		fmt.Printf(f+"\n", a...)
	}
}

func runC07(cs core.Case, verbose bool) core.CaseResult {
	var spec c07Spec
	res := core.CaseResult{}
	if err := json.Unmarshal(cs.Spec, &spec); err != nil {
		res.Inconclusive = err.Error()
		return res
	}
	r := &c07Run{spec: spec, res: &res, verb: verbose, kinds: map[string]bool{}, outcomes: map[string]bool{}, spenders: map[uint64]string{}}
	r.run()
	var ks, os []string
	for k := range r.kinds {
		ks = append(ks, k)
	}
	for k := range r.outcomes {
		os = append(os, k)
	}
	sort.Strings(ks)
	sort.Strings(os)
	res.Nontrivial = len(ks) > 0 || len(os) > 0
	res.Sig = fmt.Sprintf("%s/w%d/%s/%s/%s", spec.Chain, spec.Window, spec.Confirm, strings.Join(ks, "+"), strings.Join(os, "+"))
	res.Sample = map[string]interface{}{"spec": spec, "aged": ks, "proposal_outcomes": os}
	return res
}

func (r *c07Run) block(dt time.Duration) bool {
	_, err := r.c.EndBlock(dt)
	r.res.Count("blocks", 1)
	if err != nil {
		if r.escrowShort == "" && strings.Contains(err.Error(), "insufficient funds") {
			// the escrow may have become short in the failing block itself: attribute to the spending
			// proposals that had passed or were due for execution in it
			r.escrowShort = r.dueSpenders(true)
		}
		if r.escrowShort != "" && strings.Contains(err.Error(), "insufficient funds") {
			r.res.Violate("C07/block-failed/deposit-escrow-spent-by-governance/"+r.escrowShort, "FinalizeBlock/Commit failed at height %d after passed proposals (%s) spent the deposit escrow: %s", r.c.Height, r.escrowShort, err.Error())
			return false
		}
		r.res.Violate("C07/block-failed/"+normalizeErr(err.Error()), "FinalizeBlock/Commit failed at height %d: %s", r.c.Height, err.Error())
		return false
	}
	r.observeAging()
	r.observeEscrow()
	return true
}

// dueSpenders names the message types of the spending proposals that have passed (or, with pending set,
// whose voting ended by the time of the open block).
func (r *c07Run) dueSpenders(pending bool) string {
	c := r.c
	var ks []string
	seen := map[string]bool{}
	ids := make([]uint64, 0, len(r.spenders))
	for id := range r.spenders {
		ids = append(ids, id)
	}
	sort.Slice(ids, func(i, j int) bool { return ids[i] < ids[j] })
	for _, id := range ids {
		p, ok := fix.Proposal(c, id)
		if !ok || seen[r.spenders[id]] {
			continue
		}
		if p.Status == govv1.StatusPassed || (pending && p.Status == govv1.StatusVotingPeriod && p.VotingEndTime != nil && !p.VotingEndTime.After(c.Time)) {
			seen[r.spenders[id]] = true
			ks = append(ks, r.spenders[id])
		}
	}
	sort.Strings(ks)
	return strings.Join(ks, "+")
}

// observeEscrow compares the governance account's balance with the deposits recorded for open proposals.
func (r *c07Run) observeEscrow() {
	if len(r.spenders) == 0 || r.escrowShort != "" {
		return
	}
	c := r.c
	total := sdk.NewCoins()
	_ = c.App.GovKeeper.Deposits.Walk(c.Ctx, nil, func(_ collections.Pair[uint64, sdk.AccAddress], d govv1.Deposit) (bool, error) {
		total = total.Add(d.Amount...)
		return false, nil
	})
	bal := c.App.BankKeeper.GetAllBalances(c.Ctx, authtypes.NewModuleAddress(govtypes.ModuleName))
	if bal.IsAllGTE(total) {
		return
	}
	due := r.dueSpenders(false)
	if due == "" {
		return // short for a reason this monitor did not cause: leave the generic key
	}
	r.escrowShort = due
	r.res.Count("escrow_short_after/"+r.escrowShort, 1)
	r.logf("deposit escrow short: balance %s < deposits %s after %s", bal, total, r.escrowShort)
}

// observeAging counts pending objects that are older than the signed window and lack a
// confirmation of some online oracle (the states C07 is about), and slashed oracles.
func (r *c07Run) observeAging() {
	ctx := r.c.Ctx
	k := r.b.K
	h := uint64(r.c.Height)
	w := r.spec.Window
	for _, set := range k.GetOracleSets(ctx) {
		if set.Height+w < h {
			r.res.Count("aged_oracle_sets", 1)
			r.kinds["oracle_set"] = true
		}
	}
	for _, bt := range k.GetOutgoingTxBatches(ctx) {
		if bt.Block+w < h {
			r.res.Count("aged_batches", 1)
			r.kinds["batch"] = true
		}
	}
	k.IterateOutgoingBridgeCalls(ctx, func(oc *crosschaintypes.OutgoingBridgeCall) bool {
		if oc.BlockHeight+w < h {
			r.res.Count("aged_bridge_calls", 1)
			r.kinds["bridge_call"] = true
		}
		return false
	})
	for _, o := range k.GetAllOracles(ctx, false) {
		if o.SlashTimes > 0 {
			r.res.Count("slashed_oracles", 1)
		}
	}
}

func (r *c07Run) run() {
	spec := r.spec
	c := chain.New(chain.Config{Seed: spec.Seed, NumVals: 3, NumUsers: 5,
		CrosschainParams: func(name string, p *crosschaintypes.Params) {
			p.SignedWindow = spec.Window
			if spec.Tiny {
				p.DelegateThreshold = sdk.NewCoin(fxtypes.DefaultDenom, chain.FX(1))
				p.DelegateMultiple = 100_000
			}
		}})
	r.c = c
	rng := core.Rng(spec.Seed, 7)
	w := fix.NewWorld(c)
	r.w = w
	var stakes []sdkmath.Int
	for i := 0; i < spec.N; i++ {
		st := chain.FX(int64(10000 + rng.IntN(40000)))
		if spec.Tiny {
			// oracle 0..N-2: below one unit of power; the last one carries all the power
			st = chain.FX(int64(1 + rng.IntN(98)))
			if i == spec.N-1 {
				st = chain.FX(int64(100 + rng.IntN(400)))
			}
		}
		stakes = append(stakes, st)
	}
	b, err := w.AddBridge(spec.Chain, stakes)
	if err != nil {
		r.res.Inconclusive = "setup: " + err.Error()
		return
	}
	r.b = b
	if spec.Tiny {
		spec.Confirm = "some-zero-power"
		r.diligent = b.Oracles[:len(b.Oracles)-1] // only the powerless ones keep confirming
		if rng.IntN(3) == 0 {
			r.diligent = nil
		}
	}
	switch spec.Confirm {
	case "all":
		r.diligent = b.Oracles
	case "some":
		r.diligent = b.Oracles[:1+rng.IntN(len(b.Oracles))]
		if len(r.diligent) == len(b.Oracles) {
			r.diligent = b.Oracles[:len(b.Oracles)-1]
		}
	}
	if !r.block(0) {
		return
	}
	tok, err := w.AddModuleToken("USDT", spec.Chain)
	if err != nil {
		r.res.Inconclusive = "token: " + err.Error()
		return
	}
	r.tok = tok
	user, other := c.Users[0], c.Users[1]
	if _, err := b.Deposit(other, tok, sdkmath.NewInt(1_000_000), user.Hex(), user.Acc(), ""); err != nil {
		r.res.Inconclusive = "deposit: " + err.Error()
		return
	}
	// a contract that always reverts, target of failing inbound bridge calls
	reverter, err := c.Deploy(user, []byte{0x60, 0x00, 0x60, 0x00, 0xfd})
	if err != nil {
		r.res.Inconclusive = err.Error()
		return
	}
	type prop struct {
		id   uint64
		want string
	}
	var open []prop
	for step := 0; step < spec.Steps; step++ {
		switch x := rng.IntN(100); {
		case x < 10: // withdrawal + batch
			if _, res := b.SendToExternal(user, other.Hex(), sdk.NewCoin(tok.Base, sdkmath.NewInt(int64(10+rng.IntN(50)))), sdk.NewCoin(tok.Base, sdkmath.NewInt(int64(1+rng.IntN(5))))); res.OK() {
				_, rb := b.RequestBatch(b.Oracles[0], tok.Denom[spec.Chain], sdkmath.NewInt(1), sdkmath.ZeroInt(), other.Hex())
				r.logf("batch: %s", rb.ErrString())
			}
		case x < 20: // outgoing bridge call by message
			coins := sdk.NewCoins(sdk.NewCoin(tok.Base, sdkmath.NewInt(int64(5+rng.IntN(20)))))
			if step%3 == 1 {
				coins = sdk.NewCoins() // a call that carries data and no tokens
			}
			res := b.BridgeCallMsg(user, user.Acc(), coins, other.Hex(), []byte{1}, nil)
			r.logf("bridge call msg (%d tokens): %s", len(coins), res.ErrString())
			if res.OK() && len(coins) == 0 {
				r.res.Count("data_only_bridge_calls", 1)
			}
		case x < 28: // outgoing bridge call by precompile (ERC-20 tokens)
			amt := big.NewInt(int64(5 + rng.IntN(20)))
			if cr := c.Msg(&erc20types.MsgConvertCoin{Coin: sdk.NewCoin(tok.Base, sdkmath.NewIntFromBigInt(amt)), Receiver: user.Hex().Hex(), Sender: user.Bech32()}); cr.OK() {
				to := fix.PrecompileCrosschain()
				data := fix.PackCrosschain("bridgeCall", spec.Chain, user.Hex(), []common.Address{tok.ERC20}, []*big.Int{amt}, other.Hex(), []byte{}, big.NewInt(0), []byte{})
				er := c.EthTx(user, &to, data, nil, 3_000_000)
				r.logf("bridgeCall precompile: %s", er.VmError())
			}
		case x < 36: // inbound bridge call whose contract call fails -> refund bridge call
			n, h := b.NextEvent()
			in := fix.BridgeCallIn{Sender: user.Hex(), Refund: reverter, To: reverter, TxOrigin: user.Hex(), Tokens: []common.Address{tok.Ext[spec.Chain]}, Amounts: []sdkmath.Int{sdkmath.NewInt(int64(3 + rng.IntN(9)))}, Data: []byte{1}}
			if err := b.Quorum(b.BridgeCallClaim(n, h, in)); err == nil {
				er := b.ExecuteClaim(other, n)
				r.logf("inbound failing bridge call executed: %s", er.VmError())
			}
		case x < 48: // confirmations by the diligent oracles
			b.ConfirmAllPending(r.diligent)
		case x < 56: // an external event is observed (drives timeouts)
			b.ExtHeight += uint64(rng.IntN(400))
			if _, err := b.Deposit(other, tok, sdkmath.NewInt(int64(1+rng.IntN(100))), user.Hex(), user.Acc(), ""); err != nil {
				r.logf("deposit: %v", err)
			}
		case x < 64: // churn
			i := rng.IntN(len(b.Oracles))
			o := b.Oracles[i]
			rec, found := b.K.GetOracle(c.Ctx, o.Oracle.Acc())
			switch rng.IntN(4) {
			case 0:
				if found {
					slash := rec.GetSlashAmount(b.K.GetSlashFraction(c.Ctx))
					c.Msg(&crosschaintypes.MsgAddDelegate{ChainName: spec.Chain, OracleAddress: o.Oracle.Bech32(), Amount: sdk.NewCoin(fxtypes.DefaultDenom, slash.Add(c07Stake(rng)))})
				}
			case 1: // governance removes one or all oracles
				var keep []*fix.Oracle
				if rng.IntN(4) != 0 {
					for j, x := range b.Oracles {
						if j != i {
							keep = append(keep, x)
						}
					}
				}
				if len(keep) == 0 {
					keep = []*fix.Oracle{fix.NewOracle(c, spec.Chain, 90)}
				}
				leave := rng.IntN(3) != 0
				if leave && len(keep) > 1 {
					// first a fresh oracle set that still lists everybody: one of the oracles that stay adds a third
					// to its stake (a power change above the threshold), one block passes
					if rec0, ok := b.K.GetOracle(c.Ctx, keep[0].Oracle.Acc()); ok && rec0.Online {
						add := sdk.NewCoin(fxtypes.DefaultDenom, rec0.DelegateAmount.QuoRaw(3))
						fix.Fund(c, keep[0].Oracle.Acc(), add)
						c.Msg(&crosschaintypes.MsgAddDelegate{ChainName: spec.Chain, OracleAddress: keep[0].Oracle.Bech32(), Amount: add})
						if !r.block(0) {
							return
						}
					}
				}
				res := b.SetOracleList(keep)
				r.logf("gov oracle list (%d) -> %s", len(keep), res.ErrString())
				if res.OK() && leave {
					// one long block later the removed oracles' stake has matured and they leave for good, while
					// oracle sets that still list them as members wait to be checked for confirmations
					if !r.block(22 * 24 * time.Hour) {
						return
					}
					for _, x := range b.Oracles {
						if rec2, ok := b.K.GetOracle(c.Ctx, x.Oracle.Acc()); ok && !rec2.Online {
							if ur := c.Msg(&crosschaintypes.MsgUnbondedOracle{ChainName: spec.Chain, OracleAddress: x.Oracle.Bech32()}); ur.OK() {
								r.res.Count("removed_oracles_gone_before_their_sets_aged", 1)
							}
						}
					}
				}
			case 2:
				res := c.Msg(&crosschaintypes.MsgUnbondedOracle{ChainName: spec.Chain, OracleAddress: o.Oracle.Bech32()})
				r.logf("unbond -> %s", res.ErrString())
			default:
				if found && rec.Online {
					c.Msg(&crosschaintypes.MsgReDelegate{ChainName: spec.Chain, OracleAddress: o.Oracle.Bech32(), ValidatorAddress: c.Vals[rng.IntN(len(c.Vals))].Operator.Val().String()})
				}
			}
		case x < 76 && spec.Gov: // governance proposal of an fx message type
			kind := rng.IntN(10)
			msgs, want := r.proposalMsgs(kind, reverter)
			// (in every second case only: once the escrow is short the case ends at the next refund)
			spend := spec.Seed%2 == 0 && rng.IntN(6) == 0
			selfDeposit := spend && rng.IntN(3) != 0
			if spend && !selfDeposit {
				// the governance account pays a user out of its own balance
				msgs, want = []sdk.Msg{&banktypes.MsgSend{FromAddress: chain.GovAuthority(), ToAddress: c.Users[3].Bech32(), Amount: sdk.NewCoins(chain.FXCoin(int64(1 + rng.IntN(200))))}}, "gov-spend"
			}
			if selfDeposit {
				// a proposal whose message is a deposit by the governance account itself on the proposal
				// submitted right after it (same end of voting, executed later in the same block): the
				// later one then has to pay its deposits back to the governance account
				next, _ := c.App.GovKeeper.ProposalID.Peek(c.Ctx)
				msgs, want = []sdk.Msg{&govv1.MsgDeposit{ProposalId: next + 1, Depositor: chain.GovAuthority(), Amount: sdk.NewCoins(chain.FXCoin(int64(100 + rng.IntN(50))))}}, "gov-self-deposit"
			}
			params, _ := c.App.GovKeeper.Params.Get(c.Ctx)
			dep := params.MinDeposit
			if !spend && rng.IntN(4) == 0 {
				dep = sdk.NewCoins(chain.FXCoin(3000)) // stays in the deposit period and expires
				want = "dropped"
			}
			id, res := fix.Propose(c, other, msgs, dep, "p")
			r.logf("proposal %d (%s): %s", id, want, res.ErrString())
			if res.OK() && spend && !selfDeposit {
				for _, v := range c.Vals {
					fix.GovVote(c, v.Operator, id, govv1.OptionYes)
				}
				open = append(open, prop{id, want})
				r.spenders[id] = "cosmos.bank.v1beta1.MsgSend"
			}
			if res.OK() && selfDeposit {
				for _, v := range c.Vals {
					fix.GovVote(c, v.Operator, id, govv1.OptionYes)
				}
				open = append(open, prop{id, want})
				r.spenders[id] = "cosmos.gov.v1.MsgDeposit"
				// the companion it deposits on: same message type (same voting period), any voting pattern
				msgs, want = []sdk.Msg{&govv1.MsgDeposit{ProposalId: id + 2, Depositor: chain.GovAuthority(), Amount: sdk.NewCoins(chain.FXCoin(1))}}, "gov-self-deposit-target"
				id, res = fix.Propose(c, other, msgs, dep, "p")
				r.logf("proposal %d (%s): %s", id, want, res.ErrString())
			}
			if res.OK() && want != "gov-spend" {
				if want != "dropped" {
					// voting patterns: everybody yes / no / abstain / veto, a split, a single voter, nobody
					pat := rng.IntN(10)
					if want == "gov-self-deposit-target" {
						pat = []int{0, 2, 5, 6}[rng.IntN(4)]
					}
					if kind == 8 && want == "failed" {
						pat = 6 // everybody votes yes for the unacceptable rules: it is their execution that has to fail
					}
					opts := []govv1.VoteOption{govv1.OptionYes, govv1.OptionNo, govv1.OptionAbstain, govv1.OptionNoWithVeto}
					for vi, v := range c.Vals {
						opt := govv1.OptionYes
						switch pat {
						case 0:
							opt = govv1.OptionNo
						case 1:
							opt = govv1.OptionAbstain
						case 2:
							opt = govv1.OptionNoWithVeto
						case 3:
							opt = opts[rng.IntN(len(opts))]
						case 4:
							if vi > 0 {
								continue
							}
							opt = opts[rng.IntN(len(opts))]
						case 5:
							continue
						}
						fix.GovVote(c, v.Operator, id, opt)
					}
					if pat <= 5 && want != "gov-self-deposit-target" {
						want = fmt.Sprintf("vote-pattern-%d", pat)
					}
				}
				open = append(open, prop{id, want})
				if kind == 8 && want == "failed" {
					// followed at once by proposals of the two types the rules were meant for (tallied after them)
					params, _ := c.App.GovKeeper.Params.Get(c.Ctx)
					for _, k2 := range []int{0, 2} {
						m2, w2 := r.proposalMsgs(k2, reverter)
						if id2, res2 := fix.Propose(c, other, m2, params.MinDeposit, "p"); res2.OK() {
							for _, v := range c.Vals {
								fix.GovVote(c, v.Operator, id2, govv1.OptionYes)
							}
							open = append(open, prop{id2, w2})
						}
					}
				}
			}
		case x < 82: // long idle: past voting / deposit periods and the signed window
			if !r.block(time.Duration(1+rng.IntN(15)) * 24 * time.Hour) {
				return
			}
		default:
			if !r.block(0) {
				return
			}
		}
		if c.BlockErr != nil {
			return
		}
	}
	// age everything: idle past the window with whatever is left unconfirmed, then past all periods
	for i := 0; i < int(spec.Window)+3; i++ {
		if !r.block(0) {
			return
		}
	}
	if !r.block(15*24*time.Hour) || !r.block(0) {
		return
	}
	for _, p := range open {
		pr, ok := fix.Proposal(c, p.id)
		st := "deleted"
		if ok {
			st = pr.Status.String()
		}
		r.res.Count("proposals_ended", 1)
		if r.verb && strings.HasPrefix(p.want, "gov-self-deposit") {
			if sp, ok := fix.Proposal(c, p.id); ok {
				fmt.Printf("gov-self-deposit proposal %d: %s reason=%q\n", p.id, sp.Status, sp.FailedReason)
			}
		}
		r.outcomes[p.want+"="+st] = true
		r.res.Count("proposal_outcome/"+p.want+"="+strings.TrimPrefix(st, "PROPOSAL_STATUS_"), 1)
	}
}

// proposalMsgs returns messages of one fx type and the expected fate.
func (r *c07Run) proposalMsgs(k int, reverter common.Address) ([]sdk.Msg, string) {
	c := r.c
	gov := chain.GovAuthority()
	switch k {
	case 0:
		p := r.b.K.GetParams(c.Ctx)
		p.AverageBlockTime += 1
		switch c.Height % 3 {
		case 0: // the signed window grows (the slashing cursors may then lie inside the new window) ...
			p.SignedWindow = p.SignedWindow*2 + 3
		case 1: // ... or shrinks
			if p.SignedWindow > 3 {
				p.SignedWindow = p.SignedWindow/2 + 1
			}
		}
		return []sdk.Msg{&crosschaintypes.MsgUpdateParams{ChainName: r.spec.Chain, Authority: gov, Params: p}}, "passed"
	case 1: // fails: removes more than 30% of the power
		return []sdk.Msg{&crosschaintypes.MsgUpdateChainOracles{ChainName: r.spec.Chain, Authority: gov, Oracles: []string{c.Users[4].Bech32()}}}, "failed-or-passed"
	case 2:
		return []sdk.Msg{&erc20types.MsgToggleTokenConversion{Authority: gov, Token: r.tok.Base}, &erc20types.MsgToggleTokenConversion{Authority: gov, Token: r.tok.Base}}, "passed"
	case 3: // second message fails
		return []sdk.Msg{&erc20types.MsgToggleTokenConversion{Authority: gov, Token: r.tok.Base}, &erc20types.MsgToggleTokenConversion{Authority: gov, Token: "nosuchtoken"}}, "failed"
	case 4: // EVM revert
		return []sdk.Msg{&fxevmtypes.MsgCallContract{Authority: gov, ContractAddress: reverter.Hex(), Data: "01"}}, "failed"
	case 5: // handler panics: MustAccAddressFromBech32 on a malformed (but non-empty) address inside the store update
		return []sdk.Msg{&fxgovtypes.MsgUpdateStore{Authority: gov, UpdateStores: []fxgovtypes.UpdateStore{{Space: "nosuchstore", Key: "01", Value: "02"}}}}, "failed"
	case 6:
		return []sdk.Msg{&distrtypes.MsgCommunityPoolSpend{Authority: gov, Recipient: c.Users[2].Bech32(), Amount: sdk.NewCoins(chain.FXCoin(1))}}, "failed-or-passed"
	case 7:
		return []sdk.Msg{&fxgovtypes.MsgUpdateSwitchParams{Authority: gov, Params: fxgovtypes.SwitchParams{DisableMsgTypes: []string{sdk.MsgTypeURL(&banktypes.MsgMultiSend{})}}}}, "passed"
	case 8: // per-type rules that must be refused (a later proposal of that type would be tallied with them)
		bad := []string{"", "x", "-0.1", "1.5", "NaN"}[r.c.Height%5]
		cp := fxgovtypes.NewCustomParams("0.1", time.Hour, "0.2")
		url := sdk.MsgTypeURL(&crosschaintypes.MsgUpdateParams{})
		switch r.c.Height % 3 {
		case 0:
			cp.Quorum = bad
		case 1:
			cp.DepositRatio = bad
		default:
			cp.Quorum, url = bad, sdk.MsgTypeURL(&erc20types.MsgToggleTokenConversion{})
		}
		return []sdk.Msg{&fxgovtypes.MsgUpdateCustomParams{Authority: gov, MsgUrl: url, CustomParams: *cp}}, "failed"
	default:
		return []sdk.Msg{&fxgovtypes.MsgUpdateCustomParams{Authority: gov, MsgUrl: sdk.MsgTypeURL(&banktypes.MsgSend{}), CustomParams: *fxgovtypes.NewCustomParams("0.1", time.Hour, "0.2")}}, "passed"
	}
}

// c07Stake: added stake from a fraction of a token to tens of thousands: the relative power change
// of the oracle set ranges from far below to far above the refresh threshold.
func c07Stake(rng *rand.Rand) sdkmath.Int {
	switch rng.IntN(4) {
	case 0:
		return sdkmath.NewInt(int64(1 + rng.IntN(1_000_000))) // dust
	case 1:
		return chain.FX(int64(1 + rng.IntN(150)))
	default:
		return chain.FX(int64(1 + rng.IntN(20000)))
	}
}
