package mon

import (
	"encoding/json"
	"fmt"
	"math/big"
	"math/rand/v2"
	"sort"
	"strings"

	sdkmath "cosmossdk.io/math"
	storetypes "cosmossdk.io/store/types"
	sdk "github.com/cosmos/cosmos-sdk/types"
	banktypes "github.com/cosmos/cosmos-sdk/x/bank/types"
	minttypes "github.com/cosmos/cosmos-sdk/x/mint/types"
	"github.com/ethereum/go-ethereum/accounts/abi"
	"github.com/ethereum/go-ethereum/common"

	fxcontract "github.com/functionx/fx-core/v8/contract"
	fxtypes "github.com/functionx/fx-core/v8/types"
	crosschaintypes "github.com/functionx/fx-core/v8/x/crosschain/types"
	erc20types "github.com/functionx/fx-core/v8/x/erc20/types"

	"verif/harness/chain"
	"verif/harness/core"
	"verif/harness/evmasm"
	"verif/harness/fix"
)

// C08: coin <-> ERC-20 conversion conserves value and keeps the token-pair books balanced,
// also when conversions are triggered from contracts that touch the token in the same tx.

type c08Spec struct {
	Seed  uint64 `json:"seed"`
	Chain string `json:"chain"`
	Steps int    `json:"steps"`
	// Danger: random programs may put bridgeCall / executeClaim after a direct write to the same token (the known F9 path)
	Danger bool `json:"danger"`
}

func init() {
	core.Register(&core.Prop{
		ID:    "C08",
		Level: "exploration",
		Rule: "seeded histories over a module-owned pair, the native coin / WFX and an externally-owned pair: convert-coin, convert-erc20, convert-denom between several holders, register / toggle / alias updates through the governance authority, " +
			"and generated contract programs that mix direct token calls (transfer, approve, transferFrom, WFX deposit/withdraw) with precompile calls converting the same token in the same transaction (crossChain, bridgeCall, cancelSendToExternal, executeClaim), with caught failures; " +
			"after every transaction: escrow == ERC-20 total supply (module-owned; WFX contract for FX), module-held ERC-20 == coin supply over all denominations (externally-owned), sum of balances == total supply, pair / denom / contract / alias indexes == bank metadata; per conversion sender -x, receiver +x, nobody else. " +
			"Non-trivial: a history with >=5 successful conversions and >=2 successful mixed programs; distinct by (chain, #conversions, #programs, flags)",
		Assumptions: []string{
			"holders of an ERC-20 are the accounts the workload ever used plus every account in the auth store and the module accounts",
			"Ethereum transactions enter through the x/evm message server",
		},
		Cases:            c08Cases,
		Run:              runC08,
		MinNontrivial:    6,
		RequiredCounters: []string{"book_checks", "conversions_ok", "mixed_programs_ok", "index_checks", "gov_updates_ok"},
	})
}

func c08Cases(seed uint64, tier string) []core.Case {
	rng := core.Rng(seed, 0xC08)
	n := 24
	if tier == "thorough" {
		n = 300
	}
	chains := []string{"eth", "bsc", "tron"}
	var out []core.Case
	for i := 0; i < n; i++ {
		out = append(out, core.MkCase(fmt.Sprintf("C08-%03d", i), c08Spec{Seed: rng.Uint64(), Chain: chains[i%len(chains)], Steps: 40 + rng.IntN(40), Danger: i%4 == 3}))
	}
	return out
}

type c08Run struct {
	addedAliases []string // aliases governance has given the module token and not removed yet
	spec         c08Spec
	e            *fix.EvmWorld
	rng          *rand.Rand
	res          *core.CaseResult
	verb         bool
	holders      map[common.Address]string
	conv, progs  int
	parked       []uint64
	log          []string
	lastMixed    string
	broken       bool
}

func (r *c08Run) logf(f string, a ...interface{}) {
	s := fmt.Sprintf(f, a...)
	if r.verb {
		fmt.Println(s)
	}
	if len(r.log) < 40 {
		r.log = append(r.log, s)
	}
}

func runC08(cs core.Case, verbose bool) core.CaseResult {
	var spec c08Spec
	res := core.CaseResult{}
	if err := json.Unmarshal(cs.Spec, &spec); err != nil {
		res.Inconclusive = err.Error()
		return res
	}
	e, err := fix.NewEvmWorld(spec.Seed, spec.Chain, false)
	if err != nil {
		res.Inconclusive = "setup: " + err.Error()
		return res
	}
	r := &c08Run{spec: spec, e: e, rng: core.Rng(spec.Seed, 8), res: &res, verb: verbose, holders: map[common.Address]string{}}
	for _, k := range e.C.Users {
		r.holders[k.Hex()] = k.Label
	}
	for _, m := range []string{"erc20", "evm", "crosschain", spec.Chain, "bonded_tokens_pool", "distribution", "gov", "transfer", "mint", "fee_collector"} {
		r.holders[common.BytesToAddress(chain.ModuleAddr(m))] = "module:" + m
	}
	r.holders[fix.PrecompileCrosschain()] = "precompile:crosschain"
	r.holders[fix.PrecompileStaking()] = "precompile:staking"
	for _, t := range e.W.Tokens {
		r.holders[t.ERC20] = "token:" + t.Symbol
	}
	r.run()
	res.Nontrivial = r.conv >= 5 && r.progs >= 2
	res.Sig = fmt.Sprintf("%s/c%d/p%d", spec.Chain, r.conv/5, r.progs/2)
	res.Sample = map[string]interface{}{"spec": spec, "first_ops": r.log}
	return res
}

func (r *c08Run) allHolders(ctx sdk.Context) []common.Address {
	seen := map[common.Address]bool{}
	var out []common.Address
	for a := range r.holders {
		if !seen[a] {
			seen[a] = true
			out = append(out, a)
		}
	}
	r.e.C.App.AccountKeeper.IterateAccounts(ctx, func(acc sdk.AccountI) bool {
		a := common.BytesToAddress(acc.GetAddress())
		if !seen[a] {
			seen[a] = true
			out = append(out, a)
		}
		return false
	})
	sort.Slice(out, func(i, j int) bool { return out[i].Hex() < out[j].Hex() })
	return out
}

// checkBooks evaluates every invariant of the statement on ctx.
func (r *c08Run) checkBooks(what string) { r.checkBooksOn(r.e.C.Ctx, what) }

func (r *c08Run) checkBooksOn(ctx sdk.Context, what string) {
	c := r.e.C
	r.res.Count("book_checks", 1)
	erc20Mod := chain.ModuleAddr(erc20types.ModuleName)
	bad := func(inv, format string, a ...interface{}) {
		key := "C08/books/" + inv
		if r.lastMixed != "" {
			key = "C08/pending-evm-writes-lost/" + r.lastMixed + "/" + strings.SplitN(inv, "/", 2)[0]
		}
		r.broken = true
		r.res.Violate(key, what+": "+format, a...)
	}
	holders := r.allHolders(ctx)
	for _, pair := range c.App.Erc20Keeper.GetAllTokenPairs(ctx) {
		tok := pair.GetERC20Contract()
		supply := sdkmath.NewIntFromBigInt(c.ERC20Supply(ctx, tok))
		sum := sdkmath.ZeroInt()
		for _, h := range holders {
			sum = sum.Add(sdkmath.NewIntFromBigInt(c.ERC20Balance(ctx, tok, h)))
		}
		if !sum.Equal(supply) {
			bad("balances-vs-supply/"+pair.Denom, "ERC-20 %s (%s): balances of all %d known holders sum to %s, totalSupply is %s", pair.Denom, tok.Hex(), len(holders), sum, supply)
		}
		switch {
		case pair.Denom == fxtypes.DefaultDenom:
			esc := c.Balance(ctx, tok.Bytes(), fxtypes.DefaultDenom)
			if !esc.Equal(supply) {
				bad("wfx-escrow", "the wrapper contract holds %s FX, WFX totalSupply is %s", esc, supply)
			}
		case pair.IsNativeCoin():
			esc := c.Balance(ctx, erc20Mod, pair.Denom)
			if !esc.Equal(supply) {
				bad("module-owned-escrow/"+pair.Denom, "the erc20 module escrows %s %s, ERC-20 totalSupply is %s", esc, pair.Denom, supply)
			}
		case pair.IsNativeERC20():
			held := sdkmath.NewIntFromBigInt(c.ERC20Balance(ctx, tok, common.BytesToAddress(erc20Mod)))
			coins := c.Supply(ctx, pair.Denom)
			if md, ok := c.App.BankKeeper.GetDenomMetaData(ctx, pair.Denom); ok && len(md.DenomUnits) > 0 {
				for _, al := range md.DenomUnits[0].Aliases {
					coins = coins.Add(c.Supply(ctx, al))
				}
			}
			if !held.Equal(coins) {
				bad("external-owned-escrow/"+pair.Denom, "the erc20 module holds %s of ERC-20 %s, the coin supply over all denominations is %s", held, tok.Hex(), coins)
			}
		}
	}
	r.checkIndexesOn(ctx, what)
}

// checkIndexes: pair <-> by-denom <-> by-erc20 <-> alias->denom <-> bank metadata.
func (r *c08Run) checkIndexesOn(ctx sdk.Context, what string) {
	c := r.e.C
	r.res.Count("index_checks", 1)
	store := ctx.KVStore(c.App.GetKVStoreKey()[erc20types.StoreKey])
	cdc := c.App.AppCodec()
	pairs := map[string]erc20types.TokenPair{}
	it := storetypes.KVStorePrefixIterator(store, erc20types.KeyPrefixTokenPair)
	for ; it.Valid(); it.Next() {
		var p erc20types.TokenPair
		if cdc.Unmarshal(it.Value(), &p) == nil {
			pairs[string(it.Key()[1:])] = p
		}
	}
	it.Close()
	byDenom := map[string]string{}
	it = storetypes.KVStorePrefixIterator(store, erc20types.KeyPrefixTokenPairByDenom)
	for ; it.Valid(); it.Next() {
		byDenom[string(it.Key()[1:])] = string(it.Value())
	}
	it.Close()
	byERC20 := map[string]string{}
	it = storetypes.KVStorePrefixIterator(store, erc20types.KeyPrefixTokenPairByERC20)
	for ; it.Valid(); it.Next() {
		byERC20[string(it.Key()[1:])] = string(it.Value())
	}
	it.Close()
	alias := map[string]string{}
	it = storetypes.KVStorePrefixIterator(store, erc20types.KeyPrefixAliasDenom)
	for ; it.Valid(); it.Next() {
		alias[string(it.Key()[1:])] = string(it.Value())
	}
	it.Close()
	bad := func(format string, a ...interface{}) {
		r.res.Violate("C08/index-disagreement", what+": "+format, a...)
	}
	if len(byDenom) != len(pairs) || len(byERC20) != len(pairs) {
		bad("%d pairs, %d denom index entries, %d contract index entries", len(pairs), len(byDenom), len(byERC20))
	}
	for id, p := range pairs {
		if byDenom[p.Denom] != id {
			bad("pair %s/%s: denom index points to %x", p.Denom, p.Erc20Address, byDenom[p.Denom])
		}
		if byERC20[string(p.GetERC20Contract().Bytes())] != id {
			bad("pair %s/%s: contract index points to %x", p.Denom, p.Erc20Address, byERC20[string(p.GetERC20Contract().Bytes())])
		}
		md, ok := c.App.BankKeeper.GetDenomMetaData(ctx, p.Denom)
		if !ok {
			bad("pair %s has no bank metadata", p.Denom)
			continue
		}
		var mdAliases []string
		if len(md.DenomUnits) > 0 {
			mdAliases = md.DenomUnits[0].Aliases
		}
		for _, al := range mdAliases {
			if alias[al] != p.Denom {
				bad("bank metadata of %s lists alias %s, the alias index says %q", p.Denom, al, alias[al])
			}
		}
	}
	for al, d := range alias {
		// one name, one meaning: an alias of one pair is never the denomination of a pair
		if _, isDenom := byDenom[al]; isDenom {
			bad("%q is an alias of %s and at the same time the denomination of a registered pair", al, d)
		}
		if _, ok := byDenom[d]; !ok {
			bad("alias %s points to %s which is no registered pair", al, d)
			continue
		}
		md, _ := c.App.BankKeeper.GetDenomMetaData(ctx, d)
		found := false
		if len(md.DenomUnits) > 0 {
			for _, x := range md.DenomUnits[0].Aliases {
				if x == al {
					found = true
				}
			}
		}
		if !found {
			bad("alias index %s -> %s is not in the bank metadata of %s", al, d, d)
		}
	}
}

func (r *c08Run) tok() *fix.WToken { return r.e.W.Tokens[r.rng.IntN(len(r.e.W.Tokens))] }
func (r *c08Run) usr() chain.Key   { return r.e.C.Users[r.rng.IntN(4)] }

func (r *c08Run) holdingsAll(t *fix.WToken) (map[string]sdkmath.Int, map[string]sdkmath.Int) {
	c := r.e.C
	bank, erc := map[string]sdkmath.Int{}, map[string]sdkmath.Int{}
	for _, u := range c.Users {
		bank[u.Label] = c.Balance(c.Ctx, u.Acc(), t.Base)
		erc[u.Label] = sdkmath.NewIntFromBigInt(c.ERC20Balance(c.Ctx, t.ERC20, u.Hex()))
	}
	return bank, erc
}

func (r *c08Run) run() {
	e, c := r.e, r.e.C
	r.checkBooks("setup")
	r.targetedProbes()
	r.softFailProbe()
	r.aliasClashProbe()
	r.caseVariantProbe()
	r.nativeAliasProbe()
	if r.broken {
		r.broken = false
	}
	for i := 0; i < 4; i++ {
		target := ""
		if i%2 == 1 {
			target = fxtypes.ERC20Target
		}
		if n, err := e.ParkDeposit(e.USDT, sdkmath.NewInt(int64(900+i)), e.Other.Acc(), target); err == nil {
			r.parked = append(r.parked, n)
		}
	}
	for step := 0; step < r.spec.Steps && r.res.Inconclusive == ""; step++ {
		r.lastMixed = ""
		switch x := r.rng.IntN(100); {
		case x < 4:
			r.convertCoinToSpecial()
		case x < 22:
			r.convertCoin()
		case x < 44:
			r.convertERC20()
		case x < 52:
			r.convertDenom()
		case x < 60:
			r.govUpdate()
		case x < 90:
			r.mixedProgram()
		default:
			if _, err := c.Next(); err != nil {
				r.res.Inconclusive = "block failed: " + short(err.Error())
				return
			}
		}
		r.checkBooks(fmt.Sprintf("step %d", step))
		if r.broken {
			return // everything after broken books is a consequence of the first witness
		}
	}
}

func (r *c08Run) convertCoin() {
	c := r.e.C
	t, from, to := r.tok(), r.usr(), r.usr()
	bal := c.Balance(c.Ctx, from.Acc(), t.Base)
	if !bal.IsPositive() {
		return
	}
	amt := bal.QuoRaw(int64(2 + r.rng.IntN(9)))
	if t.Kind == fix.KindFX {
		amt = sdkmath.NewInt(int64(1 + r.rng.IntN(1_000_000)))
	}
	if !amt.IsPositive() {
		return
	}
	b0, e0 := r.holdingsAll(t)
	res := c.Msg(&erc20types.MsgConvertCoin{Coin: sdk.NewCoin(t.Base, amt), Receiver: to.Hex().Hex(), Sender: from.Bech32()})
	r.logf("convert-coin %s %s %s->%s: %s", t.Symbol, amt, from.Label, to.Label, short(res.ErrString()))
	b1, e1 := r.holdingsAll(t)
	r.judgeConversion("convert-coin", t, res.OK(), amt, from.Label, to.Label, b0, e0, b1, e1, true)
}

// convertCoinToSpecial: the receiver of a conversion is a module account (the erc20 module that holds the
// escrow of externally-owned pairs among them) or the token contract itself. Refused without effect, or
// credited in full; the books are checked by the caller after the step.
func (r *c08Run) convertCoinToSpecial() {
	c := r.e.C
	t, from := r.tok(), r.usr()
	bal := c.Balance(c.Ctx, from.Acc(), t.Base)
	amt := bal.QuoRaw(int64(3 + r.rng.IntN(9)))
	if t.Kind == fix.KindFX {
		amt = sdkmath.NewInt(int64(1 + r.rng.IntN(1_000_000)))
	}
	if !amt.IsPositive() {
		return
	}
	names := []string{erc20types.ModuleName, r.e.B.Name, "fee_collector", "distribution", "token-contract"}
	name := names[r.rng.IntN(len(names))]
	to := common.BytesToAddress(chain.ModuleAddr(name))
	if name == "token-contract" {
		to = t.ERC20
	}
	r.holders[to] = "special-" + name
	e0 := c.ERC20Balance(c.Ctx, t.ERC20, to)
	b0 := c.Balance(c.Ctx, from.Acc(), t.Base)
	res := c.Msg(&erc20types.MsgConvertCoin{Coin: sdk.NewCoin(t.Base, amt), Receiver: to.Hex(), Sender: from.Bech32()})
	r.logf("convert-coin %s %s %s->%s: %s", t.Symbol, amt, from.Label, name, short(res.ErrString()))
	r.res.Count("conversions_to_special_receivers", 1)
	got := new(big.Int).Sub(c.ERC20Balance(c.Ctx, t.ERC20, to), e0)
	paid := b0.Sub(c.Balance(c.Ctx, from.Acc(), t.Base))
	switch {
	case !res.OK() && (got.Sign() != 0 || !paid.IsZero()):
		r.res.Violate("C08/refused-conversion-moved-value", "convert-coin of %s %s to %s was refused but the sender paid %s and the receiver's ERC-20 balance changed by %s", amt, t.Symbol, name, paid, got)
	case res.OK() && (got.Cmp(amt.BigInt()) != 0 || !paid.Equal(amt)):
		r.res.Violate("C08/conversion-effect/special-receiver", "convert-coin of %s %s to %s (%s) was accepted: the sender paid %s, the receiver's ERC-20 balance changed by %s", amt, t.Symbol, name, to.Hex(), paid, got)
	}
}

func (r *c08Run) convertERC20() {
	c := r.e.C
	t, from, to := r.tok(), r.usr(), r.usr()
	bal := c.ERC20Balance(c.Ctx, t.ERC20, from.Hex())
	if bal.Sign() == 0 {
		return
	}
	amt := sdkmath.NewIntFromBigInt(bal).QuoRaw(int64(2 + r.rng.IntN(9)))
	if !amt.IsPositive() {
		return
	}
	b0, e0 := r.holdingsAll(t)
	res := c.Msg(&erc20types.MsgConvertERC20{ContractAddress: t.ERC20.Hex(), Amount: amt, Receiver: to.Bech32(), Sender: from.Hex().Hex()})
	r.logf("convert-erc20 %s %s %s->%s: %s", t.Symbol, amt, from.Label, to.Label, short(res.ErrString()))
	b1, e1 := r.holdingsAll(t)
	r.judgeConversion("convert-erc20", t, res.OK(), amt, from.Label, to.Label, b0, e0, b1, e1, false)
}

// judgeConversion: sender -x in one representation, receiver +x in the other, nobody else.
func (r *c08Run) judgeConversion(op string, t *fix.WToken, ok bool, amt sdkmath.Int, from, to string, b0, e0, b1, e1 map[string]sdkmath.Int, coinToERC20 bool) {
	if ok {
		r.conv++
		r.res.Count("conversions_ok", 1)
	}
	for u := range b0 {
		wantB, wantE := sdkmath.ZeroInt(), sdkmath.ZeroInt()
		if ok {
			if coinToERC20 {
				if u == from {
					wantB = amt.Neg()
				}
				if u == to {
					wantE = amt
				}
			} else {
				if u == from {
					wantE = amt.Neg()
				}
				if u == to {
					wantB = amt
				}
			}
		}
		gotB, gotE := b1[u].Sub(b0[u]), e1[u].Sub(e0[u])
		if !gotB.Equal(wantB) || !gotE.Equal(wantE) {
			r.res.Violate("C08/conversion-effect/"+op+"/"+string(t.Kind), "%s of %s %s (%s -> %s, ok=%v): %s's coin balance changed by %s (expected %s), ERC-20 balance by %s (expected %s)", op, amt, t.Symbol, from, to, ok, u, gotB, wantB, gotE, wantE)
		}
	}
}

func (r *c08Run) convertDenom() {
	c, e := r.e.C, r.e
	t := e.USDT
	from, to := r.usr(), r.usr()
	var coin sdk.Coin
	target := e.B.Name
	if r.rng.IntN(2) == 0 {
		bal := c.Balance(c.Ctx, from.Acc(), t.Base)
		if !bal.IsPositive() {
			return
		}
		coin = sdk.NewCoin(t.Base, bal.QuoRaw(7).AddRaw(1))
	} else {
		bal := c.Balance(c.Ctx, from.Acc(), t.Denom[e.B.Name])
		if !bal.IsPositive() {
			return
		}
		coin = sdk.NewCoin(t.Denom[e.B.Name], bal.QuoRaw(2).AddRaw(1))
		target = "erc20"
	}
	sup := func() sdkmath.Int { return c.Supply(c.Ctx, t.Base).Add(c.Supply(c.Ctx, t.Denom[e.B.Name])) }
	hold := func(k chain.Key) sdkmath.Int {
		return c.Balance(c.Ctx, k.Acc(), t.Base).Add(c.Balance(c.Ctx, k.Acc(), t.Denom[e.B.Name]))
	}
	h0f, h0t := hold(from), hold(to)
	_ = sup
	res := c.Msg(&erc20types.MsgConvertDenom{Sender: from.Bech32(), Receiver: to.Bech32(), Coin: coin, Target: target})
	r.logf("convert-denom %s %s->%s target=%s: %s", coin, from.Label, to.Label, target, short(res.ErrString()))
	if res.OK() {
		r.conv++
		r.res.Count("conversions_ok", 1)
		df, dt := hold(from).Sub(h0f), hold(to).Sub(h0t)
		if from.Label == to.Label {
			if !df.IsZero() {
				r.res.Violate("C08/convert-denom-effect", "convert-denom of %s to oneself changed the holder's total over both denominations by %s", coin, df)
			}
		} else if !df.Equal(coin.Amount.Neg()) || !dt.Equal(coin.Amount) {
			r.res.Violate("C08/convert-denom-effect", "convert-denom of %s: sender total changed by %s, receiver total by %s", coin, df, dt)
		}
	}
}

func (r *c08Run) govUpdate() {
	c, e := r.e.C, r.e
	gov := chain.GovAuthority()
	var res chain.Result
	var what string
	switch r.rng.IntN(5) {
	case 4:
		// remove the oldest of the aliases added earlier (not the last of the list once two are there)
		if len(r.addedAliases) == 0 {
			return
		}
		al := r.addedAliases[0]
		what = fmt.Sprintf("remove alias %s (one of %d added)", al, len(r.addedAliases))
		res = c.Msg(&erc20types.MsgUpdateDenomAlias{Authority: gov, Denom: e.USDT.Base, Alias: al})
		if res.OK() {
			r.addedAliases = r.addedAliases[1:]
			r.res.Count("aliases_removed_from_the_middle", 1)
		}
	case 0:
		t := r.tok()
		if r.rng.IntN(2) == 0 {
			for _, x := range e.W.Tokens { // (every second time the externally owned token: its coins are locked, not burned)
				if x.Kind == fix.KindExternal {
					t = x
				}
			}
		}
		what = "toggle " + t.Symbol
		res = c.Msg(&erc20types.MsgToggleTokenConversion{Authority: gov, Token: t.Base})
		if res.OK() { // and back, so that conversions keep working
			// while the switch is off a holder sends coins of the token out over the bridge: whether they are
			// locked or burned there depends on who owns the token, not on the switch (books checked in between)
			if u := r.usr(); r.rng.IntN(2) == 0 {
				if bal := c.Balance(c.Ctx, u.Acc(), t.Base); bal.GT(sdkmath.NewInt(10)) {
					amt := sdkmath.NewInt(int64(2 + r.rng.IntN(8)))
					_, sr := e.B.SendToExternal(u, e.Other.Hex(), sdk.NewCoin(t.Base, amt), sdk.NewCoin(t.Base, sdkmath.OneInt()))
					r.logf("send %s %s over the bridge while its conversion is switched off: %s", amt, t.Symbol, short(sr.ErrString()))
					r.res.Count("bridge_sends_while_conversion_is_off", 1)
					if t.Kind == fix.KindExternal {
						r.res.Count("bridge_sends_of_an_externally_owned_token_while_conversion_is_off", 1)
					}
					if sr.OK() {
						r.res.Count("bridge_sends_while_conversion_is_off_ok", 1)
					}
					r.checkBooks("bridge send of " + t.Symbol + " while its conversion is switched off")
				}
			}
			c.Msg(&erc20types.MsgToggleTokenConversion{Authority: gov, Token: t.ERC20.Hex()})
		}
	case 1:
		al := fmt.Sprintf("bsc0x%040x", r.rng.Uint64())
		if e.B.Name == "bsc" {
			al = fmt.Sprintf("polygon0x%040x", r.rng.Uint64())
		}
		what = "add alias " + al
		res = c.Msg(&erc20types.MsgUpdateDenomAlias{Authority: gov, Denom: e.USDT.Base, Alias: al})
		if res.OK() && r.rng.IntN(3) == 0 {
			c.Msg(&erc20types.MsgUpdateDenomAlias{Authority: gov, Denom: e.USDT.Base, Alias: al}) // remove again
		} else if res.OK() {
			r.addedAliases = append(r.addedAliases, al)
		}
	case 2:
		sym := fmt.Sprintf("T%d", r.rng.IntN(1_000_000))
		what = "register coin " + sym
		res = c.Msg(&erc20types.MsgRegisterCoin{Authority: gov, Metadata: fxtypes.GetCrossChainMetadataManyToOne(sym+" token", sym, 18)})
	default:
		what = "register existing denom again"
		res = c.Msg(&erc20types.MsgRegisterCoin{Authority: gov, Metadata: fxtypes.GetCrossChainMetadataManyToOne("dup", "USDT", 18)})
	}
	r.logf("gov %s: %s", what, short(res.ErrString()))
	if res.OK() {
		r.res.Count("gov_updates_ok", 1)
	}
}

// mixedProgram: a contract holding the tokens touches a token directly and lets a
// precompile convert the same token in the same transaction.
func (r *c08Run) mixedProgram() {
	e, c := r.e, r.e.C
	cn := e.B.Name
	cc := fix.PrecompileCrosschain()
	x := e.NextContractAddr(c.Ctx, e.Deployer)
	r.holders[x] = "program"
	var target [32]byte
	copy(target[:], cn)
	receipt := fix.ExtAddr(cn, e.Other.Hex())
	t := e.USDT
	if r.rng.IntN(4) == 0 {
		t = e.XTK
	}
	amt := func() *big.Int { return big.NewInt(int64(10 + r.rng.IntN(90))) }
	type st struct {
		label string
		step  evmasm.Step
		conv  string
	}
	direct := []st{
		{"transfer", evmasm.Step{Kind: evmasm.CALL, To: t.ERC20, Data: chain.ERC20Pack("transfer", e.Other.Hex(), amt())}, ""},
		{"approve", evmasm.Step{Kind: evmasm.CALL, To: t.ERC20, Data: chain.ERC20Pack("approve", cc, big.NewInt(1_000_000))}, ""},
		{"transferFrom(victim)", evmasm.Step{Kind: evmasm.CALL, To: t.ERC20, Data: chain.ERC20Pack("transferFrom", e.Victim.Hex(), x, amt())}, ""},
		{"wfx.deposit", evmasm.Step{Kind: evmasm.CALL, To: e.FX.ERC20, Value: big.NewInt(5000), Data: wfxPack("deposit")}, ""},
		{"wfx.withdraw", evmasm.Step{Kind: evmasm.CALL, To: e.FX.ERC20, Data: wfxPack("withdraw", big.NewInt(1000))}, ""},
	}
	conv := []st{
		{"crossChain", evmasm.Step{Kind: evmasm.CALL, To: cc, Data: fix.PackCrosschain("crossChain", t.ERC20, receipt, amt(), big.NewInt(2), target, "")}, "crosschain.crossChain"},
		{"bridgeCall", evmasm.Step{Kind: evmasm.CALL, To: cc, Data: fix.PackCrosschain("bridgeCall", cn, x, []common.Address{t.ERC20}, []*big.Int{amt()}, e.Other.Hex(), []byte{1}, big.NewInt(0), []byte{})}, "crosschain.bridgeCall"},
		{"crossChain(wfx by value)", evmasm.Step{Kind: evmasm.CALL, To: cc, Value: big.NewInt(1005), Data: fix.PackCrosschain("crossChain", common.Address{}, receipt, big.NewInt(1000), big.NewInt(5), target, "")}, "crosschain.crossChain"},
	}
	if len(r.parked) > 0 && r.rng.IntN(3) == 0 {
		n := r.parked[0]
		r.parked = r.parked[1:]
		conv = append(conv, st{fmt.Sprintf("executeClaim(%d)", n), evmasm.Step{Kind: evmasm.CALL, To: cc, Data: fix.PackCrosschain("executeClaim", cn, new(big.Int).SetUint64(n))}, "crosschain.executeClaim"})
	}
	var steps []evmasm.Step
	var labels []string
	var mixed string
	hasDirect := false
	n := 2 + r.rng.IntN(4)
	// approve first more often than not so that crossChain can pull
	if r.rng.IntN(3) != 0 {
		steps = append(steps, direct[1].step)
		labels = append(labels, direct[1].label)
		hasDirect = true
	}
	for i := 0; i < n; i++ {
		var s st
		if r.rng.IntN(2) == 0 {
			s = direct[r.rng.IntN(len(direct))]
			hasDirect = true
		} else {
			s = conv[r.rng.IntN(len(conv))]
			if hasDirect && !r.spec.Danger && s.conv != "crosschain.crossChain" {
				// keeper-level conversions after a pending direct write are the known finding F9 (every case
				// reports it through the targeted probes); keep most random histories on the other orders
				s = conv[0]
			}
			if hasDirect && mixed == "" {
				mixed = s.conv
			}
		}
		s.step.Gas = 900_000
		steps = append(steps, s.step)
		labels = append(labels, s.label)
	}
	prog := evmasm.Prog{Steps: steps, End: "stop"}
	addr, err := c.Deploy(e.Deployer, prog.Runtime())
	if err != nil || addr != x {
		r.res.Inconclusive = fmt.Sprintf("deploy program: %v", err)
		return
	}
	if err := e.FundContract(c.Ctx, x); err != nil {
		r.res.Inconclusive = err.Error()
		return
	}
	// the victim lets the program pull a little (plain ERC-20 allowance)
	c.EthTx(e.Victim, &t.ERC20, chain.ERC20Pack("approve", x, big.NewInt(500)), nil, 0)
	r.checkBooks("before program")
	er := c.EthTx(e.Caller, &x, nil, nil, 20_000_000)
	var kept []string
	for i := range steps {
		v := c.App.EvmKeeper.GetState(c.Ctx, x, common.BigToHash(big.NewInt(int64(i))))
		if new(big.Int).SetBytes(v.Bytes()).Int64() == 2 {
			kept = append(kept, labels[i])
		}
	}
	r.logf("program %s [%s] kept=[%s]: %s", t.Symbol, strings.Join(labels, "; "), strings.Join(kept, "; "), short(er.VmError()))
	if !er.Failed() && len(kept) >= 2 {
		r.progs++
		r.res.Count("mixed_programs_ok", 1)
	}
	// name the conversion path if the kept steps contain a direct write followed by a converting precompile call
	r.lastMixed = ""
	sawDirect := false
	set := map[string]bool{}
	for _, k := range kept {
		isConv := strings.HasPrefix(k, "crossChain") || strings.HasPrefix(k, "bridgeCall") || strings.HasPrefix(k, "executeClaim")
		if !isConv {
			sawDirect = true
		} else if sawDirect {
			set["crosschain."+strings.SplitN(k, "(", 2)[0]] = true
		}
	}
	var names []string
	for k := range set {
		names = append(names, k)
	}
	sort.Strings(names)
	if len(names) > 0 {
		r.lastMixed = strings.Join(names, "+") + "/" + string(t.Kind)
	}
}

// targetedProbes: on throw-away branches, one program per converting precompile method:
// [approve; transfer; <method>] (a pending direct write to the token, then the conversion).
func (r *c08Run) targetedProbes() {
	e, c := r.e, r.e.C
	cn := e.B.Name
	cc := fix.PrecompileCrosschain()
	var target [32]byte
	copy(target[:], cn)
	receipt := fix.ExtAddr(cn, e.Other.Hex())
	for _, t := range []*fix.WToken{e.USDT, e.XTK} {
		ctx0 := c.Branch()
		x := e.NextContractAddr(ctx0, e.Deployer)
		// a parked deposit that pays the program contract in ERC-20 form, a pool entry of the program to cancel
		type probe struct {
			name string
			step evmasm.Step
		}
		probes := []probe{
			{"crosschain.crossChain", evmasm.Step{Kind: evmasm.CALL, To: cc, Data: fix.PackCrosschain("crossChain", t.ERC20, receipt, big.NewInt(50), big.NewInt(2), target, "")}},
			{"crosschain.bridgeCall", evmasm.Step{Kind: evmasm.CALL, To: cc, Data: fix.PackCrosschain("bridgeCall", cn, x, []common.Address{t.ERC20}, []*big.Int{big.NewInt(50)}, e.Other.Hex(), []byte{1}, big.NewInt(0), []byte{})}},
		}
		for _, p := range probes {
			ctx := c.Branch()
			prog := evmasm.Prog{End: "stop", Steps: []evmasm.Step{
				{Kind: evmasm.CALL, To: t.ERC20, Data: chain.ERC20Pack("approve", cc, big.NewInt(1_000_000)), Gas: 300_000},
				{Kind: evmasm.CALL, To: t.ERC20, Data: chain.ERC20Pack("transfer", e.Other.Hex(), big.NewInt(30)), Gas: 300_000},
				func() evmasm.Step { s := p.step; s.Gas = 1_500_000; return s }(),
			}}
			er := c.EthTxOn(ctx, e.Deployer, nil, chain.InitCode(prog.Runtime()), nil, 0)
			if er.Failed() || er.Contract != x {
				continue
			}
			if err := e.FundContract(ctx, x); err != nil {
				continue
			}
			r.holders[x] = "probe-program"
			run := c.EthTxOn(ctx, e.Caller, &x, nil, nil, 10_000_000)
			v := c.App.EvmKeeper.GetState(ctx, x, common.BigToHash(big.NewInt(2)))
			kept := new(big.Int).SetBytes(v.Bytes()).Int64() == 2
			r.res.Count("targeted_probes", 1)
			if r.verb {
				fmt.Printf("probe %s %s: tx failed=%v kept=%v\n", t.Symbol, p.name, run.Failed(), kept)
			}
			if !kept {
				continue
			}
			r.res.Count("targeted_probes_kept", 1)
			r.lastMixed = p.name + "/" + string(t.Kind)
			r.checkBooksOn(ctx, "probe ["+t.Symbol+".approve; "+t.Symbol+".transfer; "+p.name+"]")
			r.lastMixed = ""
		}
	}
}

// softFailProbe: an externally-owned ERC-20 that reports a failed transfer by returning false
// (EIP-20 allows it) instead of reverting. Registered by governance, one honest conversion, then
// conversions of more than the holder owns, in both forms; the books are checked after each.
func (r *c08Run) softFailProbe() {
	e, c := r.e, r.e.C
	// (the token also exists on the external chain, so that it can be sent out through the precompile)
	var aliases []string
	if d, err := e.B.AddBridgeToken(fix.TokenAddr(c.Cfg.Seed, "soft-ext", 0), "SOFT token", "SOFT", 18); err == nil {
		aliases = []string{d}
	}
	ctx := c.Branch()
	er := c.EthTxOn(ctx, e.Deployer, nil, chain.InitCode(evmasm.SoftFailToken("SOFT")), nil, 0)
	if er.Failed() {
		return
	}
	tok := er.Contract
	mint := append([]byte{0x40, 0xc1, 0x0f, 0x19}, append(common.LeftPadBytes(e.Caller.Hex().Bytes(), 32), common.LeftPadBytes(big.NewInt(1000).Bytes(), 32)...)...)
	if er := c.EthTxOn(ctx, e.Deployer, &tok, mint, nil, 0); er.Failed() {
		return
	}
	if res := c.MsgOn(ctx, &erc20types.MsgRegisterERC20{Authority: chain.GovAuthority(), Erc20Address: tok.Hex(), Aliases: aliases}); !res.OK() {
		r.logf("soft-fail token not registrable: %s", res.ErrString())
		return
	}
	r.res.Count("soft_fail_token_probes", 1)
	steps := []struct {
		who    chain.Key
		amount int64
		honest bool
	}{{e.Caller, 400, true}, {e.Other, 300, false}, {e.Caller, 601, false}, {e.Caller, 600, true}}
	for _, st := range steps {
		res := c.MsgOn(ctx, &erc20types.MsgConvertERC20{ContractAddress: tok.Hex(), Amount: sdkmath.NewInt(st.amount), Receiver: st.who.Bech32(), Sender: st.who.Hex().Hex()})
		what := fmt.Sprintf("convert-erc20 of %d of a token that returns false on failure by %s (covered by its balance: %v) -> ok=%v %s", st.amount, st.who.Label, st.honest, res.OK(), short(res.ErrString()))
		r.logf(what)
		if st.honest != res.OK() {
			r.res.Violate("C08/soft-failing-token/conversion-outcome", "%s", what)
		}
		r.checkBooksOn(ctx, what)
	}
	// sending it out through the precompile: the token's transferFrom answers false (it implements none), so
	// nobody has paid and the call has to fail
	if len(aliases) > 0 {
		pc := fix.PrecompileCrosschain()
		var target [32]byte
		copy(target[:], e.B.Name)
		for _, who := range []chain.Key{e.Other, e.Caller} {
			er := c.EthTxOn(ctx, who, &pc, fix.PackCrosschain("crossChain", tok, fix.ExtAddr(e.B.Name, e.Other.Hex()), big.NewInt(300), big.NewInt(1), target, ""), nil, 3_000_000)
			what := fmt.Sprintf("crossChain of 301 of a token whose transferFrom returns false, by %s -> failed=%v %s", who.Label, er.Failed(), short(er.VmError()))
			r.logf(what)
			r.res.Count("soft_fail_crosschain_calls", 1)
			if !er.Failed() {
				r.res.Violate("C08/soft-failing-token/crosschain-accepted", "%s", what)
			}
			r.checkBooksOn(ctx, what)
		}
	}
}

// aliasClashProbe: governance gives a pair a lower-case alias, then somebody asks to register an
// ERC-20 whose symbol differs from that alias only by case (the denomination of a registered
// ERC-20 is its lower-cased symbol). The indexes must keep describing one set of pairs.
func (r *c08Run) aliasClashProbe() {
	e, c := r.e, r.e.C
	ctx := c.Branch()
	alias := "wxyz"
	if res := c.MsgOn(ctx, &erc20types.MsgUpdateDenomAlias{Authority: chain.GovAuthority(), Denom: e.USDT.Base, Alias: alias}); !res.OK() {
		r.logf("alias probe: %s", res.ErrString())
		return
	}
	r.checkIndexesOn(ctx, "alias "+alias+" added to "+e.USDT.Base)
	for _, sym := range []string{"WXYZ", "wxyz", "Wxyz"} {
		b, _ := ctx.CacheContext()
		er := c.EthTxOn(b, e.Deployer, nil, chain.InitCode(evmasm.SoftFailToken(sym)), nil, 0)
		if er.Failed() {
			continue
		}
		res := c.MsgOn(b, &erc20types.MsgRegisterERC20{Authority: chain.GovAuthority(), Erc20Address: er.Contract.Hex()})
		r.res.Count("alias_clash_probes", 1)
		what := fmt.Sprintf("register ERC-20 with symbol %q while %q is an alias of %s -> ok=%v %s", sym, alias, e.USDT.Base, res.OK(), short(res.ErrString()))
		r.logf(what)
		r.checkIndexesOn(b, what)
	}
}

// caseVariantProbe: governance registers a module-owned coin whose denomination differs from the
// native coin's only by letter case; it is an ordinary module-owned pair (escrow in the module, not
// in the wrapper contract) and converts both ways like one.
func (r *c08Run) caseVariantProbe() {
	e, c := r.e, r.e.C
	base := []string{"fx", "Fx", "fX"}[int(c.Cfg.Seed%3)]
	if base == fxtypes.DefaultDenom {
		return
	}
	ctx := c.Branch()
	md := banktypes.Metadata{
		Description: "case variant of the native denomination",
		DenomUnits:  []*banktypes.DenomUnit{{Denom: base, Exponent: 0}, {Denom: "LFX", Exponent: 18}},
		Base:        base, Display: "LFX", Name: "Little FX", Symbol: "LFX",
	}
	if res := c.MsgOn(ctx, &erc20types.MsgRegisterCoin{Authority: chain.GovAuthority(), Metadata: md}); !res.OK() {
		r.logf("case-variant coin %q not registrable: %s", base, res.ErrString())
		r.res.Count("case_variant_coin_refused", 1)
		return
	}
	pair, ok := c.App.Erc20Keeper.GetTokenPair(ctx, base)
	if !ok {
		return
	}
	coins := sdk.NewCoins(sdk.NewCoin(base, sdkmath.NewInt(1_000_000)))
	if err := c.App.BankKeeper.MintCoins(ctx, minttypes.ModuleName, coins); err != nil {
		return
	}
	if err := c.App.BankKeeper.SendCoinsFromModuleToAccount(ctx, minttypes.ModuleName, e.Caller.Acc(), coins); err != nil {
		return
	}
	r.res.Count("case_variant_coin_probes", 1)
	for _, st := range []struct {
		toERC20 bool
		amount  int64
	}{{true, 600_000}, {false, 250_000}, {true, 400_000}, {false, 750_000}} {
		var res chain.Result
		if st.toERC20 {
			res = c.MsgOn(ctx, &erc20types.MsgConvertCoin{Coin: sdk.NewCoin(base, sdkmath.NewInt(st.amount)), Receiver: e.Caller.Hex().Hex(), Sender: e.Caller.Bech32()})
		} else {
			res = c.MsgOn(ctx, &erc20types.MsgConvertERC20{ContractAddress: pair.Erc20Address, Amount: sdkmath.NewInt(st.amount), Receiver: e.Caller.Bech32(), Sender: e.Caller.Hex().Hex()})
		}
		what := fmt.Sprintf("conversion (to ERC-20: %v) of %d of module-owned coin %q -> ok=%v %s", st.toERC20, st.amount, base, res.OK(), short(res.ErrString()))
		r.logf(what)
		if !res.OK() {
			r.res.Violate("C08/case-variant-coin/conversion-refused", "%s", what)
		}
		r.checkBooksOn(ctx, what)
	}
	if got := c.Balance(ctx, e.Caller.Acc(), base); !got.Equal(sdkmath.NewInt(1_000_000)) {
		r.res.Violate("C08/case-variant-coin/round-trip", "after converting 1000000 %s to the ERC-20 and all of it back the holder owns %s", base, got)
	}
}

// nativeAliasProbe: governance gives the native coin a bridge alias; one user locks FX for alias coins while
// another wraps and unwraps WFX. The wrapper's escrow backs the WFX, the FX locked in the erc20 module backs
// the alias coins, and neither is paid out of the other.
func (r *c08Run) nativeAliasProbe() {
	e, c := r.e, r.e.C
	ctx := c.Branch()
	alias := crosschaintypes.NewBridgeDenom(e.B.Name, fix.ExtAddr(e.B.Name, fix.TokenAddr(c.Cfg.Seed, "fx-alias", 0)))
	if res := c.MsgOn(ctx, &erc20types.MsgUpdateDenomAlias{Authority: chain.GovAuthority(), Denom: fxtypes.DefaultDenom, Alias: alias}); !res.OK() {
		r.logf("native alias probe: %s", res.ErrString())
		r.res.Count("native_alias_refused", 1)
		return
	}
	pair, ok := c.App.Erc20Keeper.GetTokenPair(ctx, fxtypes.DefaultDenom)
	if !ok {
		return
	}
	r.res.Count("native_alias_probes", 1)
	mod := chain.ModuleAddr(erc20types.ModuleName)
	locked0 := c.Balance(ctx, mod, fxtypes.DefaultDenom)
	a, b := e.Caller, e.Other
	fxc := func(n int64) sdk.Coin { return sdk.NewCoin(fxtypes.DefaultDenom, sdkmath.NewInt(n)) }
	steps := []struct {
		what string
		msg  sdk.Msg
	}{
		{"wrap 5000", &erc20types.MsgConvertCoin{Coin: fxc(5000), Receiver: b.Hex().Hex(), Sender: b.Bech32()}},
		{"lock 3000 for alias coins", &erc20types.MsgConvertDenom{Sender: a.Bech32(), Receiver: a.Bech32(), Coin: fxc(3000), Target: e.B.Name}},
		{"unwrap 2000", &erc20types.MsgConvertERC20{ContractAddress: pair.Erc20Address, Amount: sdkmath.NewInt(2000), Receiver: b.Bech32(), Sender: b.Hex().Hex()}},
		{"redeem 1000 alias coins", &erc20types.MsgConvertDenom{Sender: a.Bech32(), Receiver: a.Bech32(), Coin: sdk.NewCoin(alias, sdkmath.NewInt(1000)), Target: ""}},
		{"unwrap 3000", &erc20types.MsgConvertERC20{ContractAddress: pair.Erc20Address, Amount: sdkmath.NewInt(3000), Receiver: b.Bech32(), Sender: b.Hex().Hex()}},
		{"redeem 2000 alias coins", &erc20types.MsgConvertDenom{Sender: a.Bech32(), Receiver: a.Bech32(), Coin: sdk.NewCoin(alias, sdkmath.NewInt(2000)), Target: ""}},
	}
	for _, st := range steps {
		res := c.MsgOn(ctx, st.msg)
		what := fmt.Sprintf("native coin with alias: %s -> ok=%v %s", st.what, res.OK(), short(res.ErrString()))
		r.logf(what)
		if !res.OK() {
			r.res.Violate("C08/native-alias/conversion-refused", "%s", what)
		}
		r.checkBooksOn(ctx, what)
		if locked, sup := c.Balance(ctx, mod, fxtypes.DefaultDenom).Sub(locked0), c.Supply(ctx, alias); !locked.Equal(sup) {
			r.res.Violate("C08/native-alias/alias-backing", "%s: the erc20 module locks %s FX for alias coins, the alias supply is %s", what, locked, sup)
		}
	}
}

var wfxABI = fxWFXABI()

func wfxPack(method string, args ...interface{}) []byte {
	d, err := wfxABI.Pack(method, args...)
	if err != nil {
		panic(err)
	}
	return d
}

func fxWFXABI() abi.ABI { return fxcontract.GetWFX().ABI }
