package mon

import (
	"bytes"
	"encoding/json"
	"fmt"
	"math/big"
	"math/rand/v2"
	"sort"
	"strings"

	sdkmath "cosmossdk.io/math"
	sdk "github.com/cosmos/cosmos-sdk/types"
	"github.com/ethereum/go-ethereum/common"
	ethcrypto "github.com/ethereum/go-ethereum/crypto"
	evmtypes "github.com/evmos/ethermint/x/evm/types"

	fxtypes "github.com/functionx/fx-core/v8/types"

	erc20types "github.com/functionx/fx-core/v8/x/erc20/types"
	fxstakingtypes "github.com/functionx/fx-core/v8/x/staking/types"
	"verif/harness/chain"
	"verif/harness/core"
	"verif/harness/evmasm"
	"verif/harness/fix"
)

// C09: a precompile call is all-or-nothing across Cosmos state and EVM state.
//
// Differential twin oracle. A generated program P (contract X, calling sub-programs Y_k)
// records per step whether the EVM kept the call frame. Twin B runs P' = P with every
// discarded call (failed, caught, inside a reverted frame, cut by gas) and every revert
// removed, deployed at the same addresses. All state outside the program contracts' own
// code and storage must be equal in A and B, and so must the precompile logs.

type c09Spec struct {
	Seed  uint64 `json:"seed"`
	Chain string `json:"chain"`
	Sweep int    `json:"sweep"` // gas limits tried per program
}

func init() {
	core.Register(&core.Prop{
		ID:    "C09",
		Level: "fault_enumeration",
		Rule: "generated call trees over every state-changing precompile method (staking: delegateV2, undelegateV2, redelegateV2, withdraw, approveShares, transferShares, transferFromShares; crosschain: crossChain, bridgeCall, cancelSendToExternal, increaseBridgeFee, executeClaim) " +
			"mixed with token calls, with caught and uncaught failures, sub-programs that revert after their calls, programs ending in stop / revert / invalid / out-of-gas loop; each program is run at ample gas and at gas limits sampled from below the intrinsic cost up to the ample-gas consumption (dense near the top), " +
			"each execution is compared with its twin (discarded calls removed) by full multistore diff and precompile-log equality. Non-trivial: an execution in which at least one precompile call was discarded after it had started and at least one was kept; distinct by (program shape, gas limit class, kept set)",
		Assumptions: []string{
			"Ethereum transactions enter through the x/evm message server on branches of one block state; programs are raw bytecode (no compiler in the image)",
			"allowed differences between twins: code, code hash and storage of the generated program contracts themselves, the EVM module's per-transaction gas/bloom bookkeeping",
		},
		Cases:            c09Cases,
		Run:              runC09,
		MinNontrivial:    10,
		RequiredCounters: []string{"executions", "twin_comparisons", "precompile_calls_kept", "precompile_calls_discarded", "gas_limited_executions", "whole_tx_failures"},
	})
}

func c09Cases(seed uint64, tier string) []core.Case {
	rng := core.Rng(seed, 0xC09)
	n, sweep := 28, 10
	if tier == "thorough" {
		n, sweep = 300, 40
	}
	chains := []string{"eth", "bsc", "tron"}
	var out []core.Case
	for i := 0; i < n; i++ {
		out = append(out, core.MkCase(fmt.Sprintf("C09-%03d", i), c09Spec{Seed: rng.Uint64(), Chain: chains[i%len(chains)], Sweep: sweep}))
	}
	return out
}

// pstep is one generated step: a call of contract `Who` (index into contracts: 0 = X).
type pstep struct {
	Label      string
	To         func(addrs []common.Address) common.Address
	Data       func(addrs []common.Address) []byte
	Value      *big.Int
	Precompile bool
	Sub        int // >0: a call to sub-program contract index Sub (payload ignored)
	Gas        uint64
	Bubble     bool
	// Impossible: the operation cannot be carried out in any state of this fixture (more than exists). Such a
	// call is removed from the twin even when it does not revert: reporting the failure through the return
	// value is no licence to leave effects behind.
	Impossible bool
}

type pcontract struct {
	Steps []pstep
	End   string
}

type c09Run struct {
	spec   c09Spec
	e      *fix.EvmWorld
	rng    *rand.Rand
	res    *core.CaseResult
	verb   bool
	nextID uint64
	parked []uint64
	orphan uint64 // event nonce of a parked bridge-call result whose call does not exist
	wrap   bool
}

func runC09(cs core.Case, verbose bool) core.CaseResult {
	var spec c09Spec
	res := core.CaseResult{}
	if err := json.Unmarshal(cs.Spec, &spec); err != nil {
		res.Inconclusive = err.Error()
		return res
	}
	e, err := fix.NewEvmWorld(spec.Seed, spec.Chain, false)
	if err != nil {
		res.Inconclusive = "setup: " + err.Error()
		return res
	}
	r := &c09Run{spec: spec, e: e, rng: core.Rng(spec.Seed, 9), res: &res, verb: verbose}
	// parked claims the programs may execute
	for i := 0; i < 3; i++ {
		target := ""
		if i%2 == 1 {
			target = fxtypes.ERC20Target
		}
		n, err := e.ParkDeposit(e.USDT, sdkmath.NewInt(int64(4000+i)), e.Other.Acc(), target)
		if err != nil {
			res.Inconclusive = "park: " + err.Error()
			return res
		}
		r.parked = append(r.parked, n)
	}
	// a result event whose bridge call is not stored (reported for a nonce nobody has): observed and parked like
	// any other; executing it makes the handler panic after it has consumed the parked claim
	{
		n, h := e.B.NextEvent()
		if err := e.B.Quorum(e.B.BridgeCallResultClaim(n, h, 7_000_000, true, e.Other.Hex())); err == nil {
			r.orphan = n
			res.Count("orphan_results_parked", 1)
		}
	}
	r.nextID = uint64(len(e.VictimTxIDs)) + 1
	progs := 3
	var samples []interface{}
	for p := 0; p < progs; p++ {
		cons := r.genProgram()
		s := r.runProgram(cons, p)
		if s != nil && len(samples) < 2 {
			samples = append(samples, s)
		}
	}
	// systematic part: every precompile step of the library, made to succeed inside a sub-program whose
	// frame is thrown away afterwards (REVERT / INVALID at the end of the sub-program, caught by the
	// caller), and inside a top-level program that reverts as a whole
	lib := r.lib(1)
	for k, st := range lib {
		if !st.Precompile || res.Inconclusive != "" {
			continue
		}
		st.Gas = 1_500_000
		end := []string{"revert", "invalid"}[k%2]
		// with and without earlier native actions in the discarded frame (an earlier snapshot restored
		// last can hide what a later one leaves behind)
		for pi, pre := range [][]pstep{{lib[0], lib[10]}, {lib[10]}, {}} {
			pre = append([]pstep{}, pre...)
			for i := range pre {
				pre[i].Gas = 900_000
			}
			sub := pcontract{Steps: append(pre, st), End: end}
			top := pcontract{Steps: []pstep{{Label: "call sub1", Sub: 1}}, End: "stop"}
			r.runAmple([]pcontract{top, sub}, fmt.Sprintf("discarded-sub/pre%d/%s", pi, st.Label))
		}
		if k%3 == 0 {
			lib0 := r.lib(0)
			whole := pcontract{Steps: append(append([]pstep{}, lib0[0], lib0[10]), lib0[k]), End: "revert"}
			for i := range whole.Steps {
				whole.Steps[i].Gas = 1_500_000
			}
			r.runAmple([]pcontract{whole}, "reverted-top/"+st.Label)
		}
	}
	r.directCalls()
	res.Sample = map[string]interface{}{"spec": spec, "programs": samples}
	return res
}

// directCalls: every precompile step of the library sent by an externally-owned account straight to the
// precompile, as the outermost call of a transaction (no contract, no catcher). A transaction that fails leaves
// nothing but the sender's sequence behind.
func (r *c09Run) directCalls() {
	e, c := r.e, r.e.C
	lib := r.lib(0)
	cc := fix.PrecompileCrosschain()
	addrs := make([]common.Address, 8)
	for i := range addrs {
		addrs[i] = e.Caller.Hex()
	}
	for _, st := range lib {
		if !st.Precompile || r.res.Inconclusive != "" {
			continue
		}
		ctx := c.Branch()
		// the sender owns the token as ERC-20 and has approved the precompile for it
		c.MsgOn(ctx, &erc20types.MsgConvertCoin{Coin: sdk.NewCoin(e.USDT.Base, sdkmath.NewInt(5_000)), Receiver: e.Caller.Hex().Hex(), Sender: e.Caller.Bech32()})
		c.EthTxOn(ctx, e.Caller, &e.USDT.ERC20, chain.ERC20Pack("approve", cc, big.NewInt(1_000_000)), nil, 0)
		before := c.Dump(ctx)
		to := st.To(addrs)
		er := c.EthTxOn(ctx, e.Caller, &to, st.Data(addrs), st.Value, 3_000_000)
		r.res.Count("direct_calls", 1)
		if r.verb {
			fmt.Printf("DIRECT %s: failed=%v %s\n", st.Label, er.Failed(), short(er.VmError()))
		}
		if !er.Failed() {
			continue
		}
		r.res.Count("direct_calls_failed", 1)
		skip := map[string]bool{string(e.Caller.Hex().Bytes()): true}
		var lines []string
		for _, d := range chain.Diff(before, c.Dump(ctx)) {
			if c09Allowed(d, skip) {
				continue
			}
			lines = append(lines, d.String())
		}
		if len(lines) > 0 {
			l := st.Label
			if k := strings.IndexByte(l, '('); k > 0 {
				l = l[:k]
			}
			if len(lines) > 8 {
				lines = append(lines[:8], fmt.Sprintf("… %d more", len(lines)-8))
			}
			r.res.Violate("C09/partial-effects/"+l+"/direct-call", "%s sent by an externally-owned account directly to the precompile fails (%s) and leaves:\n%s", st.Label, short(er.VmError()), strings.Join(lines, "\n"))
		}
	}
}

// runAmple executes one program once with ample gas (plain and inside the catching wrapper) and compares it with its twin.
func (r *c09Run) runAmple(cons []pcontract, what string) {
	for _, wrap := range []bool{false, true} {
		r.wrap = wrap
		a, err := r.execute(cons, nil, false, 25_000_000, false)
		r.wrap = false
		if err != nil {
			r.res.Inconclusive = err.Error()
			return
		}
		r.res.Count("systematic_discard_executions", 1)
		if r.verb {
			fmt.Printf("SYSTEMATIC %s wrap=%v: tx ok=%v vm=%q slots=%v innerOK=%v\n", what, wrap, a.res.OK() && a.res.Rsp != nil && !a.res.Rsp.Failed(), a.res.VmError(), a.slots, a.innerOK)
		}
		r.compare(cons, a, 25_000_000, what, "systematic")
	}
}

// ---- step library ----------------------------------------------------------------------

func (r *c09Run) lib(self int) []pstep {
	e := r.e
	cn := e.B.Name
	st, cc := fix.PrecompileStaking(), fix.PrecompileCrosschain()
	v0, v1 := e.Vals[0].String(), e.Vals[1].String()
	cst := func(a common.Address) func([]common.Address) common.Address {
		return func([]common.Address) common.Address { return a }
	}
	dat := func(b []byte) func([]common.Address) []byte { return func([]common.Address) []byte { return b } }
	var target [32]byte
	copy(target[:], cn)
	receipt := fix.ExtAddr(cn, e.Other.Hex())
	var ibcTarget [32]byte
	copy(ibcTarget[:], "ibc/9/fx") // no such channel: the IBC send itself fails, after the tokens were taken
	fx := func(n int64) *big.Int { return chain.FX(n).BigInt() }
	L := []pstep{
		{Label: "staking.delegateV2(v0)", To: cst(st), Data: dat(fix.StakingPack("delegateV2", v0, fx(1000))), Precompile: true},
		{Label: "staking.delegateV2(v1)", To: cst(st), Data: dat(fix.StakingPack("delegateV2", v1, fx(700))), Precompile: true},
		{Label: "staking.delegateV2(too much)", To: cst(st), Data: dat(fix.StakingPack("delegateV2", v0, fx(90_000_000))), Precompile: true, Impossible: true},
		{Label: "staking.undelegateV2(v0)", To: cst(st), Data: dat(fix.StakingPack("undelegateV2", v0, fx(300))), Precompile: true},
		{Label: "staking.redelegateV2(v0->v1)", To: cst(st), Data: dat(fix.StakingPack("redelegateV2", v0, v1, fx(200))), Precompile: true},
		{Label: "staking.withdraw(v0)", To: cst(st), Data: dat(fix.StakingPack("withdraw", v0)), Precompile: true},
		{Label: "staking.approveShares(v0)", To: cst(st), Data: dat(fix.StakingPack("approveShares", v0, e.Other.Hex(), big.NewInt(77))), Precompile: true},
		{Label: "staking.transferShares(v0->other)", To: cst(st), Data: dat(fix.StakingPack("transferShares", v0, e.Other.Hex(), fx(100))), Precompile: true},
		{Label: "staking.transferShares(too many)", To: cst(st), Data: dat(fix.StakingPack("transferShares", v0, e.Other.Hex(), fx(50_000_000))), Precompile: true, Impossible: true},
		{Label: "staking.transferFromShares(victim->self)", To: cst(st), Data: func(a []common.Address) []byte {
			return fix.StakingPack("transferFromShares", v0, e.Victim.Hex(), a[self], fx(50))
		}, Precompile: true},
		{Label: "usdt.approve(crosschain)", To: cst(e.USDT.ERC20), Data: dat(chain.ERC20Pack("approve", cc, big.NewInt(1_000_000)))},
		{Label: "usdt.transfer(other)", To: cst(e.USDT.ERC20), Data: dat(chain.ERC20Pack("transfer", e.Other.Hex(), big.NewInt(30)))},
		{Label: "crosschain.crossChain(usdt)", To: cst(cc), Data: dat(fix.PackCrosschain("crossChain", e.USDT.ERC20, receipt, big.NewInt(500), big.NewInt(5), target, "")), Precompile: true},
		{Label: "crosschain.crossChain(fx by value)", To: cst(cc), Value: big.NewInt(1005), Data: dat(fix.PackCrosschain("crossChain", common.Address{}, receipt, big.NewInt(1000), big.NewInt(5), target, "")), Precompile: true},
		{Label: "crosschain.crossChain(fx by value, ibc channel missing)", To: cst(cc), Value: big.NewInt(1000), Data: dat(fix.PackCrosschain("crossChain", common.Address{}, e.Other.Bech32(), big.NewInt(1000), big.NewInt(0), ibcTarget, "")), Precompile: true, Impossible: true},
		{Label: "crosschain.crossChain(usdt, ibc channel missing)", To: cst(cc), Data: dat(fix.PackCrosschain("crossChain", e.USDT.ERC20, e.Other.Bech32(), big.NewInt(500), big.NewInt(0), ibcTarget, "")), Precompile: true, Impossible: true},
		{Label: "crosschain.bridgeCall(usdt)", To: cst(cc), Data: func(a []common.Address) []byte {
			return fix.PackCrosschain("bridgeCall", cn, a[self], []common.Address{e.USDT.ERC20}, []*big.Int{big.NewInt(300)}, e.Other.Hex(), []byte{1, 2}, big.NewInt(0), []byte{})
		}, Precompile: true},
		{Label: "crosschain.bridgeCall(bad chain)", To: cst(cc), Data: func(a []common.Address) []byte {
			return fix.PackCrosschain("bridgeCall", "nochain", a[self], []common.Address{e.USDT.ERC20}, []*big.Int{big.NewInt(300)}, e.Other.Hex(), []byte{}, big.NewInt(0), []byte{})
		}, Precompile: true, Impossible: true},
		{Label: "crosschain.cancelSendToExternal(next id)", To: cst(cc), Data: dat(fix.PackCrosschain("cancelSendToExternal", cn, new(big.Int).SetUint64(r.nextID))), Precompile: true},
		{Label: "crosschain.cancelSendToExternal(victim id)", To: cst(cc), Data: dat(fix.PackCrosschain("cancelSendToExternal", cn, new(big.Int).SetUint64(e.VictimTxIDs[0]))), Precompile: true, Impossible: true},
		{Label: "crosschain.increaseBridgeFee(next id)", To: cst(cc), Data: dat(fix.PackCrosschain("increaseBridgeFee", cn, new(big.Int).SetUint64(r.nextID), e.USDT.ERC20, big.NewInt(3))), Precompile: true},
		{Label: "crosschain.executeClaim(parked 0)", To: cst(cc), Data: dat(fix.PackCrosschain("executeClaim", cn, new(big.Int).SetUint64(r.parked[0]))), Precompile: true},
		{Label: "crosschain.executeClaim(parked 1)", To: cst(cc), Data: dat(fix.PackCrosschain("executeClaim", cn, new(big.Int).SetUint64(r.parked[1]))), Precompile: true},
		{Label: "crosschain.executeClaim(result of an unknown call)", To: cst(cc), Data: dat(fix.PackCrosschain("executeClaim", cn, new(big.Int).SetUint64(r.orphan))), Precompile: true, Impossible: true},
		{Label: "crosschain.garbage", To: cst(cc), Data: dat([]byte{0xde, 0xad, 0xbe, 0xef, 1, 2, 3}), Precompile: true, Impossible: true},
		{Label: "staking.garbage", To: cst(st), Data: dat(append(fix.StakingPack("delegateV2", v0, fx(1))[:4], 0xff, 0xff)), Precompile: true, Impossible: true},
	}
	return L
}

func (r *c09Run) genContract(self int, nsteps int, subs []int) pcontract {
	lib := r.lib(self)
	var pc pcontract
	if r.rng.IntN(3) != 0 {
		// establish what later steps need: a delegation and a token allowance for the precompile
		for _, k := range []int{0, 10} {
			st := lib[k]
			st.Gas = 900_000
			pc.Steps = append(pc.Steps, st)
		}
	}
	for i := 0; i < nsteps; i++ {
		if len(subs) > 0 && r.rng.IntN(3) == 0 {
			// every sub-program is called at most once, so its slots describe that one invocation
			k := r.rng.IntN(len(subs))
			s := subs[k]
			subs = append(append([]int{}, subs[:k]...), subs[k+1:]...)
			pc.Steps = append(pc.Steps, pstep{Label: fmt.Sprintf("call sub%d", s), Sub: s, Bubble: r.rng.IntN(5) == 0})
			continue
		}
		st := lib[r.rng.IntN(len(lib))]
		// explicit gas caps keep a deliberately failing call from starving the rest
		st.Gas = uint64(600_000 + r.rng.IntN(600_000))
		st.Bubble = r.rng.IntN(8) == 0
		pc.Steps = append(pc.Steps, st)
	}
	switch r.rng.IntN(10) {
	case 0:
		pc.End = "revert"
	case 1:
		pc.End = "invalid"
	default:
		pc.End = "stop"
	}
	return pc
}

// genProgram: contracts[0] = X (top), contracts[1..] = sub-programs.
func (r *c09Run) genProgram() []pcontract {
	nsub := r.rng.IntN(3)
	var cons []pcontract
	var subs []int
	for i := 1; i <= nsub; i++ {
		subs = append(subs, i)
	}
	cons = append(cons, r.genContract(0, 2+r.rng.IntN(5), subs))
	for i := 1; i <= nsub; i++ {
		sc := r.genContract(i, 1+r.rng.IntN(3), nil)
		if r.rng.IntN(3) == 0 {
			sc.End = "revert" // the sub-program's calls succeed and are then discarded with its frame
		}
		cons = append(cons, sc)
	}
	if r.rng.IntN(12) == 0 {
		cons[0].End = "loop"
	}
	return cons
}

// build compiles contract i; keep[i][j]==false drops step j (twin).
func build(cons []pcontract, i int, addrs []common.Address, keep [][]bool, twin bool) []byte {
	p := evmasm.Prog{End: cons[i].End, BubbleAt: map[int]bool{}, Touch: true}
	if twin {
		p.End = "stop"
	}
	for j, s := range cons[i].Steps {
		if twin && !keep[i][j] {
			continue
		}
		st := evmasm.Step{Kind: evmasm.CALL, Value: s.Value, Gas: s.Gas}
		if s.Sub > 0 {
			st.To = addrs[s.Sub]
			st.Data = nil
			st.Gas = 0
		} else {
			st.To = s.To(addrs)
			st.Data = s.Data(addrs)
		}
		if twin {
			st.Gas = 0
		} else if s.Bubble {
			p.BubbleAt[len(p.Steps)] = true
		}
		p.Steps = append(p.Steps, st)
	}
	return p.Runtime()
}

type execOut struct {
	ctx     sdk.Context
	addrs   []common.Address
	res     chain.EvmResult
	slots   [][]int // per contract, per step: 0 not reached, 1 failed, 2 success
	gasUsed uint64
	logs    []string
	wrapped bool
	innerOK bool
	k       common.Address
}

func deployOn(c *chain.Chain, ctx sdk.Context, from chain.Key, runtime []byte) (common.Address, error) {
	er := c.EthTxOn(ctx, from, nil, chain.InitCode(runtime), nil, 0)
	if er.Failed() {
		return common.Address{}, fmt.Errorf("deploy: %s", er.VmError())
	}
	return er.Contract, nil
}

// execute deploys the program (or its twin) on a fresh branch and runs it.
func (r *c09Run) execute(cons []pcontract, keep [][]bool, twin bool, gas uint64, skipCall bool) (*execOut, error) {
	e := r.e
	c := e.C
	ctx := c.Branch()
	n := len(cons)
	// addresses are determined by the deployer's nonce sequence: subs first, X last
	base := c.App.EvmKeeper.GetNonce(ctx, e.Deployer.Hex())
	addrs := make([]common.Address, n)
	order := []int{}
	for i := 1; i < n; i++ {
		order = append(order, i)
	}
	order = append(order, 0)
	for k, i := range order {
		addrs[i] = createAddr(e.Deployer.Hex(), base+uint64(k))
	}
	for _, i := range order {
		code := build(cons, i, addrs, keep, twin)
		er := c.EthTxOn(ctx, e.Deployer, nil, chain.InitCode(code), nil, 0)
		if er.Failed() || er.Contract != addrs[i] {
			return nil, fmt.Errorf("deploy contract %d: %s (%s vs %s)", i, er.VmError(), er.Contract, addrs[i])
		}
	}
	for _, a := range addrs {
		if err := e.FundContract(ctx, a); err != nil {
			return nil, err
		}
		// the victim grants each program contract a share allowance (for transferFromShares)
		pc := fix.PrecompileStaking()
		if er := c.EthTxOn(ctx, e.Victim, &pc, fix.StakingPack("approveShares", e.Vals[0].String(), a, chain.FX(60).BigInt()), nil, 0); er.Failed() {
			return nil, fmt.Errorf("victim approve: %s", er.VmError())
		}
	}
	out := &execOut{ctx: ctx, addrs: addrs}
	var k common.Address
	if r.wrap {
		// Caller -> catcher K -> X: when X runs out of gas or reverts, K swallows it and the transaction succeeds
		var err error
		if k, err = deployOn(c, ctx, e.Other, evmasm.Catcher(evmasm.CALL)); err != nil {
			return nil, err
		}
		out.wrapped, out.k = true, k
	}
	if skipCall {
		return out, nil
	}
	if r.wrap {
		out.res = c.EthTxOn(ctx, e.Caller, &k, evmasm.ForwardData(addrs[0], nil), nil, gas)
		out.wrapped = true
		out.k = k
		kv := c.App.EvmKeeper.GetState(ctx, k, common.Hash{})
		out.innerOK = new(big.Int).SetBytes(kv.Bytes()).Int64() == 2
	} else {
		out.res = c.EthTxOn(ctx, e.Caller, &addrs[0], nil, nil, gas)
	}
	if out.res.Rsp != nil {
		out.gasUsed = out.res.Rsp.GasUsed
		for _, l := range out.res.Rsp.Logs {
			a := common.HexToAddress(l.Address)
			if a == fix.PrecompileStaking() || a == fix.PrecompileCrosschain() {
				out.logs = append(out.logs, fmt.Sprintf("%s|%v|%x", l.Address, l.Topics, l.Data))
			}
		}
	}
	out.slots = make([][]int, n)
	for i := range cons {
		out.slots[i] = make([]int, len(cons[i].Steps))
		for j := range cons[i].Steps {
			v := c.App.EvmKeeper.GetState(ctx, addrs[i], common.BigToHash(big.NewInt(int64(j))))
			out.slots[i][j] = int(new(big.Int).SetBytes(v.Bytes()).Int64())
		}
	}
	return out, nil
}

func createAddr(from common.Address, nonce uint64) common.Address {
	return chainCreateAddress(from, nonce)
}

// keptSets derives, from A's slots, which steps the EVM kept. A sub-program's steps
// count only if the calling step of X was kept (otherwise its frame, slots included, was
// reverted and the slots read zero anyway).
func keptSets(cons []pcontract, a *execOut, txOK bool) [][]bool {
	keep := make([][]bool, len(cons))
	for i := range cons {
		keep[i] = make([]bool, len(cons[i].Steps))
		if !txOK {
			continue
		}
		for j := range cons[i].Steps {
			keep[i][j] = a.slots[i][j] == 2 && !cons[i].Steps[j].Impossible
		}
	}
	return keep
}

func (r *c09Run) runProgram(cons []pcontract, pidx int) interface{} {
	var shape []string
	for i, pc := range cons {
		var ls []string
		for _, s := range pc.Steps {
			l := s.Label
			if s.Bubble {
				l += "!"
			}
			ls = append(ls, l)
		}
		shape = append(shape, fmt.Sprintf("c%d[%s]->%s", i, strings.Join(ls, "; "), pc.End))
	}
	desc := strings.Join(shape, " || ")
	if r.verb {
		fmt.Println("PROGRAM", desc)
	}
	ample := uint64(25_000_000)
	a0, err := r.execute(cons, nil, false, ample, false)
	if err != nil {
		r.res.Inconclusive = err.Error()
		return nil
	}
	r.compare(cons, a0, ample, desc, "ample")
	// gas sweep: from below the intrinsic cost up to what the ample run used, dense near the top
	g := a0.gasUsed
	if g < 30000 {
		g = 30000
	}
	limits := map[uint64]bool{20_000: true, 21_000: true, 21_500: true}
	for k := 0; k < r.spec.Sweep; k++ {
		var l uint64
		switch k % 3 {
		case 0:
			l = 21_000 + uint64(r.rng.Int64N(int64(g-20_000)))
		case 1:
			l = g - uint64(r.rng.Int64N(int64(g/4+1)))
		default:
			l = g - uint64(r.rng.Int64N(int64(g/40+1)))
		}
		limits[l] = true
	}
	var ls []uint64
	for l := range limits {
		ls = append(ls, l)
	}
	sort.Slice(ls, func(i, j int) bool { return ls[i] < ls[j] })
	for k, l := range ls {
		r.wrap = k%2 == 1
		ax, err := r.execute(cons, nil, false, l, false)
		r.wrap = false
		if err != nil {
			r.res.Inconclusive = err.Error()
			return nil
		}
		r.res.Count("gas_limited_executions", 1)
		r.compare(cons, ax, l, desc, "limited")
	}
	return map[string]interface{}{"program": desc, "gas_used_ample": a0.gasUsed, "slots_ample": a0.slots, "gas_limits": ls}
}

func (r *c09Run) compare(cons []pcontract, a *execOut, gas uint64, desc, class string) {
	c := r.e.C
	r.res.Count("executions", 1)
	txOK := a.res.OK() && a.res.Rsp != nil && !a.res.Rsp.Failed()
	outerOK := txOK
	if a.wrapped {
		// the program's frame was kept only if the catcher saw it succeed
		txOK = txOK && a.innerOK
		if outerOK && !a.innerOK {
			r.res.Count("program_frame_reverted_inside_successful_tx", 1)
		}
	}
	if !a.res.OK() {
		// the message server itself returned an error (e.g. intrinsic gas too low): nothing may have happened
		r.res.Count("tx_rejected", 1)
	}
	if !txOK {
		r.res.Count("whole_tx_failures", 1)
	}
	// the precompile addresses are pass-through accounts: whatever a call sends them is forwarded
	// or returned inside the same call, kept or not
	for name, pa := range map[string]common.Address{"crosschain": fix.PrecompileCrosschain(), "staking": fix.PrecompileStaking()} {
		if bal := c.App.BankKeeper.GetAllBalances(a.ctx, pa.Bytes()); !bal.IsZero() {
			r.res.Violate("C09/value-stranded-in-precompile/"+name, "program %s (gas %d, tx ok=%v): the %s precompile account holds %s after the transaction", desc, gas, txOK, name, bal)
		}
		r.res.Count("precompile_account_checks", 1)
	}
	keep := keptSets(cons, a, txOK)
	kept, disc := 0, 0
	for i, pc := range cons {
		for j, s := range pc.Steps {
			if !s.Precompile {
				continue
			}
			if keep[i][j] {
				kept++
			} else if !txOK || a.slots[i][j] == 1 || i > 0 {
				disc++
				if a.slots[i][j] == 2 {
					// the call itself succeeded; an enclosing frame (or the transaction) threw it away afterwards
					r.res.Count("succeeded_then_discarded", 1)
					r.res.Count("succeeded_then_discarded/"+strings.SplitN(s.Label, "(", 2)[0], 1)
				}
			}
		}
	}
	r.res.Count("precompile_calls_kept", int64(kept))
	r.res.Count("precompile_calls_discarded", int64(disc))
	wasWrap := r.wrap
	r.wrap = a.wrapped
	// the twin of a discarded program frame is "the catcher called an empty program": run the wrapper too
	b, err := r.execute(cons, keep, true, 25_000_000, !txOK && !(a.wrapped && outerOK))
	r.wrap = wasWrap
	if err != nil {
		r.res.Inconclusive = "twin: " + err.Error()
		return
	}
	r.res.Count("twin_comparisons", 1)
	if txOK {
		// the twin must keep everything
		bOK := b.res.OK() && b.res.Rsp != nil && !b.res.Rsp.Failed()
		if !bOK {
			r.res.Violate("C09/twin-failed", "program %s (gas %d): the twin without the discarded calls fails: %s — a discarded call left effects a kept call depended on, or a kept call depends on a discarded one", desc, gas, b.res.VmError())
			return
		}
	}
	skip := map[string]bool{}
	for _, ad := range a.addrs {
		skip[string(ad.Bytes())] = true
	}
	if !outerOK {
		// twin of a failed transaction = no transaction: the sender's sequence is the allowed difference
		skip[string(r.e.Caller.Hex().Bytes())] = true
	}
	if a.wrapped {
		skip[string(a.k.Bytes())] = true
	}
	da, db := c.Dump(a.ctx), c.Dump(b.ctx)
	var lines []string
	onlyTokenStorage := true
	tokens := map[string]bool{string(r.e.USDT.ERC20.Bytes()): true, string(r.e.XTK.ERC20.Bytes()): true, string(r.e.FX.ERC20.Bytes()): true}
	for _, d := range chain.Diff(da, db) {
		if c09Allowed(d, skip) {
			continue
		}
		lines = append(lines, d.String())
		if !(d.Store == evmtypes.StoreKey && len(d.Key) >= 21 && d.Key[0] == 0x02 && tokens[string(d.Key[1:21])]) {
			onlyTokenStorage = false
		}
	}
	sig := fmt.Sprintf("%s/k%d/d%d/%v/%x", class, kept, disc, txOK, hash8(desc))
	if kept > 0 && disc > 0 {
		r.res.AddSig(sig)
	}
	if len(lines) > 0 {
		if len(lines) > 10 {
			lines = append(lines[:10], fmt.Sprintf("… %d more", len(lines)-10))
		}
		key := "C09/partial-effects/" + c09Culprit(cons, a, keep, txOK)
		// The difference is confined to the storage of a bridged token contract and the program keeps a
		// precompile call that writes to token contracts through the keeper (a nested state DB committed
		// under the running EVM): that is finding F9 (C08/pending-evm-writes-lost) seen from here: a
		// discarded call that touched the token makes the outer frame overwrite the nested write.
		if onlyTokenStorage && txOK {
			var nested []string
			for i, pc := range cons {
				for j, st := range pc.Steps {
					if keep[i][j] && (strings.HasPrefix(st.Label, "crosschain.executeClaim") || strings.HasPrefix(st.Label, "crosschain.bridgeCall") || strings.HasPrefix(st.Label, "crosschain.cancelSendToExternal")) {
						nested = append(nested, strings.SplitN(st.Label, "(", 2)[0])
					}
				}
			}
			if len(nested) > 0 {
				sort.Strings(nested)
				key = "C09/pending-evm-writes-lost/" + strings.Join(uniq(nested), "+")
			}
		}
		r.res.Violate(key, "program %s run with gas limit %d (tx ok=%v, vm error %q, kept steps %v): state differs from the twin in which the discarded calls never ran:\n%s", desc, gas, txOK, a.res.VmError(), a.slots, strings.Join(lines, "\n"))
	}
	if txOK {
		// every kept withdraw call reports itself by a Withdraw log of the staking precompile (also one that pays nothing)
		wantW, gotW := 0, 0
		for i, pc := range cons {
			for j, st := range pc.Steps {
				if keep[i][j] && strings.HasPrefix(st.Label, "staking.withdraw") {
					wantW++
				}
			}
		}
		wid := strings.ToLower(fxstakingtypes.GetABI().Events["Withdraw"].ID.Hex())
		for _, l := range a.logs {
			if strings.Contains(strings.ToLower(l), wid) {
				gotW++
			}
		}
		if wantW > 0 {
			r.res.Count("kept_withdraw_calls_checked_for_their_log", int64(wantW))
		}
		if gotW < wantW {
			r.res.Violate("C09/kept-call-without-its-effects/staking.withdraw", "program %s (gas %d): %d withdraw calls were kept by the EVM but only %d Withdraw logs were emitted", desc, gas, wantW, gotW)
		}
	}
	if txOK && strings.Join(a.logs, "\n") != strings.Join(b.logs, "\n") {
		r.res.Violate("C09/precompile-logs-differ/"+c09Culprit(cons, a, keep, txOK), "program %s (gas %d): precompile logs of the execution (%d) differ from the twin's (%d)", desc, gas, len(a.logs), len(b.logs))
	}
	if !txOK && a.res.Rsp != nil && len(a.logs) > 0 {
		r.res.Violate("C09/logs-of-failed-tx", "program %s (gas %d): the failed transaction reports %d precompile logs", desc, gas, len(a.logs))
	}
}

func hash8(s string) []byte {
	h := uint64(1469598103934665603)
	for i := 0; i < len(s); i++ {
		h ^= uint64(s[i])
		h *= 1099511628211
	}
	var b [8]byte
	for i := range b {
		b[i] = byte(h >> (8 * i))
	}
	return b[:]
}

// c09Culprit names the first discarded precompile step (the likely source of a partial effect).
func c09Culprit(cons []pcontract, a *execOut, keep [][]bool, txOK bool) string {
	// an impossible operation that did not revert is the prime suspect
	for i, pc := range cons {
		for j, s := range pc.Steps {
			if s.Precompile && s.Impossible && txOK && a.slots[i][j] == 2 {
				l := s.Label
				if k := strings.IndexByte(l, '('); k > 0 {
					l = l[:k]
				}
				return l + "/impossible-call-did-not-revert"
			}
		}
	}
	for i, pc := range cons {
		for j, s := range pc.Steps {
			if s.Precompile && !keep[i][j] && (!txOK || a.slots[i][j] == 1 || i > 0) {
				l := s.Label
				if k := strings.IndexByte(l, '('); k > 0 {
					l = l[:k]
				}
				return l
			}
		}
	}
	return "none"
}

// c09Allowed: differences that are not effects of a precompile call.
func c09Allowed(d chain.DiffEntry, progs map[string]bool) bool {
	switch d.Store {
	case evmtypes.StoreKey:
		if len(d.Key) == 0 {
			return false
		}
		switch d.Key[0] {
		case 0x01: // code by hash
			return true
		case 0x02: // storage: addr || slot
			return len(d.Key) >= 21 && progs[string(d.Key[1:21])]
		}
		return false
	case "acc":
		// account records of the program contracts carry their code hash
		for p := range progs {
			if bytes.Contains(d.Key, []byte(p)) {
				return true
			}
		}
		return false
	}
	return false
}

func chainCreateAddress(from common.Address, nonce uint64) common.Address {
	return ethcrypto.CreateAddress(from, nonce)
}

func uniq(xs []string) []string {
	var out []string
	for i, x := range xs {
		if i == 0 || x != xs[i-1] {
			out = append(out, x)
		}
	}
	return out
}
