package mon

import (
	"encoding/json"
	"fmt"
	"math/big"
	"sort"
	"strings"

	sdkmath "cosmossdk.io/math"
	sdk "github.com/cosmos/cosmos-sdk/types"
	"github.com/ethereum/go-ethereum/common"

	crosschaintypes "github.com/functionx/fx-core/v8/x/crosschain/types"
	fxgovtypes "github.com/functionx/fx-core/v8/x/gov/types"
	fxstakingtypes "github.com/functionx/fx-core/v8/x/staking/types"

	"verif/harness/chain"
	"verif/harness/core"
	"verif/harness/evmasm"
	"verif/harness/fix"
)

// C10: precompiles act only for their direct caller and only in a writable call context;
// a method or address disabled by governance cannot execute at all.

type c10Spec struct {
	Seed  uint64 `json:"seed"`
	Chain string `json:"chain"`
	Mode  string `json:"mode"` // thirdparty | context | switch
}

func init() {
	core.Register(&core.Prop{
		ID:    "C10",
		Level: "exploration",
		Rule: "per case one wired app with a victim holding every asset kind (coins, ERC-20, delegations, allowances, pool entries, outgoing bridge calls); " +
			"mode thirdparty: every state-changing precompile method called by an attacker account and by attacker contracts the victim calls, with arguments naming the victim's assets, plus transferFromShares with allowance 0 / a<s / a>=s — portfolios of all accounts other than the direct caller are compared before/after; " +
			"mode context: every state-changing method reached through STATICCALL, DELEGATECALL and CALLCODE (reverting and catching wrappers) and through a CALL issued inside a static frame — must fail with an empty Cosmos-side store diff; " +
			"mode switch: real MsgUpdateSwitchParams disabling an address or address/methodId (mixed case), every method incl. read-only ones must fail with empty diff, re-enabling restores. " +
			"Non-trivial: a case with >=10 judged calls of which >=1 succeeded legitimately; distinct by (mode, chain, method set)",
		Assumptions: []string{
			"calls enter as Ethereum transactions through the x/evm message server on branches of one block state",
			"pending rewards are not part of the portfolio (zero inflation in this fixture)",
		},
		Cases:            c10Cases,
		Run:              runC10,
		MinNontrivial:    6,
		RequiredCounters: []string{"third_party_calls_judged", "context_calls_judged", "switch_calls_judged", "allowance_transfers_ok", "legit_calls_ok"},
	})
}

func c10Cases(seed uint64, tier string) []core.Case {
	rng := core.Rng(seed, 0xC10)
	reps := 1
	if tier == "thorough" {
		reps = 12
	}
	var out []core.Case
	for rep := 0; rep < reps; rep++ {
		for _, ch := range []string{"eth", "tron", "bsc"} {
			for _, m := range []string{"thirdparty", "context", "switch"} {
				out = append(out, core.MkCase(fmt.Sprintf("C10-%s-%s-%d", m, ch, rep), c10Spec{Seed: rng.Uint64(), Chain: ch, Mode: m}))
			}
		}
	}
	return out
}

type portfolio struct {
	Bank    map[string]sdkmath.Int
	ERC20   map[string]*big.Int
	Shares  map[string]sdkmath.LegacyDec
	Unbond  sdkmath.Int
	Allow   map[string]*big.Int // val|spender -> allowance granted by this account
	PoolIDs map[uint64]string   // id -> amount+fee
	CallIDs map[uint64]bool
}

type c10Run struct {
	spec          c10Spec
	e             *fix.EvmWorld
	res           *core.CaseResult
	verb          bool
	accounts      map[string]common.Address
	judged, legit int
}

func (r *c10Run) portfolio(ctx sdk.Context, a common.Address) portfolio {
	e, c := r.e, r.e.C
	p := portfolio{Bank: map[string]sdkmath.Int{}, ERC20: map[string]*big.Int{}, Shares: map[string]sdkmath.LegacyDec{}, Allow: map[string]*big.Int{}, PoolIDs: map[uint64]string{}, CallIDs: map[uint64]bool{}, Unbond: sdkmath.ZeroInt()}
	for _, coin := range c.App.BankKeeper.GetAllBalances(ctx, a.Bytes()) {
		p.Bank[coin.Denom] = coin.Amount
	}
	for _, t := range []*fix.WToken{e.USDT, e.XTK, e.FX} {
		p.ERC20[t.Symbol] = c.ERC20Balance(ctx, t.ERC20, a)
	}
	dels, _ := c.App.StakingKeeper.GetAllDelegatorDelegations(ctx, a.Bytes())
	for _, d := range dels {
		p.Shares[d.ValidatorAddress] = d.Shares
	}
	ubds, _ := c.App.StakingKeeper.GetAllUnbondingDelegations(ctx, a.Bytes())
	for _, u := range ubds {
		for _, en := range u.Entries {
			p.Unbond = p.Unbond.Add(en.Balance)
		}
	}
	c.App.StakingKeeper.IterateAllAllowance(ctx, func(val sdk.ValAddress, owner, spender sdk.AccAddress, al *big.Int) bool {
		if owner.Equals(sdk.AccAddress(a.Bytes())) {
			p.Allow[val.String()+"|"+common.BytesToAddress(spender).Hex()] = al
		}
		return false
	})
	me := sdk.AccAddress(a.Bytes()).String()
	for _, tx := range e.B.K.GetUnbatchedTransactions(ctx) {
		if tx.Sender == me {
			p.PoolIDs[tx.Id] = tx.Token.Amount.Add(tx.Fee.Amount).String()
		}
	}
	meExt := fix.ExtAddr(e.B.Name, a)
	e.B.K.IterateOutgoingBridgeCalls(ctx, func(oc *crosschaintypes.OutgoingBridgeCall) bool {
		if oc.Sender == meExt {
			p.CallIDs[oc.Nonce] = true
		}
		return false
	})
	return p
}

// decreased lists every component of `after` that is lower than in `before`.
func decreased(before, after portfolio) []string {
	var out []string
	for d, v := range before.Bank {
		if w, ok := after.Bank[d]; !ok || w.LT(v) {
			out = append(out, fmt.Sprintf("bank %s %s -> %v", d, v, after.Bank[d]))
		}
	}
	for s, v := range before.ERC20 {
		if after.ERC20[s].Cmp(v) < 0 {
			out = append(out, fmt.Sprintf("erc20 %s %s -> %s", s, v, after.ERC20[s]))
		}
	}
	for v, sh := range before.Shares {
		if w, ok := after.Shares[v]; !ok || w.LT(sh) {
			out = append(out, fmt.Sprintf("shares at %s %s -> %v", v, sh, after.Shares[v]))
		}
	}
	if after.Unbond.LT(before.Unbond) {
		out = append(out, fmt.Sprintf("unbonding %s -> %s", before.Unbond, after.Unbond))
	}
	for k, v := range before.Allow {
		if w, ok := after.Allow[k]; !ok || w.Cmp(v) < 0 {
			out = append(out, fmt.Sprintf("allowance %s %s -> %v", k, v, after.Allow[k]))
		}
	}
	for id, v := range before.PoolIDs {
		// (a stranger may add to the fee of a queued transfer: the entry then carries more, which is no reduction)
		w, ok := after.PoolIDs[id]
		vi, _ := sdkmath.NewIntFromString(v)
		wi, okw := sdkmath.NewIntFromString(w)
		if !ok || !okw || wi.LT(vi) {
			out = append(out, fmt.Sprintf("pool entry %d (%s) -> %q", id, v, after.PoolIDs[id]))
		}
	}
	for id := range before.CallIDs {
		if !after.CallIDs[id] {
			out = append(out, fmt.Sprintf("outgoing bridge call %d cancelled", id))
		}
	}
	sort.Strings(out)
	return out
}

func runC10(cs core.Case, verbose bool) core.CaseResult {
	var spec c10Spec
	res := core.CaseResult{}
	if err := json.Unmarshal(cs.Spec, &spec); err != nil {
		res.Inconclusive = err.Error()
		return res
	}
	e, err := fix.NewEvmWorld(spec.Seed, spec.Chain, false)
	if err != nil {
		res.Inconclusive = "setup: " + err.Error()
		return res
	}
	r := &c10Run{spec: spec, e: e, res: &res, verb: verbose, accounts: map[string]common.Address{}}
	for _, k := range []chain.Key{e.Deployer, e.Victim, e.Caller, e.Other} {
		r.accounts[k.Label] = k.Hex()
	}
	switch spec.Mode {
	case "thirdparty":
		r.thirdParty()
	case "context":
		r.contexts()
	default:
		r.govSwitch()
	}
	res.Nontrivial = r.judged >= 10 && r.legit >= 1
	res.Sig = spec.Mode + "/" + spec.Chain
	res.Sample = map[string]interface{}{"spec": spec, "judged": r.judged, "legit_ok": r.legit}
	return res
}

type method struct {
	name string
	pc   common.Address
	data func(self common.Address) []byte
	val  *big.Int
}

// methods: every state-changing precompile method, with arguments that name the victim's
// assets wherever the ABI lets the caller name somebody else's.
func (r *c10Run) methods(parked uint64) []method {
	e := r.e
	cn := e.B.Name
	st, cc := fix.PrecompileStaking(), fix.PrecompileCrosschain()
	v0, v1 := e.Vals[0].String(), e.Vals[1].String()
	var target [32]byte
	copy(target[:], cn)
	receipt := fix.ExtAddr(cn, e.Other.Hex())
	fx := func(n int64) *big.Int { return chain.FX(n).BigInt() }
	return []method{
		{"staking.delegateV2", st, func(common.Address) []byte { return fix.StakingPack("delegateV2", v0, fx(10)) }, nil},
		{"staking.undelegateV2", st, func(common.Address) []byte { return fix.StakingPack("undelegateV2", v0, fx(5)) }, nil},
		{"staking.redelegateV2", st, func(common.Address) []byte { return fix.StakingPack("redelegateV2", v0, v1, fx(5)) }, nil},
		{"staking.withdraw", st, func(common.Address) []byte { return fix.StakingPack("withdraw", v0) }, nil},
		{"staking.approveShares", st, func(common.Address) []byte {
			return fix.StakingPack("approveShares", v0, e.Caller.Hex(), fx(1_000_000))
		}, nil},
		{"staking.transferShares", st, func(common.Address) []byte { return fix.StakingPack("transferShares", v0, e.Caller.Hex(), fx(100)) }, nil},
		{"staking.transferFromShares(victim)", st, func(self common.Address) []byte {
			return fix.StakingPack("transferFromShares", v0, e.Victim.Hex(), e.Caller.Hex(), fx(100))
		}, nil},
		{"crosschain.crossChain", cc, func(common.Address) []byte {
			return fix.PackCrosschain("crossChain", e.USDT.ERC20, receipt, big.NewInt(500), big.NewInt(5), target, "")
		}, nil},
		{"crosschain.crossChain(fx)", cc, func(common.Address) []byte {
			return fix.PackCrosschain("crossChain", common.Address{}, receipt, big.NewInt(1000), big.NewInt(5), target, "")
		}, big.NewInt(1005)},
		{"crosschain.bridgeCall", cc, func(self common.Address) []byte {
			return fix.PackCrosschain("bridgeCall", cn, e.Caller.Hex(), []common.Address{e.USDT.ERC20}, []*big.Int{big.NewInt(300)}, e.Other.Hex(), []byte{1}, big.NewInt(0), []byte{})
		}, nil},
		{"crosschain.bridgeCall(refund=victim)", cc, func(self common.Address) []byte {
			return fix.PackCrosschain("bridgeCall", cn, e.Victim.Hex(), []common.Address{e.USDT.ERC20}, []*big.Int{big.NewInt(300)}, e.Other.Hex(), []byte{1}, big.NewInt(0), []byte{})
		}, nil},
		{"crosschain.bridgeCall(fx by value, refund=victim)", cc, func(self common.Address) []byte {
			return fix.PackCrosschain("bridgeCall", cn, e.Victim.Hex(), []common.Address{}, []*big.Int{}, e.Other.Hex(), []byte{1}, big.NewInt(0), []byte{})
		}, big.NewInt(100)},
		{"crosschain.bridgeCall(to=victim, refund=victim)", cc, func(self common.Address) []byte {
			return fix.PackCrosschain("bridgeCall", cn, e.Victim.Hex(), []common.Address{e.USDT.ERC20}, []*big.Int{big.NewInt(300)}, e.Victim.Hex(), []byte{}, big.NewInt(0), []byte{})
		}, nil},
		{"crosschain.cancelSendToExternal(victim id)", cc, func(common.Address) []byte {
			return fix.PackCrosschain("cancelSendToExternal", cn, new(big.Int).SetUint64(e.VictimTxIDs[0]))
		}, nil},
		{"crosschain.increaseBridgeFee(victim id)", cc, func(common.Address) []byte {
			return fix.PackCrosschain("increaseBridgeFee", cn, new(big.Int).SetUint64(e.VictimTxIDs[1]), e.USDT.ERC20, big.NewInt(3))
		}, nil},
		{"crosschain.executeClaim", cc, func(common.Address) []byte {
			return fix.PackCrosschain("executeClaim", cn, new(big.Int).SetUint64(parked))
		}, nil},
	}
}

// judge runs one transaction on a fresh branch and compares the portfolios of everybody
// except `direct` (the account the precompile sees as its caller).
func (r *c10Run) judge(label string, sender chain.Key, to common.Address, data []byte, val *big.Int, direct common.Address, prep func(ctx sdk.Context)) (ok bool) {
	return r.judgeCalls(label, sender, to, func() ([][]byte, []*big.Int) { return [][]byte{data}, []*big.Int{val} }, direct, prep)
}

// judgeCalls: the same for a sequence of transactions of one sender (ok = the last one succeeded).
func (r *c10Run) judgeCalls(label string, sender chain.Key, to common.Address, calls func() ([][]byte, []*big.Int), direct common.Address, prep func(ctx sdk.Context)) (ok bool) {
	c := r.e.C
	ctx := c.Branch()
	if prep != nil {
		prep(ctx)
	}
	before := map[string]portfolio{}
	for n, a := range r.accounts {
		before[n] = r.portfolio(ctx, a)
	}
	var er chain.EvmResult
	datas, vals := calls() // (built after the preparation, which may create what they name)
	val := new(big.Int)
	for i, data := range datas {
		er = c.EthTxOn(ctx, sender, &to, data, vals[i], 3_000_000)
		if vals[i] != nil && !er.Failed() {
			val.Add(val, vals[i])
		}
	}
	if val.Sign() == 0 {
		val = nil
	}
	ok = !er.Failed()
	r.judged++
	r.res.Count("third_party_calls_judged", 1)
	if r.verb {
		fmt.Printf("%-70s sender=%s ok=%v %s\n", label, sender.Label, ok, short(er.VmError()))
	}
	for n, a := range r.accounts {
		if a == direct {
			continue
		}
		after := r.portfolio(ctx, a)
		if a == sender.Hex() && val != nil && ok {
			// the value the sender itself attached to its transaction
			if cur, has := after.Bank["FX"]; has {
				after.Bank["FX"] = cur.Add(sdkmath.NewIntFromBigInt(val))
			}
		}
		if dec := decreased(before[n], after); len(dec) > 0 {
			m := label
			if i := strings.IndexByte(m, ' '); i > 0 {
				m = m[:i]
			}
			r.res.Violate("C10/third-party-asset-reduced/"+m, "%s (tx ok=%v): assets of %s, who is not the direct caller %s, were reduced: %s", label, ok, n, direct.Hex(), strings.Join(dec, "; "))
		}
	}
	return ok
}

func (r *c10Run) thirdParty() {
	e, c := r.e, r.e.C
	parked, err := e.ParkDeposit(e.USDT, sdkmath.NewInt(4000), e.Other.Acc(), "")
	if err != nil {
		r.res.Inconclusive = err.Error()
		return
	}
	// an attacker contract (plain forwarder)
	fwd, err := c.Deploy(e.Caller, evmasm.Forwarder(evmasm.CALL))
	if err != nil {
		r.res.Inconclusive = err.Error()
		return
	}
	r.accounts["attacker-contract"] = fwd
	pcCross := fix.PrecompileCrosschain()
	for _, m := range r.methods(parked) {
		// 1. the attacker calls directly; the attacker approved the precompile for its own tokens
		prep := func(ctx sdk.Context) {
			c.EthTxOn(ctx, e.Caller, &e.USDT.ERC20, chain.ERC20Pack("approve", pcCross, big.NewInt(1_000_000)), nil, 0)
		}
		if r.judge(m.name+" by attacker EOA", e.Caller, m.pc, m.data(e.Caller.Hex()), m.val, e.Caller.Hex(), prep) {
			r.legit++
			r.res.Count("legit_calls_ok", 1)
		}
		// 2. the victim calls the attacker's contract, which calls the precompile: caller = contract.
		//    The victim has approved the precompile for its tokens (the usual set-up for crossChain).
		prepV := func(ctx sdk.Context) {
			c.EthTxOn(ctx, e.Victim, &e.USDT.ERC20, chain.ERC20Pack("approve", pcCross, big.NewInt(1_000_000)), nil, 0)
			c.EthTxOn(ctx, e.Victim, &e.USDT.ERC20, chain.ERC20Pack("approve", fwd, big.NewInt(0)), nil, 0)
		}
		r.judge(m.name+" by contract called by the victim", e.Victim, fwd, evmasm.ForwardData(m.pc, m.data(fwd)), m.val, fwd, prepV)
	}
	// two steps: anybody may raise the fee of a queued transfer; having done so the attacker tries to cancel it.
	// (The transfer is one of the native coin: raising the fee of a many-to-one token always reverts, O4.)
	{
		cn := e.B.Name
		var target [32]byte
		copy(target[:], cn)
		var id uint64
		prep := func(ctx sdk.Context) {
			known := map[uint64]bool{}
			e.B.K.IterateUnbatchedTransactions(ctx, "", func(tx *crosschaintypes.OutgoingTransferTx) bool { known[tx.Id] = true; return false })
			c.EthTxOn(ctx, e.Victim, &pcCross, fix.PackCrosschain("crossChain", common.Address{}, fix.ExtAddr(cn, e.Other.Hex()), big.NewInt(5000), big.NewInt(50), target, ""), big.NewInt(5050), 3_000_000)
			e.B.K.IterateUnbatchedTransactions(ctx, "", func(tx *crosschaintypes.OutgoingTransferTx) bool {
				if !known[tx.Id] {
					id = tx.Id
				}
				return false
			})
		}
		calls := func() ([][]byte, []*big.Int) {
			n := new(big.Int).SetUint64(id)
			return [][]byte{fix.PackCrosschain("increaseBridgeFee", cn, n, common.Address{}, big.NewInt(3)), fix.PackCrosschain("cancelSendToExternal", cn, n)}, []*big.Int{big.NewInt(3), nil}
		}
		r.res.Count("two_step_attacks_judged", 1)
		if r.judgeCalls("crosschain.increaseBridgeFee+cancelSendToExternal(victim's native-coin transfer) by attacker EOA", e.Caller, pcCross, calls, e.Caller.Hex(), prep) {
			r.res.Violate("C10/third-party-cancel-after-fee-increase", "after raising the fee of the victim's queued transfer %d the attacker cancelled it", id)
		}
		if id == 0 {
			r.res.Count("two_step_attacks_without_target", 1)
		}
	}
	// 3. share allowances: at most the allowance, reduced by exactly the amount moved
	st := fix.PrecompileStaking()
	// once on a validator whose shares are worth one token each, once on a validator that has been
	// slashed for a double sign (a share is worth less than a token: allowances are in shares)
	for pass, v0 := range []sdk.ValAddress{e.Vals[0], e.Vals[1]} {
		if pass == 1 {
			c.DoubleSign(1)
			for i := 0; i < 2; i++ {
				if _, err := c.Next(); err != nil {
					r.res.Inconclusive = "block: " + err.Error()
					return
				}
			}
			val, _ := c.App.StakingKeeper.GetValidator(c.Ctx, v0)
			if val.TokensFromShares(sdkmath.LegacyOneDec()).Equal(sdkmath.LegacyOneDec()) {
				r.res.Inconclusive = "validator 1 was not slashed"
				return
			}
			r.res.Count("slashed_validator_passes", 1)
		}
		for _, tc := range []struct {
			allow, move int64
			revoked     int64    // an approval granted earlier and taken back (approve 0) before the one above
			raw         *big.Int // the allowance in base units when it is not a whole number of FX (boundary values)
		}{{0, 10, 0, nil}, {50, 51, 0, nil}, {50, 50, 0, nil}, {80, 30, 0, nil}, {0, 10, 40, nil},
			// "unlimited" approvals as wallets send them: consumed like any other allowance
			{30, 30, 0, new(big.Int).Sub(new(big.Int).Lsh(big.NewInt(1), 256), big.NewInt(1))},
			{30, 30, 0, new(big.Int).Sub(new(big.Int).Lsh(big.NewInt(1), 255), big.NewInt(1))},
			{30, 30, 0, new(big.Int).Add(chain.FX(30).BigInt(), big.NewInt(1))}} {
			ctx := c.Branch()
			if tc.revoked > 0 {
				c.EthTxOn(ctx, e.Victim, &st, fix.StakingPack("approveShares", v0.String(), e.Caller.Hex(), chain.FX(tc.revoked).BigInt()), nil, 0)
				if er := c.EthTxOn(ctx, e.Victim, &st, fix.StakingPack("approveShares", v0.String(), e.Caller.Hex(), big.NewInt(0)), nil, 0); er.Failed() {
					r.res.Inconclusive = "revoke: " + er.VmError()
					return
				}
				r.res.Count("revoked_allowance_cases", 1)
			}
			if tc.allow > 0 {
				amount := chain.FX(tc.allow).BigInt()
				if tc.raw != nil {
					amount = tc.raw
					r.res.Count("boundary_allowance_cases", 1)
				}
				if er := c.EthTxOn(ctx, e.Victim, &st, fix.StakingPack("approveShares", v0.String(), e.Caller.Hex(), amount), nil, 0); er.Failed() {
					r.res.Inconclusive = "approve: " + er.VmError()
					return
				}
			}
			vb := r.portfolio(ctx, e.Victim.Hex())
			er := c.EthTxOn(ctx, e.Caller, &st, fix.StakingPack("transferFromShares", v0.String(), e.Victim.Hex(), e.Caller.Hex(), chain.FX(tc.move).BigInt()), nil, 0)
			va := r.portfolio(ctx, e.Victim.Hex())
			ok := !er.Failed()
			r.judged++
			r.res.Count("third_party_calls_judged", 1)
			key := v0.String() + "|" + e.Caller.Hex().Hex()
			if tc.move > tc.allow {
				if ok || len(decreased(vb, va)) > 0 {
					r.res.Violate("C10/transfer-beyond-allowance", "transferFromShares of %d with allowance %d: ok=%v, victim changes: %v", tc.move, tc.allow, ok, decreased(vb, va))
				}
				continue
			}
			if !ok {
				r.res.Violate("C10/allowed-transfer-refused", "transferFromShares of %d with allowance %d failed: %s", tc.move, tc.allow, er.VmError())
				continue
			}
			r.res.Count("allowance_transfers_ok", 1)
			moved := vb.Shares[v0.String()].Sub(va.Shares[v0.String()])
			allowDelta := new(big.Int).Sub(vb.Allow[key], va.Allow[key])
			want := sdkmath.LegacyNewDecFromInt(chain.FX(tc.move))
			if !moved.Equal(want) || allowDelta.Cmp(chain.FX(tc.move).BigInt()) != 0 {
				r.res.Violate("C10/allowance-accounting", "transferFromShares of %d with allowance %d moved %s shares and reduced the allowance by %s", tc.move, tc.allow, moved, allowDelta)
			}
			// nothing else of the victim may shrink
			va.Shares[v0.String()] = vb.Shares[v0.String()]
			va.Allow[key] = vb.Allow[key]
			if dec := decreased(vb, va); len(dec) > 0 {
				r.res.Violate("C10/allowance-transfer-took-more", "an allowed share transfer also reduced: %v", dec)
			}
		}
	}
}

// cosmosDiff: store differences outside the EVM module's own store and the senders' account records.
func (r *c10Run) cosmosDiff(a, b chain.Dump, senders ...common.Address) []string {
	var out []string
	for _, d := range chain.Diff(a, b) {
		if d.Store == "evm" || d.Store == "feemarket" {
			continue
		}
		if d.Store == "acc" {
			skip := false
			for _, s := range senders {
				if strings.Contains(string(d.Key), string(s.Bytes())) {
					skip = true
				}
			}
			if skip {
				continue
			}
		}
		out = append(out, d.String())
	}
	return out
}

func (r *c10Run) contexts() {
	e, c := r.e, r.e.C
	parked, err := e.ParkDeposit(e.USDT, sdkmath.NewInt(4000), e.Other.Acc(), "")
	if err != nil {
		r.res.Inconclusive = err.Error()
		return
	}
	type wrap struct {
		name string
		addr common.Address
	}
	var wraps []wrap
	for _, k := range []struct {
		n    string
		kind byte
	}{{"STATICCALL", evmasm.STATICCALL}, {"DELEGATECALL", evmasm.DELEGATECALL}, {"CALLCODE", evmasm.CALLCODE}} {
		a, err := c.Deploy(e.Deployer, evmasm.Forwarder(k.kind))
		if err != nil {
			r.res.Inconclusive = err.Error()
			return
		}
		b, err := c.Deploy(e.Deployer, evmasm.Catcher(k.kind))
		if err != nil {
			r.res.Inconclusive = err.Error()
			return
		}
		wraps = append(wraps, wrap{k.n + "/revert", a}, wrap{k.n + "/catch", b})
	}
	callFwd, err := c.Deploy(e.Deployer, evmasm.Forwarder(evmasm.CALL))
	if err != nil {
		r.res.Inconclusive = err.Error()
		return
	}
	staticFwd, err := c.Deploy(e.Deployer, evmasm.Catcher(evmasm.STATICCALL))
	if err != nil {
		r.res.Inconclusive = err.Error()
		return
	}
	pcCross := fix.PrecompileCrosschain()
	// the victim is the transaction sender and has approved the precompile: a DELEGATECALL that ran
	// with the victim as caller would be able to move the victim's assets
	c.EthTx(e.Victim, &e.USDT.ERC20, chain.ERC20Pack("approve", pcCross, big.NewInt(1_000_000)), nil, 0)
	for _, m := range r.methods(parked) {
		for _, w := range wraps {
			ctx := c.Branch()
			before := c.Dump(ctx)
			payload := m.data(w.addr)
			// no value is attached: an EVM value transfer to the wrapper is not a precompile effect
			er := c.EthTxOn(ctx, e.Victim, &w.addr, evmasm.ForwardData(m.pc, payload), nil, 3_000_000)
			r.judged++
			r.res.Count("context_calls_judged", 1)
			innerOK := !er.Failed()
			if strings.HasSuffix(w.name, "/catch") {
				v := c.App.EvmKeeper.GetState(ctx, w.addr, common.Hash{})
				innerOK = new(big.Int).SetBytes(v.Bytes()).Int64() == 2
			}
			d := r.cosmosDiff(before, c.Dump(ctx), e.Victim.Hex())
			if r.verb {
				fmt.Printf("%-45s via %-20s innerOK=%v diff=%d %s\n", m.name, w.name, innerOK, len(d), short(er.VmError()))
			}
			kind := strings.SplitN(w.name, "/", 2)[0]
			if innerOK {
				r.res.Violate("C10/state-changing-method-ran-in-"+kind+"/"+m.name, "%s reached through %s succeeded", m.name, w.name)
			}
			if len(d) > 0 {
				r.res.Violate("C10/"+kind+"-changed-cosmos-state/"+m.name, "%s reached through %s left %d Cosmos-side changes, e.g. %s", m.name, w.name, len(d), d[0])
			}
		}
		// a writable CALL issued from inside a static frame: sender -> STATICCALL catcher -> CALL forwarder -> precompile
		ctx := c.Branch()
		before := c.Dump(ctx)
		inner := evmasm.ForwardData(m.pc, m.data(callFwd))
		er := c.EthTxOn(ctx, e.Victim, &staticFwd, evmasm.ForwardData(callFwd, inner), nil, 3_000_000)
		r.judged++
		r.res.Count("context_calls_judged", 1)
		d := r.cosmosDiff(before, c.Dump(ctx), e.Victim.Hex())
		if len(d) > 0 {
			r.res.Violate("C10/static-nested-call/"+m.name, "%s called with CALL from inside a STATICCALL frame (tx ok=%v) left %d Cosmos-side changes, e.g. %s", m.name, !er.Failed(), len(d), d[0])
		}
	}
	// positive control: the same wrappers do reach read-only methods
	ro := fix.StakingPack("delegation", e.Vals[0].String(), e.Victim.Hex())
	er := c.EthTxOn(c.Branch(), e.Victim, &wraps[0].addr, evmasm.ForwardData(fix.PrecompileStaking(), ro), nil, 0)
	if !er.Failed() {
		r.legit++
		r.res.Count("legit_calls_ok", 1)
	} else {
		r.res.Violate("C10/readonly-method-refused-in-static-context", "delegation() through STATICCALL failed: %s", er.VmError())
	}
}

func (r *c10Run) govSwitch() {
	e, c := r.e, r.e.C
	parked, err := e.ParkDeposit(e.USDT, sdkmath.NewInt(4000), e.Other.Acc(), "")
	if err != nil {
		r.res.Inconclusive = err.Error()
		return
	}
	st, cc := fix.PrecompileStaking(), fix.PrecompileCrosschain()
	ms := r.methods(parked)
	// read-only methods too
	var target [32]byte
	copy(target[:], e.B.Name)
	ms = append(ms,
		method{"staking.delegation", st, func(common.Address) []byte { return fix.StakingPack("delegation", e.Vals[0].String(), e.Victim.Hex()) }, nil},
		method{"staking.allowanceShares", st, func(common.Address) []byte {
			return fix.StakingPack("allowanceShares", e.Vals[0].String(), e.Victim.Hex(), e.Caller.Hex())
		}, nil},
		method{"crosschain.bridgeCoinAmount", cc, func(common.Address) []byte { return fix.PackCrosschain("bridgeCoinAmount", e.USDT.ERC20, target) }, nil},
		method{"crosschain.hasOracle", cc, func(common.Address) []byte {
			return fix.PackCrosschain("hasOracle", e.B.Name, common.HexToAddress(e.B.Oracles[0].ExtAddr))
		}, nil},
	)
	mixed := func(s string) string {
		b := []byte(s)
		for i := range b {
			if i%2 == 0 && b[i] >= 'a' && b[i] <= 'f' {
				b[i] -= 32
			}
		}
		return string(b)
	}
	run := func(ctx sdk.Context, m method) (bool, []string) {
		before := c.Dump(ctx)
		er := c.EthTxOn(ctx, e.Victim, &m.pc, m.data(e.Victim.Hex()), m.val, 3_000_000)
		return !er.Failed(), r.cosmosDiff(before, c.Dump(ctx), e.Victim.Hex())
	}
	setSwitch := func(ctx sdk.Context, disabled []string) error {
		res := c.MsgOn(ctx, &fxgovtypes.MsgUpdateSwitchParams{Authority: chain.GovAuthority(), Params: fxgovtypes.SwitchParams{DisablePrecompiles: disabled}})
		if !res.OK() {
			return fmt.Errorf("%s", res.ErrString())
		}
		return nil
	}
	c.EthTx(e.Victim, &e.USDT.ERC20, chain.ERC20Pack("approve", cc, big.NewInt(1_000_000)), nil, 0)
	// baseline: which methods work for the victim when nothing is disabled
	works := map[string]bool{}
	for _, m := range ms {
		ok, _ := run(c.Branch(), m)
		works[m.name] = ok
		if ok {
			r.legit++
			r.res.Count("legit_calls_ok", 1)
		}
	}
	// 1. whole address disabled (mixed-case spelling)
	for _, addr := range []common.Address{st, cc} {
		ctx := c.Branch()
		if err := setSwitch(ctx, []string{mixed(addr.Hex())}); err != nil {
			r.res.Inconclusive = err.Error()
			return
		}
		for _, m := range ms {
			b2, _ := ctx.CacheContext()
			ok, d := run(b2, m)
			r.judged++
			r.res.Count("switch_calls_judged", 1)
			if m.pc == addr {
				if ok || len(d) > 0 {
					r.res.Violate("C10/disabled-address-executed/"+m.name, "%s executed (ok=%v, %d changes) although governance disabled %s", m.name, ok, len(d), addr.Hex())
				}
			} else if ok != works[m.name] {
				r.res.Violate("C10/switch-affected-other-precompile/"+m.name, "%s changed outcome (%v -> %v) when only %s was disabled", m.name, works[m.name], ok, addr.Hex())
			}
		}
		// re-enable
		if err := setSwitch(ctx, nil); err != nil {
			r.res.Inconclusive = err.Error()
			return
		}
		for _, m := range ms {
			b2, _ := ctx.CacheContext()
			ok, _ := run(b2, m)
			if ok != works[m.name] {
				r.res.Violate("C10/re-enable-did-not-restore/"+m.name, "%s: outcome %v before disabling, %v after re-enabling", m.name, works[m.name], ok)
			}
		}
	}
	// 2. single methods disabled: address/methodId, mixed case
	for i, m := range ms {
		ctx := c.Branch()
		id := fmt.Sprintf("%s/%x", m.pc.Hex(), m.data(e.Victim.Hex())[:4])
		if i%2 == 0 {
			id = mixed(id)
		}
		if err := setSwitch(ctx, []string{id}); err != nil {
			r.res.Inconclusive = err.Error()
			return
		}
		for _, m2 := range ms {
			b2, _ := ctx.CacheContext()
			ok, d := run(b2, m2)
			r.judged++
			r.res.Count("switch_calls_judged", 1)
			same := m2.pc == m.pc && string(m2.data(e.Victim.Hex())[:4]) == string(m.data(e.Victim.Hex())[:4])
			if same {
				if ok || len(d) > 0 {
					r.res.Violate("C10/disabled-method-executed/"+m2.name, "%s executed (ok=%v, %d changes) although governance disabled %s", m2.name, ok, len(d), id)
				}
			} else if ok != works[m2.name] {
				r.res.Violate("C10/switch-affected-other-method/"+m2.name, "%s changed outcome (%v -> %v) when only %s was disabled", m2.name, works[m2.name], ok, id)
			}
		}
	}
	// 3. several entries at once: two or three methods (of one precompile and of both), a method
	//    together with a whole address in either order; every named method must be off, every other
	//    method must behave as before
	idOf := func(m method) string { return fmt.Sprintf("%s/%x", m.pc.Hex(), m.data(e.Victim.Hex())[:4]) }
	sel := func(m method) string { return m.pc.Hex() + string(m.data(e.Victim.Hex())[:4]) }
	rng := core.Rng(r.spec.Seed, 10)
	for k := 0; k < 12 && len(ms) >= 3; k++ {
		ctx := c.Branch()
		var list []string
		offSel := map[string]bool{}
		offAddr := map[common.Address]bool{}
		n := 2 + rng.IntN(2)
		for _, j := range rng.Perm(len(ms)) {
			if len(list) >= n {
				break
			}
			if offSel[sel(ms[j])] {
				continue // two workload entries may share a selector; the parameter list takes each entry once
			}
			list = append(list, idOf(ms[j]))
			offSel[sel(ms[j])] = true
		}
		if k%3 == 2 { // plus a whole address, first or last in the list
			a := ms[rng.IntN(len(ms))].pc
			offAddr[a] = true
			if rng.IntN(2) == 0 {
				list = append([]string{a.Hex()}, list...)
			} else {
				list = append(list, a.Hex())
			}
		}
		if k%2 == 1 {
			for i := range list {
				list[i] = mixed(list[i])
			}
		}
		if err := setSwitch(ctx, list); err != nil {
			r.res.Inconclusive = err.Error()
			return
		}
		for _, m2 := range ms {
			b2, _ := ctx.CacheContext()
			ok, d := run(b2, m2)
			r.judged++
			r.res.Count("switch_calls_judged", 1)
			r.res.Count("multi_entry_switch_calls_judged", 1)
			if offSel[sel(m2)] || offAddr[m2.pc] {
				if ok || len(d) > 0 {
					r.res.Violate("C10/disabled-method-executed/"+m2.name, "%s executed (ok=%v, %d changes) although governance disabled %v", m2.name, ok, len(d), list)
				}
			} else if ok != works[m2.name] {
				r.res.Violate("C10/switch-affected-other-method/"+m2.name, "%s changed outcome (%v -> %v) when %v were disabled", m2.name, works[m2.name], ok, list)
			}
		}
	}
	_ = fxstakingtypes.GetAddress
}
