package mon

import (
	"encoding/json"
	"fmt"
	"math/big"
	"math/rand/v2"
	"time"

	sdkmath "cosmossdk.io/math"
	sdk "github.com/cosmos/cosmos-sdk/types"
	"github.com/ethereum/go-ethereum/common"

	fxtypes "github.com/functionx/fx-core/v8/types"
	fxstakingtypes "github.com/functionx/fx-core/v8/x/staking/types"

	"verif/harness/chain"
	"verif/harness/core"
	"verif/harness/evmasm"
)

// C11: transferring delegation shares conserves shares, stake and reward entitlements.

type c11Spec struct {
	Seed     uint64 `json:"seed"`
	Steps    int    `json:"steps"`
	ValSlash bool   `json:"val_slash"`
}

func init() {
	core.Register(&core.Prop{
		ID:    "C11",
		Level: "exploration",
		Rule: "seeded histories of delegateV2 / undelegateV2 / redelegateV2 / withdraw / approveShares / transferShares / transferFromShares among 3 externally owned accounts and 2 contract accounts over 3 validators " +
			"(full, partial, zero and excessive amounts, sender == recipient, recipients with and without a delegation), interleaved with reward-producing blocks (real inflation) and validator double-sign slashing; " +
			"after every operation: sum of delegation shares == validator shares, every registered crisis invariant, exact share movement per transfer, rewards equal to a twin branch using plain withdraw; at the end everybody withdraws and fully undelegates and the funds arrive after the unbonding period. " +
			"Non-trivial: a history with >=3 successful transfers including a self transfer or a transfer to a fresh recipient; distinct by (#transfers, flags, slash)",
		Assumptions: []string{
			"precompile calls enter as Ethereum transactions through the x/evm message server (the ante chain is not involved, observation O1)",
			"reward equality is checked on the liquid FX of the parties' withdraw addresses (default: themselves)",
		},
		Cases:            c11Cases,
		Run:              runC11,
		MinNontrivial:    6,
		RequiredCounters: []string{"transfers_ok", "self_transfers", "transfers_to_fresh", "share_sum_checks", "invariant_checks", "reward_twin_checks", "exit_checks"},
	})
}

func c11Cases(seed uint64, tier string) []core.Case {
	rng := core.Rng(seed, 0xC11)
	n := 24
	if tier == "thorough" {
		n = 300
	}
	var out []core.Case
	for i := 0; i < n; i++ {
		out = append(out, core.MkCase(fmt.Sprintf("C11-%03d", i), c11Spec{Seed: rng.Uint64(), Steps: 50 + rng.IntN(50), ValSlash: i%3 != 0}))
	}
	return out
}

type c11Acct struct {
	label string
	addr  common.Address
	key   chain.Key // controller (the account itself for EOAs)
	fwd   bool      // contract account: calls go through the forwarder at addr
}

type c11Run struct {
	forceFrom               *c11Acct // the next transfer moves this account's shares
	spec                    c11Spec
	c                       *chain.Chain
	rng                     *rand.Rand
	res                     *core.CaseResult
	verb                    bool
	accts                   []*c11Acct
	vals                    []sdk.ValAddress
	transfers, selfT, fresh int
	log                     []string
}

func (r *c11Run) logf(f string, a ...interface{}) {
	s := fmt.Sprintf(f, a...)
	if r.verb {
		fmt.Println(s)
	}
	if len(r.log) < 40 {
		r.log = append(r.log, s)
	}
}

func stakingPack(method string, args ...interface{}) []byte {
	d, err := fxstakingtypes.GetABI().Pack(method, args...)
	if err != nil {
		panic(fmt.Errorf("pack %s: %w", method, err))
	}
	return d
}

// call invokes the staking precompile on behalf of account a.
func (r *c11Run) call(a *c11Acct, data []byte) chain.EvmResult {
	return r.callOn(r.c.Ctx, a, data)
}

func (r *c11Run) callOn(ctx sdk.Context, a *c11Acct, data []byte) chain.EvmResult {
	pc := fxstakingtypes.GetAddress()
	if a.fwd {
		return r.c.EthTxOn(ctx, a.key, &a.addr, evmasm.ForwardData(pc, data), nil, 5_000_000)
	}
	return r.c.EthTxOn(ctx, a.key, &pc, data, nil, 5_000_000)
}

func (r *c11Run) shares(ctx sdk.Context, a common.Address, v sdk.ValAddress) sdkmath.LegacyDec {
	d, err := r.c.App.StakingKeeper.GetDelegation(ctx, a.Bytes(), v)
	if err != nil {
		return sdkmath.LegacyZeroDec()
	}
	return d.Shares
}

func (r *c11Run) fx(ctx sdk.Context, a common.Address) sdkmath.Int {
	return r.c.Balance(ctx, a.Bytes(), fxtypes.DefaultDenom)
}

// checkGlobal: share sums and registered invariants.
func (r *c11Run) checkGlobal(what string) {
	ctx := r.c.Ctx
	r.res.Count("share_sum_checks", 1)
	for _, v := range r.vals {
		val, err := r.c.App.StakingKeeper.GetValidator(ctx, v)
		if err != nil {
			continue
		}
		dels, _ := r.c.App.StakingKeeper.GetValidatorDelegations(ctx, v)
		sum := sdkmath.LegacyZeroDec()
		for _, d := range dels {
			sum = sum.Add(d.Shares)
		}
		// the by-validator index may miss entries; count from the primary records as well
		sum2 := sdkmath.LegacyZeroDec()
		all, _ := r.c.App.StakingKeeper.GetAllDelegations(ctx)
		for _, d := range all {
			if d.ValidatorAddress == v.String() {
				sum2 = sum2.Add(d.Shares)
			}
		}
		if !sum2.Equal(val.DelegatorShares) {
			r.res.Violate("C11/delegator-shares-sum", "%s: validator %s has %s shares but its delegations sum to %s", what, v, val.DelegatorShares, sum2)
		}
		if !sum.Equal(sum2) {
			r.res.Violate("C11/by-validator-index-disagrees", "%s: delegations of %s by the validator index sum to %s, by the primary records to %s", what, v, sum, sum2)
		}
	}
	r.res.Count("invariant_checks", 1)
	for _, b := range r.c.Invariants(ctx) {
		name := b
		if i := indexByte(b, ':'); i > 0 {
			name = b[:i]
		}
		r.res.Violate("C11/invariant/"+name, "%s: %s", what, short(b))
	}
}

func indexByte(s string, c byte) int {
	for i := 0; i < len(s); i++ {
		if s[i] == c {
			return i
		}
	}
	return -1
}

func runC11(cs core.Case, verbose bool) core.CaseResult {
	var spec c11Spec
	res := core.CaseResult{}
	if err := json.Unmarshal(cs.Spec, &spec); err != nil {
		res.Inconclusive = err.Error()
		return res
	}
	r := &c11Run{spec: spec, res: &res, verb: verbose, rng: core.Rng(spec.Seed, 11)}
	r.run()
	res.Nontrivial = r.transfers >= 3 && (r.selfT > 0 || r.fresh > 0)
	res.Sig = fmt.Sprintf("t%d/self%v/fresh%v/slash%v", r.transfers, r.selfT > 0, r.fresh > 0, spec.ValSlash)
	res.Sample = map[string]interface{}{"spec": spec, "first_ops": r.log}
	return res
}

func (r *c11Run) run() {
	c := chain.New(chain.Config{Seed: r.spec.Seed, NumVals: 3, NumUsers: 4, KeepInflation: true, BlockTime: 6 * time.Second})
	r.c = c
	for _, v := range c.Vals {
		r.vals = append(r.vals, v.Operator.Val())
	}
	for i := 0; i < 3; i++ {
		r.accts = append(r.accts, &c11Acct{label: fmt.Sprintf("eoa%d", i), addr: c.Users[i].Hex(), key: c.Users[i]})
	}
	for i := 0; i < 2; i++ {
		addr, err := c.Deploy(c.Users[3], evmasm.Forwarder(evmasm.CALL))
		if err != nil {
			r.res.Inconclusive = "deploy forwarder: " + err.Error()
			return
		}
		// fund the contract account with FX
		if res := c.EthTx(c.Users[3], &addr, evmasm.ForwardData(c.Users[3].Hex(), nil), new(big.Int).Mul(big.NewInt(1_000_000), big.NewInt(1e18)), 0); res.Failed() {
			// the forwarder forwards the value back; fund through the bank instead
		}
		if err := c.App.BankKeeper.SendCoins(c.Ctx, c.Users[3].Acc(), addr.Bytes(), sdk.NewCoins(chain.FXCoin(1_000_000))); err != nil {
			r.res.Inconclusive = err.Error()
			return
		}
		r.accts = append(r.accts, &c11Acct{label: fmt.Sprintf("contract%d", i), addr: addr, key: c.Users[3], fwd: true})
	}
	if !r.block() {
		return
	}
	// initial delegations so that transfers have something to move
	for i, a := range r.accts[:3] {
		r.delegate(a, r.vals[i%len(r.vals)], chain.FX(int64(1000*(i+1))))
	}
	for step := 0; step < r.spec.Steps && r.res.Inconclusive == ""; step++ {
		a := r.accts[r.rng.IntN(len(r.accts))]
		v := r.vals[r.rng.IntN(len(r.vals))]
		if r.spec.ValSlash && (step == 2 || step == 8) {
			// an early slash, so that most of the history runs at a share/token rate below one
			// (delegations made afterwards get fractional shares)
			if vi := 1 + step/8; !c.Absent[vi] {
				c.DoubleSign(vi)
				r.res.Count("validator_slashes", 1)
				if !r.block() {
					return
				}
			}
		}
		switch x := r.rng.IntN(100); {
		case x < 14:
			r.delegate(a, v, chain.FX(int64(1+r.rng.IntN(5000))))
		case x < 22:
			r.undelegate(a, v)
		case x < 28:
			r.redelegate(a, v)
		case x < 34:
			r.withdraw(a, v)
		case x < 42:
			r.approve(a, v)
		case x < 66:
			r.transfer(a, v, false)
		case x < 78:
			r.transfer(a, v, true)
		case x < 82:
			if r.spec.ValSlash && r.rng.IntN(3) == 0 {
				vi := 1 + r.rng.IntN(2)
				if !c.Absent[vi] {
					c.DoubleSign(vi)
					r.res.Count("validator_slashes", 1)
				}
			}
		default:
			if !r.block() {
				return
			}
		}
		r.checkGlobal(fmt.Sprintf("step %d", step))
	}
	if r.res.Inconclusive != "" {
		return
	}
	r.exit()
}

func (r *c11Run) block() bool {
	if _, err := r.c.Next(); err != nil {
		r.res.Inconclusive = "block failed: " + short(err.Error())
		return false
	}
	return true
}

func (r *c11Run) delegate(a *c11Acct, v sdk.ValAddress, amt sdkmath.Int) {
	before := r.shares(r.c.Ctx, a.addr, v)
	res := r.call(a, stakingPack("delegateV2", v.String(), amt.BigInt()))
	r.logf("%s delegateV2 %s %s -> %s", a.label, v, amt, short(res.VmError()))
	if !res.Failed() {
		r.res.Count("delegations_ok", 1)
		if !r.shares(r.c.Ctx, a.addr, v).GT(before) {
			r.res.Violate("C11/delegate-no-shares", "%s delegated %s to %s but its shares did not grow", a.label, amt, v)
		}
	}
}

func (r *c11Run) tokensOf(a common.Address, v sdk.ValAddress) sdkmath.Int {
	val, err := r.c.App.StakingKeeper.GetValidator(r.c.Ctx, v)
	if err != nil {
		return sdkmath.ZeroInt()
	}
	return val.TokensFromShares(r.shares(r.c.Ctx, a, v)).TruncateInt()
}

func (r *c11Run) undelegate(a *c11Acct, v sdk.ValAddress) {
	tok := r.tokensOf(a.addr, v)
	if !tok.IsPositive() {
		return
	}
	amt := tok.QuoRaw(int64(1 + r.rng.IntN(4)))
	if !amt.IsPositive() {
		return
	}
	res := r.call(a, stakingPack("undelegateV2", v.String(), amt.BigInt()))
	r.logf("%s undelegateV2 %s %s -> %s", a.label, v, amt, short(res.VmError()))
	if !res.Failed() {
		r.res.Count("undelegations_ok", 1)
	}
}

func (r *c11Run) redelegate(a *c11Acct, v sdk.ValAddress) {
	tok := r.tokensOf(a.addr, v)
	if !tok.IsPositive() {
		return
	}
	dst := r.vals[r.rng.IntN(len(r.vals))]
	if dst.Equals(v) {
		return
	}
	amt := tok.QuoRaw(int64(1 + r.rng.IntN(4)))
	if !amt.IsPositive() {
		return
	}
	res := r.call(a, stakingPack("redelegateV2", v.String(), dst.String(), amt.BigInt()))
	r.logf("%s redelegateV2 %s->%s %s -> %s", a.label, v, dst, amt, short(res.VmError()))
	if !res.Failed() {
		r.res.Count("redelegations_ok", 1)
		if r.rng.IntN(2) == 0 {
			// while the redelegation into dst has not matured: the owner approves a spender for everything
			// it has there, and the spender tries to move it
			sp := r.accts[r.rng.IntN(len(r.accts))]
			sh := r.shares(r.c.Ctx, a.addr, dst).TruncateInt()
			if ar := r.call(a, stakingPack("approveShares", dst.String(), sp.addr, sh.BigInt())); !ar.Failed() {
				r.forceFrom = a
				r.transfer(sp, dst, true)
			}
		}
	}
}

func (r *c11Run) withdraw(a *c11Acct, v sdk.ValAddress) {
	res := r.call(a, stakingPack("withdraw", v.String()))
	if !res.Failed() {
		r.res.Count("withdraws_ok", 1)
	}
}

func (r *c11Run) approve(a *c11Acct, v sdk.ValAddress) {
	sp := r.accts[r.rng.IntN(len(r.accts))]
	sh := r.shares(r.c.Ctx, a.addr, v).TruncateInt()
	amt := sh.QuoRaw(int64(1 + r.rng.IntN(3)))
	if r.rng.IntN(4) == 0 {
		amt = sdkmath.ZeroInt() // taking an approval back
		r.res.Count("approvals_of_zero", 1)
	}
	res := r.call(a, stakingPack("approveShares", v.String(), sp.addr, amt.BigInt()))
	r.logf("%s approveShares %s spender=%s %s -> %s", a.label, v, sp.label, amt, short(res.VmError()))
	if !res.Failed() {
		r.res.Count("approvals_ok", 1)
		got := r.c.App.StakingKeeper.GetAllowance(r.c.Ctx, v, a.addr.Bytes(), sp.addr.Bytes())
		if got.Cmp(amt.BigInt()) != 0 {
			r.res.Violate("C11/allowance-not-set", "approveShares(%s) left allowance %s", amt, got)
		}
	}
}

// transfer: transferShares (from = caller) or transferFromShares (caller = spender).
func (r *c11Run) transfer(caller *c11Acct, v sdk.ValAddress, fromVariant bool) {
	ctx := r.c.Ctx
	from := caller
	if fromVariant {
		from = r.accts[r.rng.IntN(len(r.accts))]
	}
	if r.forceFrom != nil {
		from, r.forceFrom = r.forceFrom, nil
	}
	to := r.accts[r.rng.IntN(len(r.accts))]
	if r.rng.IntN(5) == 0 {
		to = from // sender == recipient
	}
	fs := r.shares(ctx, from.addr, v)
	var amt sdkmath.Int
	switch r.rng.IntN(6) {
	case 0:
		amt = fs.TruncateInt() // full
	case 1:
		amt = fs.TruncateInt().AddRaw(1) // over
	case 2:
		amt = sdkmath.ZeroInt()
	default:
		amt = fs.TruncateInt().QuoRaw(int64(2 + r.rng.IntN(5)))
	}
	if fs.IsZero() && r.rng.IntN(4) != 0 {
		return
	}
	val, err := r.c.App.StakingKeeper.GetValidator(ctx, v)
	if err != nil {
		return
	}
	ts := r.shares(ctx, to.addr, v)
	if fromVariant && to.addr == from.addr && amt.IsPositive() {
		// a spender asked to move the owner's shares to the owner itself: make sure it is the transfer rule,
		// not a missing allowance, that decides
		r.call(from, stakingPack("approveShares", v.String(), caller.addr, amt.BigInt()))
		ctx = r.c.Ctx
	}
	allowance := r.c.App.StakingKeeper.GetAllowance(ctx, v, from.addr.Bytes(), caller.addr.Bytes())
	fxFrom, fxTo := r.fx(ctx, from.addr), r.fx(ctx, to.addr)
	incoming, _ := r.c.App.StakingKeeper.HasReceivingRedelegation(ctx, from.addr.Bytes(), v)

	// twin branch: the parties call plain withdraw at the same position
	twin := r.c.Branch()
	rwFrom := sdkmath.ZeroInt()
	rwTo := sdkmath.ZeroInt()
	twinOK := true
	if !fs.IsZero() {
		b0 := r.fx(twin, from.addr)
		if tr := r.callOn(twin, from, stakingPack("withdraw", v.String())); tr.Failed() {
			twinOK = false
		}
		rwFrom = r.fx(twin, from.addr).Sub(b0)
	}
	if !ts.IsZero() && to.addr != from.addr {
		b0 := r.fx(twin, to.addr)
		if tr := r.callOn(twin, to, stakingPack("withdraw", v.String())); tr.Failed() {
			twinOK = false
		}
		rwTo = r.fx(twin, to.addr).Sub(b0)
	}

	var data []byte
	if fromVariant {
		data = stakingPack("transferFromShares", v.String(), from.addr, to.addr, amt.BigInt())
	} else {
		data = stakingPack("transferShares", v.String(), to.addr, amt.BigInt())
	}
	res := r.call(caller, data)
	ok := !res.Failed()
	r.logf("%s %s val=%s from=%s to=%s shares=%s (from has %s, allowance %s) -> ok=%v %s", caller.label, map[bool]string{true: "transferFromShares", false: "transferShares"}[fromVariant],
		v, from.label, to.label, amt, fs, allowance, ok, short(res.VmError()))
	ctx = r.c.Ctx
	fs2, ts2 := r.shares(ctx, from.addr, v), r.shares(ctx, to.addr, v)
	val2, _ := r.c.App.StakingKeeper.GetValidator(ctx, v)
	s := sdkmath.LegacyNewDecFromInt(amt)
	if !ok {
		if incoming {
			r.res.Count("transfers_refused_for_incoming_redelegation/"+map[bool]string{true: "transferFromShares", false: "transferShares"}[fromVariant && caller.addr != from.addr], 1)
		}
		if !fs2.Equal(fs) || !ts2.Equal(ts) {
			r.res.Violate("C11/failed-transfer-moved-shares", "failed transfer changed shares: from %s->%s to %s->%s", fs, fs2, ts, ts2)
		}
		if fromVariant {
			if a2 := r.c.App.StakingKeeper.GetAllowance(ctx, v, from.addr.Bytes(), caller.addr.Bytes()); a2.Cmp(allowance) != 0 {
				r.res.Violate("C11/failed-transfer-changed-allowance", "failed transferFromShares changed the allowance %s -> %s", allowance, a2)
			}
		}
		return
	}
	r.transfers++
	r.res.Count("transfers_ok", 1)
	if incoming {
		r.res.Violate("C11/transfer-while-incoming-redelegation/"+map[bool]string{true: "transferFromShares", false: "transferShares"}[fromVariant],
			"%s moved %s shares of %s at %s although a redelegation into that delegation has not matured", caller.label, amt, from.label, v)
	}
	if from.addr == to.addr {
		r.selfT++
		r.res.Count("self_transfers", 1)
		if !fs2.Equal(fs) {
			r.res.Violate("C11/self-transfer-changed-shares", "transfer of %s shares from %s to itself changed its delegation at %s from %s to %s", amt, from.label, v, fs, fs2)
		}
	} else {
		if ts.IsZero() {
			r.fresh++
			r.res.Count("transfers_to_fresh", 1)
		}
		if !fs2.Equal(fs.Sub(s)) || !ts2.Equal(ts.Add(s)) {
			r.res.Violate("C11/transfer-share-movement", "transfer of %s shares: sender %s -> %s, recipient %s -> %s", amt, fs, fs2, ts, ts2)
		}
	}
	// distribution bookkeeping: both parties' reward base is re-stated from what they now hold
	for _, p := range []*c11Acct{from, to} {
		del, err := r.c.App.StakingKeeper.GetDelegation(ctx, p.addr.Bytes(), v)
		if err != nil {
			continue
		}
		si, err := r.c.App.DistrKeeper.GetDelegatorStartingInfo(ctx, v, p.addr.Bytes())
		if err != nil {
			r.res.Violate("C11/starting-info-missing", "after the transfer %s has %s shares at %s but no distribution starting info (%v)", p.label, del.Shares, v, err)
			continue
		}
		r.res.Count("starting_info_checks", 1)
		if want := val2.TokensFromSharesTruncated(del.Shares); !si.Stake.Equal(want) {
			r.res.Violate("C11/reward-base-stale", "after the transfer %s holds %s shares at %s (worth %s), but its rewards accrue on a recorded stake of %s", p.label, del.Shares, v, want, si.Stake)
		}
	}
	if !val2.Tokens.Equal(val.Tokens) || !val2.DelegatorShares.Equal(val.DelegatorShares) {
		r.res.Violate("C11/transfer-changed-validator", "transfer changed validator %s: tokens %s -> %s, shares %s -> %s", v, val.Tokens, val2.Tokens, val.DelegatorShares, val2.DelegatorShares)
	}
	if amt.GT(fs.TruncateInt()) {
		r.res.Violate("C11/transfer-more-than-owned", "transfer of %s shares succeeded although the sender had %s", amt, fs)
	}
	if fromVariant {
		a2 := r.c.App.StakingKeeper.GetAllowance(ctx, v, from.addr.Bytes(), caller.addr.Bytes())
		if allowance.Cmp(amt.BigInt()) < 0 {
			r.res.Violate("C11/transfer-from-beyond-allowance", "transferFromShares of %s succeeded with allowance %s", amt, allowance)
		}
		if new(big.Int).Sub(allowance, a2).Cmp(amt.BigInt()) != 0 {
			r.res.Violate("C11/allowance-decrement", "allowance went %s -> %s for a transfer of %s", allowance, a2, amt)
		}
	}
	// rewards: what the parties received equals what plain withdraw pays at this point
	if twinOK {
		r.res.Count("reward_twin_checks", 1)
		gotFrom := r.fx(ctx, from.addr).Sub(fxFrom)
		gotTo := r.fx(ctx, to.addr).Sub(fxTo)
		if from.addr == to.addr {
			gotTo = sdkmath.ZeroInt()
		}
		if !gotFrom.Equal(rwFrom) || !gotTo.Equal(rwTo) {
			r.res.Violate("C11/transfer-reward-payout", "transfer paid the sender %s and the recipient %s; plain withdraw at the same point pays %s and %s", gotFrom, gotTo, rwFrom, rwTo)
		}
	}
}

// exit: every delegator withdraws and fully undelegates; after the unbonding period the funds arrive.
func (r *c11Run) exit() {
	if !r.block() {
		return
	}
	c := r.c
	expect := map[common.Address]sdkmath.Int{}
	for _, a := range r.accts {
		for _, v := range r.vals {
			sh := r.shares(c.Ctx, a.addr, v)
			if sh.IsZero() {
				continue
			}
			r.res.Count("exit_checks", 1)
			if res := r.call(a, stakingPack("withdraw", v.String())); res.Failed() {
				r.res.Violate("C11/cannot-withdraw", "%s cannot withdraw rewards from %s at the end: %s", a.label, v, short(res.VmError()))
			}
			// redelegation destinations cannot be left immediately: use the plain staking message semantics through the precompile
			tok := r.tokensOf(a.addr, v)
			if !tok.IsPositive() {
				continue
			}
			res := r.call(a, stakingPack("undelegateV2", v.String(), tok.BigInt()))
			if res.Failed() {
				r.res.Violate("C11/cannot-undelegate", "%s cannot fully undelegate %s from %s: %s", a.label, tok, v, short(res.VmError()))
				continue
			}
			if cur, ok := expect[a.addr]; ok {
				expect[a.addr] = cur.Add(tok)
			} else {
				expect[a.addr] = tok
			}
			// undelegation is requested in whole tokens: what may stay behind is a share residue worth about one
			// base unit, 1e-18 FX (the amount is computed by truncation and the SDK truncates again) (on a slashed validator that can be more than one share)
			val, _ := c.App.StakingKeeper.GetValidator(c.Ctx, v)
			if left := r.shares(c.Ctx, a.addr, v); val.TokensFromShares(left).GTE(sdkmath.LegacyNewDec(2)) {
				r.res.Violate("C11/undelegate-left-shares", "%s still has %s shares (worth %s) at %s after undelegating everything", a.label, left, val.TokensFromShares(left), v)
			}
		}
	}
	r.checkGlobal("exit-undelegated")
	before := map[common.Address]sdkmath.Int{}
	for _, a := range r.accts {
		before[a.addr] = r.fx(c.Ctx, a.addr)
	}
	if _, err := c.EndBlock(22 * 24 * time.Hour); err != nil {
		r.res.Inconclusive = "block failed: " + short(err.Error())
		return
	}
	if !r.block() {
		return
	}
	for _, a := range r.accts {
		ubds, _ := c.App.StakingKeeper.GetAllUnbondingDelegations(c.Ctx, a.addr.Bytes())
		if len(ubds) > 0 {
			r.res.Violate("C11/unbonding-not-matured", "%s still has %d unbonding delegations 22 days later", a.label, len(ubds))
		}
		got := r.fx(c.Ctx, a.addr).Sub(before[a.addr])
		want, ok := expect[a.addr]
		if !ok {
			continue
		}
		// earlier unbondings of the history mature in the same jump, slashing may reduce entries: at least the
		// amount undelegated at the end minus slashing must arrive; without a validator slash exactly >= want
		if !r.spec.ValSlash && got.LT(want) {
			r.res.Violate("C11/undelegated-funds-missing", "%s undelegated %s at the end but received only %s after the unbonding period", a.label, want, got)
		}
	}
	r.checkGlobal("exit-matured")
}
