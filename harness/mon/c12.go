package mon

import (
	"bytes"
	"encoding/hex"
	"encoding/json"
	"fmt"
	"math/big"
	"math/rand/v2"

	sdkmath "cosmossdk.io/math"
	storetypes "cosmossdk.io/store/types"
	codectypes "github.com/cosmos/cosmos-sdk/codec/types"
	sdk "github.com/cosmos/cosmos-sdk/types"
	"github.com/ethereum/go-ethereum/common"
	"github.com/ethereum/go-ethereum/crypto"

	crosschainkeeper "github.com/functionx/fx-core/v8/x/crosschain/keeper"
	crosschaintypes "github.com/functionx/fx-core/v8/x/crosschain/types"
	trontypes "github.com/functionx/fx-core/v8/x/tron/types"

	"verif/harness/abienc"
	"verif/harness/chain"
	"verif/harness/core"
	"verif/harness/fix"
)

// C12: a confirmation is stored only with the oracle's signature over the checkpoint of
// exactly the stored object, submitted by the oracle's bridger, once; the checkpoint is
// byte-for-byte the digest FxBridgeLogic.sol recomputes.

type c12Spec struct {
	Part  string `json:"part"`
	Seed  uint64 `json:"seed"`
	Chain string `json:"chain"`
	N     int    `json:"n"`
}

func init() {
	core.Register(&core.Prop{
		ID:    "C12",
		Level: "exploration",
		Rule: "part B (stateless differential): random oracle sets / batches / bridge calls (0-100 members or transfers, 0-4 KiB data and memo, boundary integers 0, 2^63-1, 2^63, 2^64-1 in every numeric field, eth-style and Tron addressing) — fx-core's checkpoint vs an independent abi.encode written from FxBridgeLogic.sol, plus pairwise digest separation across gravity ids, kinds and nonces; " +
			"part A (stateful): real oracle set, batches and bridge calls on the app; honest, malformed, malleated, transplanted (other nonce / kind / chain / oracle), wrong-bridger, wrapper-mismatch and duplicate confirmations; after every submission all three confirm stores are decoded and every stored confirm is re-verified against the independent digest. " +
			"Non-trivial: a part-B batch with >=200 compared objects or a part-A case that stored >=3 confirms and rejected >=10 hostile ones; distinct by (part, chain, kind mix)",
		Assumptions: []string{
			"the Solidity side is represented by a hand-written abi.encode (harness/abienc) following the argument lists in solidity/contracts/bridge/FxBridgeLogic.sol; the contract itself cannot be executed here (no compiler, no bytecode in the repository)",
			"ECDSA public-key recovery itself (libsecp256k1) is trusted",
		},
		Cases:            c12Cases,
		Run:              runC12,
		MinNontrivial:    8,
		RequiredCounters: []string{"checkpoints_compared", "confirms_stored_verified", "hostile_confirms_rejected", "boundary_int_objects"},
	})
}

func c12Cases(seed uint64, tier string) []core.Case {
	rng := core.Rng(seed, 0xC12)
	var out []core.Case
	nB, nA := 400, 1
	if tier == "thorough" {
		nB, nA = 20000, 12
	}
	for _, ch := range []string{"eth", "tron", "bsc"} {
		for i := 0; i < 4; i++ {
			out = append(out, core.MkCase(fmt.Sprintf("C12-B-%s-%d", ch, i), c12Spec{Part: "B", Seed: rng.Uint64(), Chain: ch, N: nB}))
		}
	}
	for rep := 0; rep < nA; rep++ {
		for _, ch := range []string{"eth", "tron", "polygon", "layer2"} {
			out = append(out, core.MkCase(fmt.Sprintf("C12-A-%s-%d", ch, rep), c12Spec{Part: "A", Seed: rng.Uint64(), Chain: ch}))
		}
	}
	return out
}

func runC12(cs core.Case, verbose bool) core.CaseResult {
	var spec c12Spec
	res := core.CaseResult{}
	if err := json.Unmarshal(cs.Spec, &spec); err != nil {
		res.Inconclusive = err.Error()
		return res
	}
	chain.Init()
	if spec.Part == "B" {
		c12PartB(spec, &res)
	} else {
		c12PartA(spec, &res, verbose)
	}
	return res
}

// ---- reference digests (from FxBridgeLogic.sol) -----------------------------------------

func refAddr(chainName, s string) ([20]byte, error) {
	if fix.IsTron(chainName) {
		return abienc.TronAddr(s)
	}
	return abienc.EthAddr(s)
}

// refOracleSet: keccak256(abi.encode(fxBridgeId, "checkpoint", nonce, oracles, powers))
func refOracleSet(chainName, gravityID string, set *crosschaintypes.OracleSet) ([]byte, error) {
	var addrs [][20]byte
	var powers []*big.Int
	for _, m := range set.Members {
		a, err := refAddr(chainName, m.ExternalAddress)
		if err != nil {
			return nil, err
		}
		addrs = append(addrs, a)
		powers = append(powers, new(big.Int).SetUint64(m.Power))
	}
	return abienc.Keccak(abienc.Encode(abienc.Bytes32Str(gravityID), abienc.Bytes32Str("checkpoint"), abienc.Uint64(set.Nonce), abienc.AddressArray(addrs), abienc.UintArray(powers))), nil
}

// refBatch: keccak256(abi.encode(fxBridgeId, "transactionBatch", amounts, destinations, fees, nonce, token, timeout, feeReceive))
func refBatch(chainName, gravityID string, b *crosschaintypes.OutgoingTxBatch) ([]byte, error) {
	var amounts, fees []*big.Int
	var dests [][20]byte
	for _, tx := range b.Transactions {
		amounts = append(amounts, tx.Token.Amount.BigInt())
		fees = append(fees, tx.Fee.Amount.BigInt())
		d, err := refAddr(chainName, tx.DestAddress)
		if err != nil {
			return nil, err
		}
		dests = append(dests, d)
	}
	tok, err := refAddr(chainName, b.TokenContract)
	if err != nil {
		return nil, err
	}
	fr, err := refAddr(chainName, b.FeeReceive)
	if err != nil {
		return nil, err
	}
	return abienc.Keccak(abienc.Encode(abienc.Bytes32Str(gravityID), abienc.Bytes32Str("transactionBatch"), abienc.UintArray(amounts), abienc.AddressArray(dests), abienc.UintArray(fees),
		abienc.Uint64(b.BatchNonce), abienc.Address(tok), abienc.Uint64(b.BatchTimeout), abienc.Address(fr))), nil
}

// refBridgeCall: keccak256(abi.encode(fxBridgeId, "bridgeCall", sender, refund, tokens, amounts, to, data, memo, nonce, timeout, eventNonce))
func refBridgeCall(chainName, gravityID string, oc *crosschaintypes.OutgoingBridgeCall) ([]byte, error) {
	var toks [][20]byte
	var amts []*big.Int
	for _, t := range oc.Tokens {
		a, err := refAddr(chainName, t.Contract)
		if err != nil {
			return nil, err
		}
		toks = append(toks, a)
		amts = append(amts, t.Amount.BigInt())
	}
	snd, err := refAddr(chainName, oc.Sender)
	if err != nil {
		return nil, err
	}
	rf, err := refAddr(chainName, oc.Refund)
	if err != nil {
		return nil, err
	}
	to, err := refAddr(chainName, oc.To)
	if err != nil {
		return nil, err
	}
	data, err := hex.DecodeString(oc.Data)
	if err != nil {
		return nil, err
	}
	memo, err := hex.DecodeString(oc.Memo)
	if err != nil {
		return nil, err
	}
	return abienc.Keccak(abienc.Encode(abienc.Bytes32Str(gravityID), abienc.Bytes32Str("bridgeCall"), abienc.Address(snd), abienc.Address(rf), abienc.AddressArray(toks), abienc.UintArray(amts),
		abienc.Address(to), abienc.Bytes(data), abienc.Bytes(memo), abienc.Uint64(oc.Nonce), abienc.Uint64(oc.Timeout), abienc.Uint64(oc.EventNonce))), nil
}

// repo side
func repoOracleSet(chainName, gid string, set *crosschaintypes.OracleSet) ([]byte, error) {
	if fix.IsTron(chainName) {
		return trontypes.GetCheckpointOracleSet(set, gid)
	}
	return set.GetCheckpoint(gid)
}

func repoBatch(chainName, gid string, b *crosschaintypes.OutgoingTxBatch) ([]byte, error) {
	if fix.IsTron(chainName) {
		return trontypes.GetCheckpointConfirmBatch(b, gid)
	}
	return b.GetCheckpoint(gid)
}

func repoBridgeCall(chainName, gid string, oc *crosschaintypes.OutgoingBridgeCall) ([]byte, error) {
	if fix.IsTron(chainName) {
		return trontypes.GetCheckpointBridgeCall(oc, gid)
	}
	return oc.GetCheckpoint(gid)
}

// ---- part B -----------------------------------------------------------------------------

var boundaryU64 = []uint64{0, 1, 1<<63 - 1, 1 << 63, 1<<64 - 1, 1<<32 - 1, 1 << 32}

type objGen struct {
	rng   *rand.Rand
	chain string
	// boundary: whether the last generated object contains a value >= 2^63
	big bool
}

func (g *objGen) u64() uint64 {
	if g.rng.IntN(6) == 0 {
		v := boundaryU64[g.rng.IntN(len(boundaryU64))]
		if v >= 1<<63 {
			g.big = true
		}
		return v
	}
	if g.rng.IntN(8) == 0 {
		v := g.rng.Uint64()
		if v >= 1<<63 {
			g.big = true
		}
		return v
	}
	return uint64(g.rng.IntN(1_000_000))
}

func (g *objGen) addr() string {
	var a common.Address
	for i := range a {
		a[i] = byte(g.rng.IntN(256))
	}
	if g.rng.IntN(20) == 0 {
		a = common.Address{}
	}
	return fix.ExtAddr(g.chain, a)
}

func (g *objGen) amount() sdkmath.Int {
	switch g.rng.IntN(5) {
	case 0:
		return sdkmath.NewInt(int64(g.rng.IntN(3)))
	case 1:
		return sdkmath.NewIntFromBigInt(new(big.Int).Sub(new(big.Int).Lsh(big.NewInt(1), 256), big.NewInt(1+int64(g.rng.IntN(3)))))
	case 2:
		return sdkmath.NewIntFromUint64(g.rng.Uint64())
	default:
		return sdkmath.NewInt(int64(1 + g.rng.IntN(1_000_000_000)))
	}
}

func (g *objGen) size() int {
	switch g.rng.IntN(6) {
	case 0:
		return 0
	case 1:
		return 100
	default:
		return g.rng.IntN(12)
	}
}

func (g *objGen) blob() string {
	n := 0
	switch g.rng.IntN(6) {
	case 0:
		n = 0
	case 1:
		n = 32 * (1 + g.rng.IntN(4))
	case 2:
		n = 4096
	default:
		n = g.rng.IntN(200)
	}
	b := make([]byte, n)
	for i := range b {
		b[i] = byte(g.rng.IntN(256))
	}
	return hex.EncodeToString(b)
}

func (g *objGen) oracleSet() *crosschaintypes.OracleSet {
	n := g.size()
	s := &crosschaintypes.OracleSet{Nonce: g.u64(), Height: g.u64()}
	for i := 0; i < n; i++ {
		s.Members = append(s.Members, crosschaintypes.BridgeValidator{Power: g.u64(), ExternalAddress: g.addr()})
	}
	return s
}

func (g *objGen) batch() *crosschaintypes.OutgoingTxBatch {
	n := g.size()
	tok := g.addr()
	b := &crosschaintypes.OutgoingTxBatch{BatchNonce: g.u64(), BatchTimeout: g.u64(), TokenContract: tok, Block: g.u64(), FeeReceive: g.addr()}
	for i := 0; i < n; i++ {
		b.Transactions = append(b.Transactions, &crosschaintypes.OutgoingTransferTx{Id: g.u64(), Sender: "fx1", DestAddress: g.addr(),
			Token: crosschaintypes.NewERC20Token(g.amount(), tok), Fee: crosschaintypes.NewERC20Token(g.amount(), tok)})
	}
	return b
}

func (g *objGen) bridgeCall() *crosschaintypes.OutgoingBridgeCall {
	n := g.size()
	oc := &crosschaintypes.OutgoingBridgeCall{Sender: g.addr(), Refund: g.addr(), To: g.addr(), Data: g.blob(), Memo: g.blob(), Nonce: g.u64(), Timeout: g.u64(), BlockHeight: g.u64(), EventNonce: g.u64()}
	for i := 0; i < n; i++ {
		oc.Tokens = append(oc.Tokens, crosschaintypes.NewERC20Token(g.amount(), g.addr()))
	}
	return oc
}

func safeCheckpoint(fn func() ([]byte, error)) (cp []byte, err error, pan interface{}) {
	defer func() {
		if r := recover(); r != nil {
			pan = r
		}
	}()
	cp, err = fn()
	return
}

func c12PartB(spec c12Spec, res *core.CaseResult) {
	g := &objGen{rng: core.Rng(spec.Seed, 12), chain: spec.Chain}
	gids := []string{"fx-bridge-eth", "fx-bridge-bsc", "fx-tron-bridge", "a", "12345678901234567890123456789012"}
	compared := 0
	seen := map[string]string{}
	var samples []string
	for i := 0; i < spec.N; i++ {
		gid := gids[g.rng.IntN(len(gids))]
		g.big = false
		var kind, desc string
		var objBytes []byte
		var repo func() ([]byte, error)
		var ref func() ([]byte, error)
		switch i % 3 {
		case 0:
			kind = "oracle_set"
			o := g.oracleSet()
			os := *o
			os.Height = 0
			objBytes, _ = os.Marshal()
			desc = fmt.Sprintf("nonce=%d members=%d", o.Nonce, len(o.Members))
			repo = func() ([]byte, error) { return repoOracleSet(spec.Chain, gid, o) }
			ref = func() ([]byte, error) { return refOracleSet(spec.Chain, gid, o) }
		case 1:
			kind = "batch"
			o := g.batch()
			ob := *o
			ob.Block, ob.Transactions = 0, nil
			objBytes, _ = ob.Marshal()
			for _, tx := range o.Transactions {
				objBytes = append(objBytes, []byte(fmt.Sprintf("|%s,%s,%s", tx.DestAddress, tx.Token.Amount, tx.Fee.Amount))...)
			}
			desc = fmt.Sprintf("nonce=%d timeout=%d txs=%d", o.BatchNonce, o.BatchTimeout, len(o.Transactions))
			repo = func() ([]byte, error) { return repoBatch(spec.Chain, gid, o) }
			ref = func() ([]byte, error) { return refBatch(spec.Chain, gid, o) }
		default:
			kind = "bridge_call"
			o := g.bridgeCall()
			ob := *o
			ob.BlockHeight = 0
			objBytes, _ = ob.Marshal()
			desc = fmt.Sprintf("nonce=%d timeout=%d event_nonce=%d tokens=%d data=%dB memo=%dB", o.Nonce, o.Timeout, o.EventNonce, len(o.Tokens), len(o.Data)/2, len(o.Memo)/2)
			repo = func() ([]byte, error) { return repoBridgeCall(spec.Chain, gid, o) }
			ref = func() ([]byte, error) { return refBridgeCall(spec.Chain, gid, o) }
		}
		want, err := ref()
		if err != nil {
			continue
		}
		got, err, pan := safeCheckpoint(repo)
		if pan != nil {
			res.Violate("C12/checkpoint-panic/"+kind, "%s checkpoint of %s panicked: %v", kind, desc, pan)
			continue
		}
		if err != nil {
			res.Count("checkpoint_errors", 1)
			continue
		}
		compared++
		res.Count("checkpoints_compared", 1)
		if g.big {
			res.Count("boundary_int_objects", 1)
		}
		if len(samples) < 3 {
			samples = append(samples, fmt.Sprintf("%s/%s gravity=%q %s -> %x", spec.Chain, kind, gid, desc, got))
		}
		if !bytes.Equal(got, want) {
			key := "C12/checkpoint-differs-from-contract-encoding/" + kind
			if g.big {
				key += "/uint64-above-int64"
			}
			res.Violate(key, "%s %s (gravity id %q): fx-core signs over %x, abi.encode per FxBridgeLogic.sol gives %x [%s]", spec.Chain, kind, gid, got, want, desc)
		}
		// separation: the same digest must never stand for two different (gravity id, kind, object)
		id := fmt.Sprintf("%s|%s|%s|%x", gid, kind, desc, abienc.Keccak(objBytes))
		if prev, dup := seen[string(got)]; dup && prev != id {
			res.Violate("C12/digest-collision", "digest %x stands for both %s and %s", got, prev, id)
		}
		seen[string(got)] = id
	}
	res.Nontrivial = compared >= 200
	res.Sig = "B/" + spec.Chain + fmt.Sprint(spec.Seed%4)
	res.Sample = map[string]interface{}{"spec": spec, "objects": samples}
}

// ---- part A -----------------------------------------------------------------------------

type c12Run struct {
	spec             c12Spec
	c                *chain.Chain
	b                *fix.Bridge
	res              *core.CaseResult
	verb             bool
	stored, rejected int
}

func (r *c12Run) gid() string { return r.b.GravityID() }

// verifyStores decodes every stored confirmation and re-verifies it independently.
func (r *c12Run) verifyStores(what string) {
	ctx := r.c.Ctx
	store := ctx.KVStore(r.c.App.GetKVStoreKey()[r.b.Name])
	cdc := r.c.App.AppCodec()
	check := func(kind, obj string, oracleAddr sdk.AccAddress, ext, bridger, sigHex string, digest []byte, derr error) {
		r.res.Count("confirms_stored_verified", 1)
		rec, found := r.b.K.GetOracle(ctx, oracleAddr)
		if !found {
			r.res.Violate("C12/confirm-of-unknown-oracle/"+kind, "%s: stored %s confirm for %s under oracle %s which has no record", what, kind, obj, oracleAddr)
			return
		}
		if derr != nil {
			r.res.Violate("C12/confirm-for-missing-object/"+kind, "%s: stored %s confirm names %s which is not stored: %v", what, kind, obj, derr)
			return
		}
		if rec.ExternalAddress != ext {
			r.res.Violate("C12/confirm-external-address-mismatch/"+kind, "%s: %s confirm of oracle %s carries external address %s, registered is %s", what, kind, oracleAddr, ext, rec.ExternalAddress)
		}
		if rec.BridgerAddress != bridger {
			r.res.Violate("C12/confirm-bridger-mismatch/"+kind, "%s: %s confirm of oracle %s names bridger %s, registered is %s", what, kind, oracleAddr, bridger, rec.BridgerAddress)
		}
		sig, err := hex.DecodeString(sigHex)
		// the external contract takes exactly (v, r, s): 65 bytes, nothing appended
		if err != nil || len(sig) != 65 {
			r.res.Violate("C12/stored-signature-malformed/"+kind, "%s: stored %s confirm for %s carries a signature of %d bytes (hex error: %v); the bridge contract verifies exactly 65 bytes r||s||v", what, kind, obj, len(sig), err)
			return
		}
		sig = append([]byte{}, sig...)
		if sig[64] == 27 || sig[64] == 28 {
			sig[64] -= 27
		}
		prefix := "\x19Ethereum Signed Message:\n32"
		if fix.IsTron(r.b.Name) {
			prefix = "\x19TRON Signed Message:\n32"
		}
		pub, err := crypto.SigToPub(abienc.Keccak(append([]byte(prefix), digest...)), sig)
		if err != nil {
			r.res.Violate("C12/stored-signature-invalid/"+kind, "%s: stored %s confirm for %s: signature does not recover: %v", what, kind, obj, err)
			return
		}
		signer := fix.ExtAddr(r.b.Name, crypto.PubkeyToAddress(*pub))
		if signer != rec.ExternalAddress {
			r.res.Violate("C12/stored-signature-not-by-oracle/"+kind, "%s: stored %s confirm for %s verifies for %s, not for the oracle's external key %s (digest per contract encoding %x)", what, kind, obj, signer, rec.ExternalAddress, digest)
		}
	}
	it := storetypes.KVStorePrefixIterator(store, crosschaintypes.OracleSetConfirmKey)
	for ; it.Valid(); it.Next() {
		var m crosschaintypes.MsgOracleSetConfirm
		if cdc.Unmarshal(it.Value(), &m) != nil {
			continue
		}
		k := it.Key()
		oracleAddr := sdk.AccAddress(k[9:])
		set := r.b.K.GetOracleSet(ctx, m.Nonce)
		var d []byte
		var derr error
		if set == nil {
			derr = fmt.Errorf("oracle set %d", m.Nonce)
		} else {
			d, derr = refOracleSet(r.b.Name, r.gid(), set)
		}
		check("oracle_set", fmt.Sprint(m.Nonce), oracleAddr, m.ExternalAddress, m.BridgerAddress, m.Signature, d, derr)
	}
	it.Close()
	it = storetypes.KVStorePrefixIterator(store, crosschaintypes.BatchConfirmKey)
	for ; it.Valid(); it.Next() {
		var m crosschaintypes.MsgConfirmBatch
		if cdc.Unmarshal(it.Value(), &m) != nil {
			continue
		}
		k := it.Key()
		oracleAddr := sdk.AccAddress(k[len(k)-20:])
		bt := r.b.K.GetOutgoingTxBatch(ctx, m.TokenContract, m.Nonce)
		var d []byte
		var derr error
		if bt == nil {
			derr = fmt.Errorf("batch %s/%d", m.TokenContract, m.Nonce)
		} else {
			d, derr = refBatch(r.b.Name, r.gid(), bt)
		}
		check("batch", fmt.Sprintf("%s/%d", m.TokenContract, m.Nonce), oracleAddr, m.ExternalAddress, m.BridgerAddress, m.Signature, d, derr)
	}
	it.Close()
	it = storetypes.KVStorePrefixIterator(store, crosschaintypes.BridgeCallConfirmKey)
	for ; it.Valid(); it.Next() {
		var m crosschaintypes.MsgBridgeCallConfirm
		if cdc.Unmarshal(it.Value(), &m) != nil {
			continue
		}
		k := it.Key()
		oracleAddr := sdk.AccAddress(k[9:])
		oc, ok := r.b.K.GetOutgoingBridgeCallByNonce(ctx, m.Nonce)
		var d []byte
		var derr error
		if !ok {
			derr = fmt.Errorf("bridge call %d", m.Nonce)
		} else {
			d, derr = refBridgeCall(r.b.Name, r.gid(), oc)
		}
		check("bridge_call", fmt.Sprint(m.Nonce), oracleAddr, m.ExternalAddress, m.BridgerAddress, m.Signature, d, derr)
	}
	it.Close()
}

func (r *c12Run) confirmDump() chain.Dump {
	d := r.c.Dump(r.c.Ctx, r.b.Name)
	out := map[string]string{}
	for k, v := range d[r.b.Name] {
		if len(k) > 0 && (k[0] == crosschaintypes.OracleSetConfirmKey[0] || k[0] == crosschaintypes.BatchConfirmKey[0] || k[0] == crosschaintypes.BridgeCallConfirmKey[0]) {
			out[k] = v
		}
	}
	return chain.Dump{r.b.Name: out}
}

// submit sends msg and feeds the monitor. hostile=true means it must not add or change a confirm.
func (r *c12Run) submit(label string, msg sdk.Msg, hostile bool) bool {
	before := r.confirmDump()
	res := r.c.Msg(msg)
	after := r.confirmDump()
	changed := len(chain.Diff(before, after)) > 0
	if r.verb {
		fmt.Printf("%-40s ok=%v changed=%v %s\n", label, res.OK(), changed, short(res.ErrString()))
	}
	if hostile {
		if changed || res.OK() {
			r.res.Violate("C12/hostile-confirm-accepted/"+label, "confirmation %q was accepted (ok=%v, confirm stores changed=%v)", label, res.OK(), changed)
		} else {
			r.rejected++
			r.res.Count("hostile_confirms_rejected", 1)
		}
	} else if res.OK() {
		r.stored++
		r.res.Count("honest_confirms_accepted", 1)
	}
	r.verifyStores(label)
	return res.OK()
}

func wrapConfirm(chainName, wrapperBridger string, inner crosschaintypes.Confirm) *crosschaintypes.MsgConfirm {
	a, err := codectypes.NewAnyWithValue(inner.(interface {
		Reset()
		String() string
		ProtoMessage()
	}))
	if err != nil {
		panic(err)
	}
	return &crosschaintypes.MsgConfirm{ChainName: chainName, BridgerAddress: wrapperBridger, Confirm: a}
}

func mutSig(sigHex string, how string) string {
	sig, _ := hex.DecodeString(sigHex)
	switch how {
	case "bitflip":
		sig[5] ^= 0x10
	case "truncate":
		sig = sig[:64]
	case "short":
		sig = sig[:10]
	case "wrong-v":
		sig[64] ^= 1
	case "v29":
		sig[64] = 29
	case "extend":
		// keep the first 65 bytes valid, append junk
		sig = append(sig, 0xde, 0xad)
	case "zero":
		sig = make([]byte, 65)
	}
	return hex.EncodeToString(sig)
}

func c12PartA(spec c12Spec, res *core.CaseResult, verbose bool) {
	c := chain.New(chain.Config{Seed: spec.Seed, NumVals: 2, NumUsers: 4, CrosschainParams: func(n string, p *crosschaintypes.Params) { p.SignedWindow = 1000 }})
	w := fix.NewWorld(c)
	stakes := []sdkmath.Int{chain.FX(10000), chain.FX(20000), chain.FX(15000)}
	b, err := w.AddBridge(spec.Chain, stakes)
	if err != nil {
		res.Inconclusive = err.Error()
		return
	}
	other := "bsc"
	b2, err := w.AddBridge(other, stakes) // a second chain with another gravity id, same external keys? no: other keys
	if err != nil {
		res.Inconclusive = err.Error()
		return
	}
	_ = b2
	r := &c12Run{spec: spec, c: c, b: b, res: res, verb: verbose}
	if _, err := c.Next(); err != nil {
		res.Inconclusive = err.Error()
		return
	}
	tok, err := w.AddModuleToken("USDT", spec.Chain)
	if err != nil {
		res.Inconclusive = err.Error()
		return
	}
	user, peer := c.Users[0], c.Users[1]
	if _, err := b.Deposit(peer, tok, sdkmath.NewInt(100000), user.Hex(), user.Acc(), ""); err != nil {
		res.Inconclusive = err.Error()
		return
	}
	// objects: oracle set 1 (created by the first end block), two batches, two bridge calls
	var batchNonces []uint64
	for i := 0; i < 2; i++ {
		for j := 0; j < 1+i; j++ {
			b.SendToExternal(user, peer.Hex(), sdk.NewCoin(tok.Base, sdkmath.NewInt(int64(100+j))), sdk.NewCoin(tok.Base, sdkmath.NewInt(int64(5+i+j))))
		}
		n, rr := b.RequestBatch(b.Oracles[0], tok.Denom[spec.Chain], sdkmath.NewInt(1), sdkmath.ZeroInt(), peer.Hex())
		if !rr.OK() {
			res.Inconclusive = "batch: " + rr.ErrString()
			return
		}
		batchNonces = append(batchNonces, n)
		if _, err := c.Next(); err != nil {
			res.Inconclusive = err.Error()
			return
		}
	}
	for i := 0; i < 2; i++ {
		if rr := b.BridgeCallMsg(user, user.Acc(), sdk.NewCoins(sdk.NewCoin(tok.Base, sdkmath.NewInt(int64(40+i)))), peer.Hex(), []byte{byte(i), 2, 3}, []byte{9}); !rr.OK() {
			res.Inconclusive = "bridge call: " + rr.ErrString()
			return
		}
	}
	tokStr := tok.ExtStr(spec.Chain)
	o0, o1, o2 := b.Oracles[0], b.Oracles[1], b.Oracles[2]
	stranger := c.Users[3]
	set1 := b.K.GetOracleSet(c.Ctx, 1)
	if set1 == nil {
		res.Inconclusive = "no oracle set 1"
		return
	}
	batch1 := b.K.GetOutgoingTxBatch(c.Ctx, tokStr, batchNonces[0])
	batch2 := b.K.GetOutgoingTxBatch(c.Ctx, tokStr, batchNonces[1])
	call1, _ := b.K.GetOutgoingBridgeCallByNonce(c.Ctx, 1)
	call2, _ := b.K.GetOutgoingBridgeCallByNonce(c.Ctx, 2)
	if batch1 == nil || batch2 == nil || call1 == nil || call2 == nil {
		res.Inconclusive = "objects missing"
		return
	}
	sigSet := func(o *fix.Oracle) string { return b.Sign(o, b.OracleSetCheckpoint(set1)) }
	sigBatch := func(o *fix.Oracle, bt *crosschaintypes.OutgoingTxBatch) string {
		return b.Sign(o, b.BatchCheckpoint(bt))
	}
	sigCall := func(o *fix.Oracle, oc *crosschaintypes.OutgoingBridgeCall) string {
		return b.Sign(o, b.BridgeCallCheckpoint(oc))
	}
	mkSet := func(o *fix.Oracle, nonce uint64, sig string) *crosschaintypes.MsgOracleSetConfirm {
		return &crosschaintypes.MsgOracleSetConfirm{Nonce: nonce, BridgerAddress: o.Bridger.Bech32(), ExternalAddress: o.ExtAddr, Signature: sig, ChainName: spec.Chain}
	}
	mkBatch := func(o *fix.Oracle, nonce uint64, sig string) *crosschaintypes.MsgConfirmBatch {
		return &crosschaintypes.MsgConfirmBatch{Nonce: nonce, TokenContract: tokStr, BridgerAddress: o.Bridger.Bech32(), ExternalAddress: o.ExtAddr, Signature: sig, ChainName: spec.Chain}
	}
	mkCall := func(o *fix.Oracle, nonce uint64, sig string) *crosschaintypes.MsgBridgeCallConfirm {
		return &crosschaintypes.MsgBridgeCallConfirm{Nonce: nonce, BridgerAddress: o.Bridger.Bech32(), ExternalAddress: o.ExtAddr, Signature: sig, ChainName: spec.Chain}
	}

	// --- hostile first: nothing may be stored
	for _, how := range []string{"bitflip", "truncate", "short", "wrong-v", "v29", "zero", "extend"} {
		r.submit("set/"+how, mkSet(o0, 1, mutSig(sigSet(o0), how)), true)
		r.submit("batch/"+how, mkBatch(o0, batch1.BatchNonce, mutSig(sigBatch(o0, batch1), how)), true)
		r.submit("call/"+how, mkCall(o0, 1, mutSig(sigCall(o0, call1), how)), true)
	}
	// transplanted signatures
	r.submit("batch/sig-of-other-batch", mkBatch(o0, batch1.BatchNonce, sigBatch(o0, batch2)), true)
	r.submit("call/sig-of-other-call", mkCall(o0, 1, sigCall(o0, call2)), true)
	r.submit("batch/sig-of-oracle-set", mkBatch(o0, batch1.BatchNonce, sigSet(o0)), true)
	r.submit("set/sig-of-batch", mkSet(o0, 1, sigBatch(o0, batch1)), true)
	r.submit("call/sig-of-batch", mkCall(o0, 1, sigBatch(o0, batch1)), true)
	r.submit("set/sig-of-other-oracle", mkSet(o0, 1, sigSet(o1)), true)
	r.submit("batch/sig-of-other-oracle", mkBatch(o0, batch1.BatchNonce, sigBatch(o1, batch1)), true)
	// a signature made for another chain's gravity id (same object content)
	otherGid := b2.GravityID()
	if cp, err := repoBatch(spec.Chain, otherGid, batch1); err == nil {
		r.submit("batch/sig-for-other-gravity-id", mkBatch(o0, batch1.BatchNonce, b.Sign(o0, cp)), true)
	}
	if cp, err := repoOracleSet(spec.Chain, otherGid, set1); err == nil {
		r.submit("set/sig-for-other-gravity-id", mkSet(o0, 1, b.Sign(o0, cp)), true)
	}
	// eth-prefix signature on tron and vice versa
	{
		cp := b.BatchCheckpoint(batch1)
		var sig []byte
		if fix.IsTron(spec.Chain) {
			sig, _ = crosschaintypes.NewEthereumSignature(cp, o0.Ext)
		} else {
			sig, _ = trontypes.NewTronSignature(cp, o0.Ext)
		}
		r.submit("batch/sig-with-other-chain-prefix", mkBatch(o0, batch1.BatchNonce, hex.EncodeToString(sig)), true)
	}
	// wrong bridger: o1's bridger submits o0's confirm; a stranger; o0's external address claimed by o1
	{
		m := mkBatch(o0, batch1.BatchNonce, sigBatch(o0, batch1))
		m.BridgerAddress = o1.Bridger.Bech32()
		r.submit("batch/other-oracles-bridger", m, true)
		m2 := mkBatch(o0, batch1.BatchNonce, sigBatch(o0, batch1))
		m2.BridgerAddress = stranger.Bech32()
		r.submit("batch/stranger-bridger", m2, true)
		m3 := mkSet(o1, 1, sigSet(o0))
		m3.ExternalAddress = o0.ExtAddr
		r.submit("set/foreign-external-address", m3, true)
		m4 := mkCall(o0, 1, sigCall(o0, call1))
		m4.ExternalAddress = fix.ExtAddr(spec.Chain, stranger.Hex())
		r.submit("call/unknown-external-address", m4, true)
	}
	// objects that do not exist
	r.submit("set/unknown-nonce", mkSet(o0, 77, sigSet(o0)), true)
	r.submit("batch/unknown-nonce", mkBatch(o0, 77, sigBatch(o0, batch1)), true)
	{
		// the nonce of a stored batch under another (well-formed) token contract: no such batch
		m := mkBatch(o0, batch1.BatchNonce, sigBatch(o0, batch1))
		m.TokenContract = fix.ExtAddr(spec.Chain, stranger.Hex())
		r.submit("batch/other-token-contract", m, true)
		m2 := mkBatch(o0, batch2.BatchNonce, sigBatch(o0, batch2))
		m2.TokenContract = fix.ExtAddr(spec.Chain, fix.TokenAddr(spec.Seed, "nosuchtoken", 0))
		r.submit("batch/unknown-token-contract", m2, true)
	}
	r.submit("call/unknown-nonce", mkCall(o0, 77, sigCall(o0, call1)), true)
	// wrapper whose bridger (the transaction signer) is not the oracle's bridger
	{
		inner := mkBatch(o2, batch2.BatchNonce, sigBatch(o2, batch2))
		msg := wrapConfirm(spec.Chain, stranger.Bech32(), inner)
		signers, _ := c.RequiredSigners(msg)
		before := r.confirmDump()
		rr := c.Msg(msg)
		changed := len(chain.Diff(before, r.confirmDump())) > 0
		signed := false
		for _, s := range signers {
			if s.Equals(o2.Bridger.Acc()) {
				signed = true
			}
		}
		if changed && !signed {
			res.Violate("C12/confirm-stored-without-bridger-signature", "a MsgConfirm whose only required signer is %s stored a batch confirmation for oracle %s (bridger %s): ok=%v", stranger.Bech32(), o2.Oracle.Bech32(), o2.Bridger.Bech32(), rr.OK())
		} else if !changed {
			r.rejected++
			res.Count("hostile_confirms_rejected", 1)
		}
		r.verifyStores("wrapper-mismatch")
	}
	// --- honest confirms (direct messages and through the wrapper), then duplicates
	r.submit("set/honest-o0", mkSet(o0, 1, sigSet(o0)), false)
	r.submit("set/honest-o1-wrapped", wrapConfirm(spec.Chain, o1.Bridger.Bech32(), mkSet(o1, 1, sigSet(o1))), false)
	r.submit("batch1/honest-o0", mkBatch(o0, batch1.BatchNonce, sigBatch(o0, batch1)), false)
	r.submit("batch2/honest-o0", mkBatch(o0, batch2.BatchNonce, sigBatch(o0, batch2)), false)
	r.submit("batch1/honest-o1", mkBatch(o1, batch1.BatchNonce, sigBatch(o1, batch1)), false)
	r.submit("call1/honest-o0", mkCall(o0, 1, sigCall(o0, call1)), false)
	r.submit("call2/honest-o1-wrapped", wrapConfirm(spec.Chain, o1.Bridger.Bech32(), mkCall(o1, 2, sigCall(o1, call2))), false)
	// v = 27/28 form of a valid signature is the form the contract takes
	{
		sig, _ := hex.DecodeString(sigCall(o2, call1))
		sig[64] += 27
		r.submit("call1/honest-o2-v27", mkCall(o2, 1, hex.EncodeToString(sig)), false)
	}
	r.submit("set/duplicate-o0", mkSet(o0, 1, sigSet(o0)), true)
	r.submit("batch1/duplicate-o0", mkBatch(o0, batch1.BatchNonce, sigBatch(o0, batch1)), true)
	r.submit("call1/duplicate-o0", mkCall(o0, 1, sigCall(o0, call1)), true)
	{
		// malleated duplicate (r, n-s, v^1): same signer, other bytes; must not replace or add
		sig, _ := hex.DecodeString(sigBatch(o0, batch1))
		n := crypto.S256().Params().N
		s := new(big.Int).SetBytes(sig[32:64])
		s.Sub(n, s)
		sb := s.Bytes()
		copy(sig[32:64], make([]byte, 32))
		copy(sig[64-len(sb):64], sb)
		sig[64] ^= 1
		r.submit("batch1/malleated-duplicate-o0", mkBatch(o0, batch1.BatchNonce, hex.EncodeToString(sig)), true)
	}
	// the module's store migration (run by the upgrade that introduced the bridge-call parameters) on
	// parameters as the previous binary left them: the bridge id that every digest is bound to, and with
	// it the digest of a stored object, must come through unchanged
	{
		ctx := c.Branch()
		p0 := b.K.GetParams(ctx)
		old := p0
		old.BridgeCallTimeout, old.BridgeCallMaxGasLimit = 0, 0
		ctx.KVStore(c.App.GetKVStoreKey()[spec.Chain]).Set(crosschaintypes.ParamsKey, c.App.AppCodec().MustMarshal(&old))
		d0 := b.BridgeCallCheckpoint(call1)
		var err error
		if p, what := guard(func() { err = crosschainkeeper.NewMigrator(b.K).Migrate(ctx) }); p {
			err = fmt.Errorf("panic: %s", what)
		}
		res.Count("store_migrations_run", 1)
		p1 := b.K.GetParams(ctx)
		if err != nil {
			res.Violate("C12/store-migration-failed", "the %s store migration fails on pre-upgrade parameters: %v", spec.Chain, err)
		} else if p1.GravityId != p0.GravityId {
			res.Violate("C12/gravity-id-changed-by-migration", "the %s store migration changed the bridge id from %q to %q: every stored and future confirmation is now checked against a digest the external contract does not compute", spec.Chain, p0.GravityId, p1.GravityId)
		} else {
			cp, cerr := call1.GetCheckpoint(p1.GravityId)
			if fix.IsTron(spec.Chain) {
				cp, cerr = d0, nil
			}
			if cerr != nil || !bytes.Equal(cp, d0) {
				res.Violate("C12/digest-changed-by-migration", "the digest of stored bridge call %d differs after the store migration (%x -> %x, %v)", call1.Nonce, d0, cp, cerr)
			}
		}
	}
	res.Nontrivial = r.stored >= 3 && r.rejected >= 10
	res.Sig = "A/" + spec.Chain
	res.Sample = map[string]interface{}{"spec": spec, "stored": r.stored, "rejected": r.rejected}
}
