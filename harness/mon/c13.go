package mon

import (
	"bytes"
	"encoding/json"
	"fmt"
	"sort"
	"time"

	sdkmath "cosmossdk.io/math"
	storetypes "cosmossdk.io/store/types"
	sdk "github.com/cosmos/cosmos-sdk/types"

	fxtypes "github.com/functionx/fx-core/v8/types"
	crosschaintypes "github.com/functionx/fx-core/v8/x/crosschain/types"

	"verif/harness/chain"
	"verif/harness/core"
	"verif/harness/fix"
)

// C13: oracle registry one-to-one; stake recoverable; only missed signing is slashed.

type c13Spec struct {
	Seed     uint64 `json:"seed"`
	Chain    string `json:"chain"`
	N        int    `json:"n"`
	Steps    int    `json:"steps"`
	Window   uint64 `json:"window"`
	ValSlash bool   `json:"val_slash"`
	// HighPenalty: governance raises the penalty fraction to its legal maximum (1) during the history and before
	// the closing unbonds; the chain's module account escrows FX of a queued transfer meanwhile
	HighPenalty bool `json:"high_penalty,omitempty"`
}

func init() {
	core.Register(&core.Prop{
		ID:    "C13",
		Level: "exploration",
		Rule: "seeded histories of bond / add-delegate / re-delegate / edit-bridger / withdraw-reward / lazy or diligent confirming / governance oracle-list updates / unbond (too early and after the real 21-day unbonding period) over several oracles and validators, " +
			"optionally with validator double-sign slashing; after every operation the raw record and index stores are cross-checked, every stake movement is measured on bank + staking, every slash in an end block must be justified by an aged unconfirmed object. " +
			"Non-trivial: a history with >=1 slash and >=1 completed removal->maturity->unbond life cycle; distinct by (chain, N, #slashes, #lifecycles, validator-slash)",
		Assumptions: []string{
			"operations enter through the real message router; unbonding maturity is reached by virtual block time and the real staking end blocker",
			"rewards are bounded below by zero only (zero inflation, zero fees in the harness genesis), so 'stake minus penalties' is checked as an exact amount",
		},
		Cases:            c13Cases,
		Run:              runC13,
		MinNontrivial:    5,
		RequiredCounters: []string{"index_checks", "bonds", "slashes_observed", "lifecycles_completed", "unbond_too_early_attempts"},
	})
}

func c13Cases(seed uint64, tier string) []core.Case {
	rng := core.Rng(seed, 0xC13)
	n := 32
	if tier == "thorough" {
		n = 400
	}
	chains := []string{"eth", "bsc", "tron", "polygon"}
	var out []core.Case
	for i := 0; i < n; i++ {
		out = append(out, core.MkCase(fmt.Sprintf("C13-%03d", i), c13Spec{Seed: rng.Uint64(), Chain: chains[i%len(chains)], N: 3 + rng.IntN(4),
			Steps: 60 + rng.IntN(60), Window: uint64(3 + rng.IntN(6)), ValSlash: i%4 == 3, HighPenalty: i%8 == 7}))
	}
	return out
}

type c13Oracle struct {
	o              *fix.Oracle
	lazy           bool
	removed        bool
	gone           bool        // unbonded: records deleted
	paidIn         sdkmath.Int // total FX transferred by the oracle account into stake (net of burnt penalties)
	penalty        sdkmath.Int // penalties charged (burnt)
	payouts        int
	stakeAtRemoval sdkmath.Int
	removedAt      time.Time
}

type c13Run struct {
	slashFraction       sdkmath.LegacyDec // the penalty fraction of the genesis parameters (governance switches it to zero, to one, and back)
	spec                c13Spec
	c                   *chain.Chain
	b                   *fix.Bridge
	res                 *core.CaseResult
	verb                bool
	os                  []*c13Oracle
	slashes, lifecycles int
	lastRec             map[int]string
	joined              map[string]uint64 // model: height at which the oracle last came online (bond or rejoin)
	wasOnline           map[string]bool
	valSlashed          bool // a validator was slashed: share/token rate != 1, share conversions truncate
}

// same compares two stake totals. Once a validator has been slashed the SDK's share arithmetic
// truncates on every conversion (delegate, undelegate, redelegate: at most one base unit, 1e-18 FX,
// each; a total that mixes truncated share values and exact unbonding balances moves by that much in either direction); that dust is staking-module behaviour, not part of this property.
func (r *c13Run) same(before, after sdkmath.Int) bool {
	if after.Equal(before) {
		return true
	}
	if !r.valSlashed {
		return false
	}
	return before.Sub(after).Abs().LTE(sdkmath.NewInt(2))
}

func (r *c13Run) logf(f string, a ...interface{}) {
	if r.verb {
		fmt.Printf(f+"\n", a...)
	}
}

func runC13(cs core.Case, verbose bool) core.CaseResult {
	var spec c13Spec
	res := core.CaseResult{}
	if err := json.Unmarshal(cs.Spec, &spec); err != nil {
		res.Inconclusive = err.Error()
		return res
	}
	r := &c13Run{spec: spec, res: &res, verb: verbose}
	r.run()
	res.Nontrivial = r.slashes > 0 && r.lifecycles > 0
	res.Sig = fmt.Sprintf("%s/n%d/s%d/l%d/v%v", spec.Chain, spec.N, r.slashes, r.lifecycles, spec.ValSlash)
	if res.Sample == nil {
		res.Sample = map[string]interface{}{"spec": spec, "slashes": r.slashes, "lifecycles": r.lifecycles}
	}
	return res
}

// rawPrefix iterates the raw crosschain store of the bridge.
func (r *c13Run) rawPrefix(prefix []byte, fn func(k, v []byte)) {
	store := r.c.Ctx.KVStore(r.c.App.GetKVStoreKey()[r.b.Name])
	it := storetypes.KVStorePrefixIterator(store, prefix)
	defer it.Close()
	for ; it.Valid(); it.Next() {
		fn(it.Key(), it.Value())
	}
}

// checkIndexes: records <-> bridger index <-> external index form a bijection.
func (r *c13Run) checkIndexes(what string) {
	r.trackJoins()
	r.res.Count("index_checks", 1)
	cdc := r.c.App.AppCodec()
	records := map[string]crosschaintypes.Oracle{}
	byBridger := map[string]string{}
	byExt := map[string]string{}
	r.rawPrefix(crosschaintypes.OracleKey, func(k, v []byte) {
		var o crosschaintypes.Oracle
		if err := cdc.Unmarshal(v, &o); err != nil {
			r.res.Violate("C13/undecodable-oracle-record", "%s: %v", what, err)
			return
		}
		if sdk.AccAddress(k[1:]).String() != o.OracleAddress {
			r.res.Violate("C13/record-key-mismatch", "%s: record stored under %s names oracle %s", what, sdk.AccAddress(k[1:]), o.OracleAddress)
		}
		records[o.OracleAddress] = o
		if prev, dup := byBridger[o.BridgerAddress]; dup {
			r.res.Violate("C13/bridger-shared", "%s: bridger %s belongs to oracles %s and %s", what, o.BridgerAddress, prev, o.OracleAddress)
		}
		byBridger[o.BridgerAddress] = o.OracleAddress
		if prev, dup := byExt[o.ExternalAddress]; dup {
			r.res.Violate("C13/external-shared", "%s: external address %s belongs to oracles %s and %s", what, o.ExternalAddress, prev, o.OracleAddress)
		}
		byExt[o.ExternalAddress] = o.OracleAddress
	})
	nb, ne := 0, 0
	r.rawPrefix(crosschaintypes.OracleAddressByBridgerKey, func(k, v []byte) {
		nb++
		bridger, oracle := sdk.AccAddress(k[1:]).String(), sdk.AccAddress(v).String()
		if byBridger[bridger] != oracle {
			r.res.Violate("C13/bridger-index-stale", "%s: bridger index %s -> %s but the records say %q", what, bridger, oracle, byBridger[bridger])
		}
	})
	r.rawPrefix(crosschaintypes.OracleAddressByExternalKey, func(k, v []byte) {
		ne++
		ext, oracle := string(k[1:]), sdk.AccAddress(v).String()
		if byExt[ext] != oracle {
			r.res.Violate("C13/external-index-stale", "%s: external index %s -> %s but the records say %q", what, ext, oracle, byExt[ext])
		}
	})
	if nb != len(records) || ne != len(records) {
		r.res.Violate("C13/index-count-mismatch", "%s: %d records, %d bridger index entries, %d external index entries", what, len(records), nb, ne)
	}
	// what is recorded as an online oracle's stake (its voting power and the base of its penalties) is
	// held for it: delegated, unbonding or liquid at its delegate address. (Validator slashing takes
	// from the delegation without touching the record: histories with a slashed validator are exempt.)
	if !r.valSlashed {
		for i, m := range r.os {
			rec, ok := records[m.o.Oracle.Bech32()]
			if !ok || !rec.Online {
				continue
			}
			if held := r.total(m.o); rec.DelegateAmount.GT(held.AddRaw(2)) {
				l, d, u := r.stakeOf(m.o)
				r.res.Violate("C13/recorded-stake-not-held", "%s: online oracle %d has a recorded stake of %s (its voting power) but only %s is held for it (liquid %s, delegated %s, unbonding %s)", what, i, rec.DelegateAmount, held, l, d, u)
			}
		}
	}
	// bonded records only for governance-approved addresses or removed (offline) ones
	threshold := r.b.K.GetOracleDelegateThreshold(r.c.Ctx).Amount
	max := threshold.MulRaw(r.b.K.GetOracleDelegateMultiple(r.c.Ctx))
	for addr, o := range records {
		if o.Online && !r.b.K.IsProposalOracle(r.c.Ctx, addr) {
			r.res.Violate("C13/online-oracle-not-approved", "%s: oracle %s is online but not in the governance list", what, addr)
		}
		if o.Online && o.SlashTimes != 0 {
			// a penalty is counted when an oracle is taken offline and settled when it comes back: an online
			// oracle carries none (a stale count would be charged again at the next occasion)
			r.res.Violate("C13/online-oracle-carries-penalty-count", "%s: online oracle %s has a penalty count of %d", what, addr, o.SlashTimes)
		}
		if o.Online && (o.DelegateAmount.LT(threshold) || o.DelegateAmount.GT(max)) {
			r.res.Violate("C13/stake-out-of-bounds", "%s: online oracle %s has recorded stake %s outside [%s, %s]", what, addr, o.DelegateAmount, threshold, max)
		}
	}
}

// genesisRoundTrip: export, wipe and import of the bridge module on a branch (a restart from an exported
// genesis). The registry is part of what has to survive: every record, online or not, and both indexes,
// byte for byte; an offline oracle that is dropped could never withdraw its stake, and its bridger and external
// address would be free for somebody else.
func (r *c13Run) genesisRoundTrip(what string) {
	_, diffs, err := r.b.GenesisRoundTrip()
	if err != nil {
		r.res.Violate("C13/genesis-round-trip-failed", "%s: export / import of the %s module: %v", what, r.b.Name, err)
		return
	}
	r.res.Count("genesis_round_trips", 1)
	offline := 0
	for _, m := range r.os {
		if rec, ok := r.b.K.GetOracle(r.c.Ctx, m.o.Oracle.Acc()); ok && !rec.Online {
			offline++
		}
	}
	if offline > 0 {
		r.res.Count("genesis_round_trips_with_an_offline_oracle", 1)
	}
	for _, d := range diffs {
		if len(d.Key) == 0 {
			continue
		}
		for name, p := range map[string][]byte{"record": crosschaintypes.OracleKey, "bridger-index": crosschaintypes.OracleAddressByBridgerKey, "external-index": crosschaintypes.OracleAddressByExternalKey} {
			if bytes.HasPrefix(d.Key, p) {
				r.res.Violate("C13/registry-changed-by-genesis-round-trip/"+name, "%s: after export and import of the module's genesis the oracle %s entry %x differs: before %x (present %v), after %x (present %v); %d oracle(s) offline at the time", what, name, d.Key, d.A, d.InA, d.B, d.InB, offline)
			}
		}
	}
}

// trackJoins keeps the model's "joined at" height: the block in which an oracle record appeared
// online or an offline oracle came back online. It is the reference for "created after it joined";
// the stored start height is what is being checked, not what is trusted.
func (r *c13Run) trackJoins() {
	if r.verb {
		for i, m := range r.os {
			if rec, ok := r.b.K.GetOracle(r.c.Ctx, m.o.Oracle.Acc()); ok {
				l, d, u := r.stakeOf(m.o)
				line := fmt.Sprintf("o%d online=%v recorded=%s slashTimes=%d start=%d | liquid=%s delegated=%s unbonding=%s", i, rec.Online, rec.DelegateAmount, rec.SlashTimes, rec.StartHeight, l, d, u)
				if r.lastRec == nil {
					r.lastRec = map[int]string{}
				}
				if r.lastRec[i] != line {
					r.lastRec[i] = line
					fmt.Printf("  [h=%d] %s\n", r.c.Height, line)
				}
			}
		}
	}
	if r.joined == nil {
		r.joined, r.wasOnline = map[string]uint64{}, map[string]bool{}
	}
	seen := map[string]bool{}
	for _, o := range r.b.K.GetAllOracles(r.c.Ctx, false) {
		seen[o.OracleAddress] = true
		if o.Online && !r.wasOnline[o.OracleAddress] {
			r.joined[o.OracleAddress] = uint64(r.c.Height)
		}
		r.wasOnline[o.OracleAddress] = o.Online
	}
	for a := range r.wasOnline {
		if !seen[a] {
			delete(r.wasOnline, a)
		}
	}
}

// stakeOf = FX held for the oracle at its delegate address: liquid + delegated + unbonding.
func (r *c13Run) stakeOf(o *fix.Oracle) (liquid, delegated, unbonding sdkmath.Int) {
	ctx := r.c.Ctx
	da := (&crosschaintypes.Oracle{OracleAddress: o.Oracle.Bech32()}).GetDelegateAddress(r.b.Name)
	liquid = r.c.Balance(ctx, da, fxtypes.DefaultDenom)
	delegated, unbonding = sdkmath.ZeroInt(), sdkmath.ZeroInt()
	dels, _ := r.c.App.StakingKeeper.GetAllDelegatorDelegations(ctx, da)
	for _, d := range dels {
		va, _ := sdk.ValAddressFromBech32(d.ValidatorAddress)
		v, err := r.c.App.StakingKeeper.GetValidator(ctx, va)
		if err == nil {
			delegated = delegated.Add(v.TokensFromShares(d.Shares).TruncateInt())
		}
	}
	ubds, _ := r.c.App.StakingKeeper.GetAllUnbondingDelegations(ctx, da)
	for _, u := range ubds {
		for _, e := range u.Entries {
			unbonding = unbonding.Add(e.Balance)
		}
	}
	return
}

func (r *c13Run) total(o *fix.Oracle) sdkmath.Int {
	l, d, u := r.stakeOf(o)
	return l.Add(d).Add(u)
}

type pendingObj struct {
	kind   string
	id     string
	height uint64
	conf   map[string]bool // external addresses that confirmed
}

func (r *c13Run) pendingObjects() []pendingObj {
	ctx := r.c.Ctx
	k := r.b.K
	var out []pendingObj
	for _, set := range k.GetOracleSets(ctx) {
		p := pendingObj{kind: "oracle_set", id: fmt.Sprint(set.Nonce), height: set.Height, conf: map[string]bool{}}
		k.IterateOracleSetConfirmByNonce(ctx, set.Nonce, func(c *crosschaintypes.MsgOracleSetConfirm) bool { p.conf[c.ExternalAddress] = true; return false })
		out = append(out, p)
	}
	for _, bt := range k.GetOutgoingTxBatches(ctx) {
		p := pendingObj{kind: "batch", id: fmt.Sprintf("%s/%d", bt.TokenContract, bt.BatchNonce), height: bt.Block, conf: map[string]bool{}}
		k.IterateBatchConfirmByNonceAndTokenContract(ctx, bt.BatchNonce, bt.TokenContract, func(c *crosschaintypes.MsgConfirmBatch) bool { p.conf[c.ExternalAddress] = true; return false })
		out = append(out, p)
	}
	k.IterateOutgoingBridgeCalls(ctx, func(oc *crosschaintypes.OutgoingBridgeCall) bool {
		p := pendingObj{kind: "bridge_call", id: fmt.Sprint(oc.Nonce), height: oc.BlockHeight, conf: map[string]bool{}}
		k.IterBridgeCallConfirmByNonce(ctx, oc.Nonce, func(c *crosschaintypes.MsgBridgeCallConfirm) bool { p.conf[c.ExternalAddress] = true; return false })
		out = append(out, p)
		return false
	})
	return out
}

// block ends the block and checks that every slash is justified.
func (r *c13Run) block(dt time.Duration) bool {
	c := r.c
	before := map[string]crosschaintypes.Oracle{}
	for _, o := range r.b.K.GetAllOracles(c.Ctx, false) {
		before[o.OracleAddress] = o
	}
	pend := r.pendingObjects()
	h := uint64(c.Height)
	if _, err := c.EndBlock(dt); err != nil {
		r.res.Inconclusive = "block failed (C07 territory): " + short(err.Error())
		return false
	}
	for _, o := range r.b.K.GetAllOracles(c.Ctx, false) {
		b, ok := before[o.OracleAddress]
		if !ok {
			continue
		}
		if (b.Online && !o.Online) || o.SlashTimes > b.SlashTimes {
			r.slashes++
			r.res.Count("slashes_observed", 1)
			justified := false
			for _, p := range pend {
				if p.height+r.spec.Window <= h && r.joined[b.OracleAddress] <= p.height && !p.conf[b.ExternalAddress] {
					justified = true
				}
			}
			if !justified {
				var ps []string
				for _, p := range pend {
					ps = append(ps, fmt.Sprintf("%s#%s@%d conf=%v", p.kind, p.id, p.height, p.conf[b.ExternalAddress]))
				}
				sort.Strings(ps)
				r.res.Violate("C13/slashed-without-missed-signing", "oracle %s (joined at height %d, stored start height %d) was taken offline in end block %d although no oracle set / batch / bridge call created after it joined was left unconfirmed by it for the signed window %d; pending: %v",
					o.OracleAddress, r.joined[b.OracleAddress], b.StartHeight, h, r.spec.Window, ps)
			}
		}
	}
	r.checkIndexes("end-block")
	return true
}

func (r *c13Run) run() {
	spec := r.spec
	c := chain.New(chain.Config{Seed: spec.Seed, NumVals: 3, NumUsers: 3,
		CrosschainParams: func(name string, p *crosschaintypes.Params) { p.SignedWindow = spec.Window }})
	r.c = c
	rng := core.Rng(spec.Seed, 13)
	w := fix.NewWorld(c)
	threshold := chain.FX(10000)
	var stakes []sdkmath.Int
	for i := 0; i < spec.N; i++ {
		stakes = append(stakes, threshold.Add(chain.FX(int64(rng.IntN(30000)))))
	}
	// balances before bonding
	b := &fix.Bridge{C: c, Name: spec.Chain, K: fix.KeeperOf(c, spec.Chain), ExtHeight: 1000}
	r.b = b
	w.Bridges[spec.Chain] = b
	var addrs []string
	for i := 0; i < spec.N+2; i++ {
		o := fix.NewOracle(c, spec.Chain, i)
		b.Oracles = append(b.Oracles, o)
		fix.Fund(c, o.Oracle.Acc(), chain.FXCoin(1_000_000))
		r.os = append(r.os, &c13Oracle{o: o, lazy: rng.IntN(3) == 0, paidIn: sdkmath.ZeroInt(), penalty: sdkmath.ZeroInt()})
		if i < spec.N {
			addrs = append(addrs, o.Oracle.Bech32())
		}
	}
	// an address that is not on the governance list must not be able to bond
	if res := b.Bond(b.Oracles[0], stakes[0]); res.OK() {
		r.res.Violate("C13/bond-without-approval", "oracle bonded before governance approved any oracle")
	}
	if res := c.Msg(&crosschaintypes.MsgUpdateChainOracles{ChainName: spec.Chain, Oracles: addrs, Authority: chain.GovAuthority()}); !res.OK() {
		r.res.Inconclusive = res.ErrString()
		return
	}
	for i := 0; i < spec.N; i++ {
		r.bond(i, stakes[i])
	}
	// stake bounds
	if res := b.Bond(b.Oracles[spec.N], threshold.SubRaw(1)); res.OK() {
		r.res.Violate("C13/bond-below-threshold", "bond below the threshold accepted")
	}
	r.checkIndexes("setup")
	if !r.block(0) {
		return
	}
	tok, err := w.AddModuleToken("USDT", spec.Chain)
	if err != nil {
		r.res.Inconclusive = err.Error()
		return
	}
	user, other := c.Users[0], c.Users[1]
	if _, err := b.Deposit(other, tok, sdkmath.NewInt(100000), user.Hex(), user.Acc(), ""); err != nil {
		r.res.Inconclusive = err.Error()
		return
	}
	if spec.HighPenalty {
		// FX of a queued transfer is escrowed in the chain's module account: the account through which the
		// penalties are burnt
		fxTok, err := w.AddFXToken(spec.Chain)
		if err != nil {
			r.res.Inconclusive = err.Error()
			return
		}
		if _, res := b.SendToExternal(user, other.Hex(), sdk.NewCoin(fxTok.Base, chain.FX(50000)), sdk.NewCoin(fxTok.Base, chain.FX(10))); !res.OK() {
			r.res.Inconclusive = "escrow fixture: " + res.ErrString()
			return
		}
		r.res.Count("histories_with_fx_escrow_and_maximal_penalty", 1)
	}
	for step := 0; step < spec.Steps && r.res.Inconclusive == ""; step++ {
		i := rng.IntN(spec.N)
		m := r.os[i]
		o := m.o
		rec, found := b.K.GetOracle(c.Ctx, o.Oracle.Acc())
		switch x := rng.IntN(100); {
		case x < 12: // diligent oracles confirm
			var ds []*fix.Oracle
			for _, q := range r.os {
				if !q.lazy && !q.gone {
					ds = append(ds, q.o)
				}
			}
			b.ConfirmAllPending(ds)
		case x < 22: // something to sign
			if rng.IntN(2) == 0 {
				if _, res := b.SendToExternal(user, other.Hex(), sdk.NewCoin(tok.Base, sdkmath.NewInt(10)), sdk.NewCoin(tok.Base, sdkmath.NewInt(1))); res.OK() {
					b.RequestBatch(b.Oracles[0], tok.Denom[spec.Chain], sdkmath.NewInt(1), sdkmath.ZeroInt(), other.Hex())
				}
			} else {
				b.BridgeCallMsg(user, user.Acc(), sdk.NewCoins(sdk.NewCoin(tok.Base, sdkmath.NewInt(5))), other.Hex(), []byte{1}, nil)
			}
		case x < 32: // add delegate (re-bond if slashed)
			if found && !m.removed {
				extra := chain.FX(int64(1 + rng.IntN(5000)))
				if rng.IntN(5) == 0 {
					// up to the configured maximum exactly, one unit beyond it, or well beyond it with a request
					// that is itself below the maximum
					thr := r.b.K.GetOracleDelegateThreshold(c.Ctx).Amount
					room := thr.MulRaw(r.b.K.GetOracleDelegateMultiple(c.Ctx)).Sub(rec.DelegateAmount)
					if room.IsPositive() {
						extra = []sdkmath.Int{room, room.AddRaw(1), room.Add(thr)}[rng.IntN(3)]
						fix.Fund(c, r.os[i].o.Oracle.Acc(), sdk.NewCoin(fxtypes.DefaultDenom, extra.Add(rec.GetSlashAmount(r.b.K.GetSlashFraction(c.Ctx)))))
						r.res.Count("add_delegates_at_the_maximum", 1)
					}
				}
				r.addDelegate(i, rec, extra)
			}
		case x < 38: // hostile duplicates: same bridger / external address for another oracle
			j := spec.N + rng.IntN(2)
			dup := *r.os[j].o
			// the victim: preferably an oracle that is registered but offline (slashed, or removed and waiting for
			// its stake): its identity is taken all the same
			victim, vi, vfound := o, i, found
			for k, q := range r.os[:spec.N] {
				if rec2, ok := b.K.GetOracle(c.Ctx, q.o.Oracle.Acc()); ok && !rec2.Online && rng.IntN(2) == 0 {
					victim, vi, vfound = q.o, k, true
					r.res.Count("duplicate_identity_of_an_offline_oracle_attempts", 1)
					break
				}
			}
			if rng.IntN(2) == 0 {
				dup.Bridger = victim.Bridger
			} else {
				dup.ExtAddr = victim.ExtAddr
			}
			// on a branch: governance approves j first, so that only the uniqueness rule can refuse
			br := c.Branch()
			var approved []string
			for k, q := range r.os {
				if (k < spec.N && !q.removed) || k == j {
					approved = append(approved, q.o.Oracle.Bech32())
				}
			}
			if ar := c.MsgOn(br, &crosschaintypes.MsgUpdateChainOracles{ChainName: spec.Chain, Oracles: approved, Authority: chain.GovAuthority()}); !ar.OK() {
				break
			}
			res := c.MsgOn(br, &crosschaintypes.MsgBondedOracle{OracleAddress: dup.Oracle.Bech32(), BridgerAddress: dup.Bridger.Bech32(), ExternalAddress: dup.ExtAddr,
				ValidatorAddress: dup.Val.String(), DelegateAmount: sdk.NewCoin(fxtypes.DefaultDenom, threshold), ChainName: spec.Chain})
			r.res.Count("duplicate_identity_bonds_tried", 1)
			if res.OK() && vfound {
				r.res.Violate("C13/duplicate-identity-accepted", "a second (approved) oracle bonded with oracle %d's bridger or external address", vi)
			}
			// positive control of the branch: with its own identity the approved newcomer can bond
			if rng.IntN(4) == 0 {
				own := r.os[j].o
				if pr := c.MsgOn(br, &crosschaintypes.MsgBondedOracle{OracleAddress: own.Oracle.Bech32(), BridgerAddress: own.Bridger.Bech32(), ExternalAddress: own.ExtAddr,
					ValidatorAddress: own.Val.String(), DelegateAmount: sdk.NewCoin(fxtypes.DefaultDenom, threshold), ChainName: spec.Chain}); pr.OK() {
					r.res.Count("duplicate_identity_controls_ok", 1)
				}
			}
		case x < 44: // edit bridger / redelegate / withdraw reward / governance switches the penalty off and on
			switch rng.IntN(4) {
			case 3:
				p := b.K.GetParams(c.Ctx)
				if r.slashFraction.IsNil() {
					r.slashFraction = p.SlashFraction
				}
				if !p.SlashFraction.Equal(r.slashFraction) {
					p.SlashFraction = r.slashFraction
				} else if spec.HighPenalty && rng.IntN(2) == 0 {
					p.SlashFraction = sdkmath.LegacyOneDec()
				} else {
					p.SlashFraction = sdkmath.LegacyZeroDec()
				}
				if res := c.Msg(&crosschaintypes.MsgUpdateParams{ChainName: spec.Chain, Authority: chain.GovAuthority(), Params: p}); res.OK() {
					r.res.Count("slash_fraction_changes", 1)
				}
			case 0:
				nb := chain.DeriveKey(spec.Seed, "newbridger", step)
				res := c.Msg(&crosschaintypes.MsgEditBridger{ChainName: spec.Chain, OracleAddress: o.Oracle.Bech32(), BridgerAddress: nb.Bech32()})
				if res.OK() {
					o.Bridger = nb
					r.res.Count("bridger_edits", 1)
				}
			case 1:
				if found && rec.Online {
					before := r.total(o)
					res := c.Msg(&crosschaintypes.MsgReDelegate{ChainName: spec.Chain, OracleAddress: o.Oracle.Bech32(), ValidatorAddress: c.Vals[rng.IntN(len(c.Vals))].Operator.Val().String()})
					if res.OK() {
						r.res.Count("redelegations", 1)
						if after := r.total(o); !r.same(before, after) {
							r.res.Violate("C13/redelegate-changed-stake", "re-delegation changed the stake held for oracle %d from %s to %s", i, before, after)
						}
					}
				}
			default:
				c.Msg(&crosschaintypes.MsgWithdrawReward{ChainName: spec.Chain, OracleAddress: o.Oracle.Bech32()})
			}
		case x < 52: // governance removes oracle i
			if found && !m.removed {
				var keep []string
				for j, q := range r.os {
					if j != i && j < spec.N && !q.removed {
						keep = append(keep, q.o.Oracle.Bech32())
					}
				}
				if len(keep) == 0 {
					break
				}
				stake := r.total(o)
				res := c.Msg(&crosschaintypes.MsgUpdateChainOracles{ChainName: spec.Chain, Oracles: keep, Authority: chain.GovAuthority()})
				r.logf("gov remove o%d: %s", i, res.ErrString())
				if res.OK() {
					m.removed, m.stakeAtRemoval, m.removedAt = true, stake, c.Time
					r.res.Count("gov_removals", 1)
					rec2, _ := b.K.GetOracle(c.Ctx, o.Oracle.Acc())
					if rec2.Online {
						r.res.Violate("C13/removed-oracle-online", "oracle %d still online after governance removed it", i)
					}
					if after := r.total(o); !r.same(stake, after) {
						r.res.Violate("C13/removal-changed-stake", "governance removal changed the FX held for oracle %d from %s to %s", i, stake, after)
					}
				}
			}
		case x < 59: // unbond attempt (too early unless matured)
			if found && m.removed && !m.gone {
				r.unbond(i, false)
			}
		case x < 62: // governance re-admits a removed oracle; a later add-delegate brings it back online
			if found && m.removed && !m.gone {
				keep := []string{o.Oracle.Bech32()}
				for j, q := range r.os {
					if j != i && j < spec.N && !q.removed {
						keep = append(keep, q.o.Oracle.Bech32())
					}
				}
				// sometimes in the very block in which the stake that the removal set free matures (its time has
				// come, the staking end blocker has not paid it out yet), followed at once by an add-delegate
				atMaturity := false
				if ut, err := c.App.StakingKeeper.UnbondingTime(c.Ctx); err == nil && rng.IntN(2) == 0 {
					if dt := m.removedAt.Add(ut).Sub(c.Time); dt > 0 {
						if !r.block(dt) {
							return
						}
						atMaturity = true
						r.res.Count("readmissions_in_the_maturity_block", 1)
					}
				}
				res := c.Msg(&crosschaintypes.MsgUpdateChainOracles{ChainName: spec.Chain, Oracles: keep, Authority: chain.GovAuthority()})
				r.logf("gov re-admit o%d: %s", i, res.ErrString())
				if res.OK() {
					m.removed = false
					r.res.Count("gov_readmissions", 1)
					if atMaturity {
						if rec3, ok := b.K.GetOracle(c.Ctx, o.Oracle.Acc()); ok {
							r.addDelegate(i, rec3, chain.FX(int64(1+rng.IntN(50))))
						}
						r.checkIndexes(fmt.Sprintf("step %d (rejoin in the maturity block)", step))
						if !r.block(0) {
							return
						}
						c.Msg(&crosschaintypes.MsgWithdrawReward{ChainName: spec.Chain, OracleAddress: o.Oracle.Bech32()})
					}
				}
			}
		case x < 66: // validator double sign
			if spec.ValSlash && rng.IntN(3) == 0 {
				vi := 1 + rng.IntN(len(c.Vals)-1)
				if !c.Absent[vi] {
					c.DoubleSign(vi)
					r.valSlashed = true
					r.res.Count("validator_slashes", 1)
				}
			}
		case x < 72: // jump 22 days: unbonding periods elapse
			if !r.block(22 * 24 * time.Hour) {
				return
			}
		default:
			if !r.block(0) {
				return
			}
		}
		r.checkIndexes(fmt.Sprintf("step %d", step))
		if step%16 == 15 {
			r.genesisRoundTrip(fmt.Sprintf("step %d", step))
		}
	}
	if r.res.Inconclusive != "" {
		return
	}
	if spec.HighPenalty {
		// one instance of the scenario for certain: an oracle that is offline with a penalty due, whose validator
		// now signs twice (the delegation loses 5 %), and which governance then removes: less than the recorded
		// stake comes back while the penalty fraction is about to be one
		for i, m := range r.os[:spec.N] {
			rec, found := b.K.GetOracle(c.Ctx, m.o.Oracle.Acc())
			if !found || m.gone || m.removed || rec.Online || rec.SlashTimes == 0 {
				continue
			}
			vi := -1
			for k, v := range c.Vals {
				if v.Operator.Val().String() == rec.DelegateValidator {
					vi = k
				}
			}
			if vi < 1 || c.Absent[vi] {
				continue
			}
			var keep []string
			for j, q := range r.os {
				if j != i && j < spec.N && !q.removed {
					keep = append(keep, q.o.Oracle.Bech32())
				}
			}
			if len(keep) == 0 {
				continue
			}
			c.DoubleSign(vi)
			r.valSlashed = true
			r.res.Count("validator_slashes", 1)
			if !r.block(0) || !r.block(0) {
				return
			}
			stake := r.total(m.o)
			if res := c.Msg(&crosschaintypes.MsgUpdateChainOracles{ChainName: spec.Chain, Oracles: keep, Authority: chain.GovAuthority()}); res.OK() {
				m.removed, m.stakeAtRemoval, m.removedAt = true, stake, c.Time
				r.res.Count("gov_removals", 1)
				r.res.Count("slashed_oracles_on_a_slashed_validator_removed_before_the_maximal_penalty", 1)
			}
			break
		}
	}
	// close every life cycle: remove everything that is left (keeping one), mature, unbond
	if !r.block(22*24*time.Hour) || !r.block(0) {
		return
	}
	if spec.HighPenalty {
		p := b.K.GetParams(c.Ctx)
		p.SlashFraction = sdkmath.LegacyOneDec()
		if res := c.Msg(&crosschaintypes.MsgUpdateParams{ChainName: spec.Chain, Authority: chain.GovAuthority(), Params: p}); res.OK() {
			r.res.Count("slash_fraction_changes", 1)
		}
	}
	for i, m := range r.os[:spec.N] {
		if m.removed && !m.gone {
			r.unbond(i, true)
		}
	}
	r.checkIndexes("final")
	// nothing may be stranded at the delegate address of an oracle whose records are gone
	for i, m := range r.os[:spec.N] {
		if _, found := b.K.GetOracle(c.Ctx, m.o.Oracle.Acc()); found {
			continue
		}
		if m.paidIn.IsZero() {
			continue
		}
		if left := r.total(m.o); left.IsPositive() && !r.same(left, sdkmath.ZeroInt()) {
			l, d, u := r.stakeOf(m.o)
			r.res.Violate("C13/stake-stranded", "oracle %d has no record any more but %s FX of its stake are left at its keyless delegate address (liquid %s, delegated %s, unbonding %s)", i, left, l, d, u)
		}
	}
}

func (r *c13Run) bond(i int, stake sdkmath.Int) {
	c := r.c
	m := r.os[i]
	balBefore := c.Balance(c.Ctx, m.o.Oracle.Acc(), fxtypes.DefaultDenom)
	heldBefore := r.total(m.o)
	res := r.b.Bond(m.o, stake)
	if !res.OK() {
		r.res.Inconclusive = "bond: " + res.ErrString()
		return
	}
	r.res.Count("bonds", 1)
	paid := balBefore.Sub(c.Balance(c.Ctx, m.o.Oracle.Acc(), fxtypes.DefaultDenom))
	grown := r.total(m.o).Sub(heldBefore)
	rec, _ := r.b.K.GetOracle(c.Ctx, m.o.Oracle.Acc())
	if !paid.Equal(stake) || !r.same(stake, grown) || !rec.DelegateAmount.Equal(stake) {
		r.res.Violate("C13/bond-accounting", "bond of %s: oracle paid %s, stake held for it grew by %s, recorded %s", stake, paid, grown, rec.DelegateAmount)
	}
	m.paidIn = m.paidIn.Add(stake)
}

func (r *c13Run) addDelegate(i int, rec crosschaintypes.Oracle, extra sdkmath.Int) {
	c := r.c
	m := r.os[i]
	slash := rec.GetSlashAmount(r.b.K.GetSlashFraction(c.Ctx))
	amount := slash.Add(extra)
	balBefore := c.Balance(c.Ctx, m.o.Oracle.Acc(), fxtypes.DefaultDenom)
	heldBefore := r.total(m.o)
	supplyBefore := c.Supply(c.Ctx, fxtypes.DefaultDenom)
	res := c.Msg(&crosschaintypes.MsgAddDelegate{ChainName: r.spec.Chain, OracleAddress: m.o.Oracle.Bech32(), Amount: sdk.NewCoin(fxtypes.DefaultDenom, amount)})
	if !res.OK() {
		r.logf("add-delegate o%d: %s", i, res.ErrString())
		return
	}
	r.res.Count("add_delegates", 1)
	paid := balBefore.Sub(c.Balance(c.Ctx, m.o.Oracle.Acc(), fxtypes.DefaultDenom))
	grown := r.total(m.o).Sub(heldBefore)
	burnt := supplyBefore.Sub(c.Supply(c.Ctx, fxtypes.DefaultDenom))
	rec2, _ := r.b.K.GetOracle(c.Ctx, m.o.Oracle.Acc())
	if slash.GT(rec.DelegateAmount) {
		r.res.Violate("C13/penalty-exceeds-stake", "penalty %s exceeds the recorded stake %s", slash, rec.DelegateAmount)
	}
	if !paid.Equal(amount) || !r.same(extra, grown) || !burnt.Equal(slash) || !rec2.DelegateAmount.Equal(rec.DelegateAmount.Add(extra)) {
		r.res.Violate("C13/add-delegate-accounting", "add-delegate %s (penalty %s): oracle paid %s, stake grew by %s (expected %s), supply burnt %s, recorded stake %s -> %s",
			amount, slash, paid, grown, extra, burnt, rec.DelegateAmount, rec2.DelegateAmount)
	}
	if slash.IsPositive() {
		r.res.Count("penalties_paid", 1)
		m.penalty = m.penalty.Add(slash)
	}
	m.paidIn = m.paidIn.Add(extra)
}

// unbond: MsgUnbondedOracle. final=true is called after the unbonding period has elapsed.
func (r *c13Run) unbond(i int, final bool) {
	c := r.c
	m := r.os[i]
	o := m.o
	rec, found := r.b.K.GetOracle(c.Ctx, o.Oracle.Acc())
	if !found {
		return
	}
	liquid, delegated, unbonding := r.stakeOf(o)
	// a share residue worth at most the rounding dust may stay delegated after the module undelegated "all tokens"
	matured := r.same(delegated, sdkmath.ZeroInt()) && unbonding.IsZero()
	slash := rec.GetSlashAmount(r.b.K.GetSlashFraction(c.Ctx))
	balBefore := c.Balance(c.Ctx, o.Oracle.Acc(), fxtypes.DefaultDenom)
	supplyBefore := c.Supply(c.Ctx, fxtypes.DefaultDenom)
	escrowBefore := c.Balance(c.Ctx, chain.ModuleAddr(r.spec.Chain), fxtypes.DefaultDenom)
	res := c.Msg(&crosschaintypes.MsgUnbondedOracle{ChainName: r.spec.Chain, OracleAddress: o.Oracle.Bech32()})
	got := c.Balance(c.Ctx, o.Oracle.Acc(), fxtypes.DefaultDenom).Sub(balBefore)
	// the chain's module account is the escrow of queued / batched / bridged-out FX; penalties only pass through it
	if escrowAfter := c.Balance(c.Ctx, chain.ModuleAddr(r.spec.Chain), fxtypes.DefaultDenom); !escrowAfter.Equal(escrowBefore) {
		r.res.Violate("C13/unbond-changed-bridge-escrow", "MsgUnbondedOracle of oracle %d (ok=%v, penalty %s, matured stake %s) changed the FX escrowed in the %s module account from %s to %s", i, res.OK(), slash, liquid, r.spec.Chain, escrowBefore, escrowAfter)
	}
	if escrowBefore.IsPositive() {
		r.res.Count("unbonds_measured_against_a_funded_bridge_escrow", 1)
	}
	r.logf("unbond o%d matured=%v liquid=%s delegated=%s unbonding=%s -> ok=%v %s got=%s", i, matured, liquid, delegated, unbonding, res.OK(), short(res.ErrString()), got)
	if !matured && final && m.removed && r.c.Time.Sub(m.removedAt) > 21*24*time.Hour+time.Minute && unbonding.IsZero() {
		// governance removed the oracle more than an unbonding period ago and its stake never even
		// entered the unbonding queue: it can not be withdrawn, now or later
		r.res.Violate("C13/removed-oracle-stake-never-unbonded", "oracle %d was removed by governance at %s (now %s) but %s FX of its stake are still delegated and nothing is unbonding; MsgUnbondedOracle: ok=%v %s", i, m.removedAt.Format(time.RFC3339), r.c.Time.Format(time.RFC3339), delegated, res.OK(), short(res.ErrString()))
	}
	if !matured {
		r.res.Count("unbond_too_early_attempts", 1)
		if res.OK() {
			// the record is gone while the stake is still unbonding: it can never be withdrawn
			r.res.Violate("C13/unbond-before-maturity-forfeits-stake", "MsgUnbondedOracle succeeded for oracle %d while %s FX were still unbonding/delegated: records deleted, only %s paid out", i, delegated.Add(unbonding), got)
			m.gone = true
		}
		return
	}
	r.res.Count("unbond_after_maturity_attempts", 1)
	if !res.OK() {
		if slash.GT(liquid) {
			r.res.Violate("C13/penalty-exceeds-stake", "oracle %d cannot unbond: penalty %s exceeds the matured stake %s (%s)", i, slash, liquid, short(res.ErrString()))
			return
		}
		r.res.Violate("C13/unbond-after-maturity-refused", "oracle %d was removed by governance, its unbonding period has passed (%s FX liquid at the delegate address) but MsgUnbondedOracle fails: %s", i, liquid, short(res.ErrString()))
		return
	}
	m.gone = true
	m.payouts++
	r.lifecycles++
	r.res.Count("lifecycles_completed", 1)
	burnt := supplyBefore.Sub(c.Supply(c.Ctx, fxtypes.DefaultDenom))
	if slash.GT(liquid) {
		// the validator was slashed while the stake was delegated and less than the penalty came back: the
		// penalty is what came back, never more
		slash = liquid
		r.res.Count("unbonds_with_the_penalty_capped_at_the_returned_stake", 1)
	}
	if !got.Equal(liquid.Sub(slash)) || !burnt.Equal(slash) {
		r.res.Violate("C13/unbond-payout", "oracle %d unbond: received %s, expected stake %s minus penalty %s; burnt %s", i, got, liquid, slash, burnt)
	}
	if _, still := r.b.K.GetOracle(c.Ctx, o.Oracle.Acc()); still {
		r.res.Violate("C13/record-survives-unbond", "oracle %d record still present after unbond", i)
	}
	// exactly once
	if res2 := c.Msg(&crosschaintypes.MsgUnbondedOracle{ChainName: r.spec.Chain, OracleAddress: o.Oracle.Bech32()}); res2.OK() {
		r.res.Violate("C13/unbond-twice", "second MsgUnbondedOracle of oracle %d succeeded", i)
	}
}
