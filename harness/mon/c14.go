package mon

import (
	"bytes"
	"encoding/hex"
	"encoding/json"
	"fmt"
	"sort"
	"strings"
	"time"

	sdkmath "cosmossdk.io/math"
	"github.com/cosmos/cosmos-sdk/crypto/keys/secp256k1"
	sdk "github.com/cosmos/cosmos-sdk/types"
	authtypes "github.com/cosmos/cosmos-sdk/x/auth/types"
	vestingtypes "github.com/cosmos/cosmos-sdk/x/auth/vesting/types"
	banktypes "github.com/cosmos/cosmos-sdk/x/bank/types"
	distrtypes "github.com/cosmos/cosmos-sdk/x/distribution/types"
	govv1 "github.com/cosmos/cosmos-sdk/x/gov/types/v1"
	stakingtypes "github.com/cosmos/cosmos-sdk/x/staking/types"
	"github.com/ethereum/go-ethereum/common"
	"github.com/ethereum/go-ethereum/crypto"

	fxtypes "github.com/functionx/fx-core/v8/types"
	migratetypes "github.com/functionx/fx-core/v8/x/migrate/types"

	"verif/harness/chain"
	"verif/harness/core"
	"verif/harness/fix"
)

// C14: account migration moves everything, once, to the address that authorised it.

type c14Spec struct {
	Seed uint64 `json:"seed"`
	Mode string `json:"mode"` // portfolio | gov | refusals
	// portfolio shape
	Vals   int  `json:"vals"`
	Ubds   int  `json:"ubds"`
	Reds   int  `json:"reds"`
	Shared bool `json:"shared"` // another delegator shares the completion times
	// gov mode
	Role  string `json:"role"`  // proposer | depositor | voter
	Who   string `json:"who"`   // source | target
	Phase string `json:"phase"` // deposit-fresh | deposit-late | voting-fresh | voting-last
}

func init() {
	core.Register(&core.Prop{
		ID:    "C14",
		Level: "exploration",
		Rule: "mode portfolio: seeded source portfolios (several denoms, delegations over 1-3 validators with pending rewards, 0-3 unbonding and 0-2 redelegation entries, optionally sharing completion times with another delegator), migrated on one chain and not migrated on a twin chain built from the same seed; " +
			"portfolio(source before) == portfolio(target after), source empty, totals unchanged, every crisis invariant, raw residue scan of the staking and distribution stores for the source address, by-validator queries, then identical later activity (withdraw, undelegate, maturation) paying the target exactly what the twin pays the source; " +
			"mode gov: source or target as proposer / depositor / voter of a proposal at four points of its life — migration must be refused; mode refusals: bad and foreign signatures, reused addresses, validator operators, targets with staking records. " +
			"Non-trivial: a portfolio case with >=1 unbonding or redelegation entry that migrated, or a gov/refusal case whose positive control migrated; distinct by spec shape",
		Assumptions: []string{
			"the source account's secp256k1 public key is written to its auth record at set-up (as if it had signed before); the delegator-withdraw-address record is exempt from the residue scan",
			"twins are two apps built from the same seed and driven by the same operation list except for the migration",
		},
		Cases:            c14Cases,
		Run:              runC14,
		MinNontrivial:    10,
		RequiredCounters: []string{"migrations_ok", "residue_scans", "twin_future_checks", "gov_refusal_checks", "refusal_checks"},
	})
}

func c14Cases(seed uint64, tier string) []core.Case {
	rng := core.Rng(seed, 0xC14)
	var out []core.Case
	n := 10
	if tier == "thorough" {
		n = 120
	}
	for i := 0; i < n; i++ {
		out = append(out, core.MkCase(fmt.Sprintf("C14-portfolio-%03d", i), c14Spec{Seed: rng.Uint64(), Mode: "portfolio", Vals: 1 + rng.IntN(3), Ubds: rng.IntN(4), Reds: rng.IntN(3), Shared: i%2 == 0}))
	}
	reps := 1
	if tier == "thorough" {
		reps = 4
	}
	for rep := 0; rep < reps; rep++ {
		for _, role := range []string{"proposer", "depositor", "voter"} {
			for _, who := range []string{"source", "target"} {
				for _, ph := range []string{"deposit-fresh", "deposit-late", "voting-fresh", "voting-last"} {
					if role == "voter" && strings.HasPrefix(ph, "deposit") {
						continue
					}
					out = append(out, core.MkCase(fmt.Sprintf("C14-gov-%s-%s-%s-%d", role, who, ph, rep), c14Spec{Seed: rng.Uint64(), Mode: "gov", Role: role, Who: who, Phase: ph, Vals: 1}))
				}
			}
		}
		out = append(out, core.MkCase(fmt.Sprintf("C14-refusals-%d", rep), c14Spec{Seed: rng.Uint64(), Mode: "refusals", Vals: 2, Ubds: 1}))
	}
	return out
}

type c14World struct {
	c       *chain.Chain
	src     sdk.AccAddress
	srcPriv *secp256k1.PrivKey
	tgt     chain.Key
	peer    chain.Key // another delegator
	vals    []sdk.ValAddress
}

func srcKey(seed uint64, label string) *secp256k1.PrivKey {
	return secp256k1.GenPrivKeyFromSecret([]byte(fmt.Sprintf("verif-src/%s/%d", label, seed)))
}

func c14Setup(spec c14Spec) (*c14World, error) {
	c := chain.New(chain.Config{Seed: spec.Seed, NumVals: 3, NumUsers: 4, KeepInflation: true})
	w := &c14World{c: c, tgt: chain.DeriveKey(spec.Seed, "target", 0), peer: c.Users[0]}
	w.srcPriv = srcKey(spec.Seed, "src")
	w.src = sdk.AccAddress(w.srcPriv.PubKey().Address())
	for _, v := range c.Vals {
		w.vals = append(w.vals, v.Operator.Val())
	}
	acc := c.App.AccountKeeper.NewAccountWithAddress(c.Ctx, w.src)
	if err := acc.SetPubKey(w.srcPriv.PubKey()); err != nil {
		return nil, err
	}
	c.App.AccountKeeper.SetAccount(c.Ctx, acc)
	fix.Fund(c, w.src, chain.FXCoin(1_000_000), sdk.NewCoin("apple", sdkmath.NewInt(777)), sdk.NewCoin("ibc/ABCDEF", sdkmath.NewInt(5)))
	fix.Fund(c, w.tgt.Acc(), chain.FXCoin(3)) // the target exists and holds a little
	return w, nil
}

func (w *c14World) sig(from sdk.AccAddress, to chain.Key) string {
	s, err := crypto.Sign(migratetypes.MigrateAccountSignatureHash(from, to.Hex().Bytes()), to.ECDSA)
	if err != nil {
		panic(err)
	}
	return hex.EncodeToString(s)
}

func (w *c14World) migrate(ctx sdk.Context) chain.Result {
	return w.c.MsgOn(ctx, &migratetypes.MsgMigrateAccount{From: w.src.String(), To: w.tgt.Hex().Hex(), Signature: w.sig(w.src, w.tgt)})
}

type c14Portfolio struct {
	Bank    string
	Shares  map[string]string
	Rewards map[string]string
	Ubd     []string
	Red     []string
}

func (w *c14World) portfolio(ctx sdk.Context, a sdk.AccAddress) c14Portfolio {
	c := w.c
	p := c14Portfolio{Shares: map[string]string{}, Rewards: map[string]string{}}
	p.Bank = c.App.BankKeeper.GetAllBalances(ctx, a).String()
	dels, _ := c.App.StakingKeeper.GetAllDelegatorDelegations(ctx, a)
	for _, d := range dels {
		p.Shares[d.ValidatorAddress] = d.Shares.String()
		va, _ := sdk.ValAddressFromBech32(d.ValidatorAddress)
		cctx, _ := ctx.CacheContext()
		val, err := c.App.StakingKeeper.Validator(cctx, va)
		if err == nil {
			end, err := c.App.DistrKeeper.IncrementValidatorPeriod(cctx, val)
			if err == nil {
				rw, err := c.App.DistrKeeper.CalculateDelegationRewards(cctx, val, d, end)
				if err == nil {
					p.Rewards[d.ValidatorAddress] = rw.String()
				}
			}
		}
	}
	ubds, _ := c.App.StakingKeeper.GetAllUnbondingDelegations(ctx, a)
	for _, u := range ubds {
		for _, e := range u.Entries {
			p.Ubd = append(p.Ubd, fmt.Sprintf("%s@%d:%s/%s", u.ValidatorAddress, e.CompletionTime.Unix(), e.InitialBalance, e.Balance))
		}
	}
	sort.Strings(p.Ubd)
	reds, _ := c.App.StakingKeeper.GetRedelegations(ctx, a, 100)
	for _, rd := range reds {
		for _, e := range rd.Entries {
			p.Red = append(p.Red, fmt.Sprintf("%s>%s@%d:%s/%s", rd.ValidatorSrcAddress, rd.ValidatorDstAddress, e.CompletionTime.Unix(), e.InitialBalance, e.SharesDst))
		}
	}
	sort.Strings(p.Red)
	return p
}

func (p c14Portfolio) empty() bool {
	return (p.Bank == "" || p.Bank == sdk.Coins{}.String()) && len(p.Shares) == 0 && len(p.Ubd) == 0 && len(p.Red) == 0
}

func (p c14Portfolio) String() string {
	b, _ := json.Marshal(p)
	return string(b)
}

// buildPortfolio performs the same staking history for the source on any chain.
func (w *c14World) buildPortfolio(spec c14Spec) error {
	c := w.c
	step := func(msg sdk.Msg) error {
		if r := c.Msg(msg); !r.OK() {
			return fmt.Errorf("%T: %s", msg, r.ErrString())
		}
		return nil
	}
	for i := 0; i < spec.Vals; i++ {
		if err := step(stakingtypes.NewMsgDelegate(w.src.String(), w.vals[i].String(), chain.FXCoin(int64(10_000*(i+1))))); err != nil {
			return err
		}
		if spec.Shared {
			if err := step(stakingtypes.NewMsgDelegate(w.peer.Bech32(), w.vals[i].String(), chain.FXCoin(5000))); err != nil {
				return err
			}
		}
	}
	if _, err := c.Next(); err != nil {
		return err
	}
	for i := 0; i < spec.Ubds; i++ {
		v := w.vals[i%spec.Vals]
		if err := step(stakingtypes.NewMsgUndelegate(w.src.String(), v.String(), chain.FXCoin(int64(100+i)))); err != nil {
			return err
		}
		if spec.Shared {
			// same block, same validator: the peer's entry shares the completion time
			if err := step(stakingtypes.NewMsgUndelegate(w.peer.Bech32(), v.String(), chain.FXCoin(7))); err != nil {
				return err
			}
		}
		if i%2 == 0 {
			if _, err := c.Next(); err != nil {
				return err
			}
		}
	}
	for i := 0; i < spec.Reds && spec.Vals > 0; i++ {
		src := w.vals[i%spec.Vals]
		dst := w.vals[(i+1)%3]
		if dst.Equals(src) {
			dst = w.vals[(i+2)%3]
		}
		if err := step(stakingtypes.NewMsgBeginRedelegate(w.src.String(), src.String(), dst.String(), chain.FXCoin(int64(50+i)))); err != nil {
			// transitive redelegation etc.: not fatal for the fixture
			continue
		}
		if spec.Shared {
			_ = step(stakingtypes.NewMsgBeginRedelegate(w.peer.Bech32(), src.String(), dst.String(), chain.FXCoin(3)))
		}
	}
	// rewards accrue
	return c.Skip(3)
}

func runC14(cs core.Case, verbose bool) core.CaseResult {
	var spec c14Spec
	res := core.CaseResult{}
	if err := json.Unmarshal(cs.Spec, &spec); err != nil {
		res.Inconclusive = err.Error()
		return res
	}
	switch spec.Mode {
	case "portfolio":
		c14Portfolio_(spec, &res, verbose)
	case "gov":
		c14Gov(spec, &res, verbose)
	default:
		c14Refusals(spec, &res, verbose)
	}
	b, _ := json.Marshal(spec)
	res.Sig = string(b[len(`{"seed":`)+len(fmt.Sprint(spec.Seed)):])
	if res.Sample == nil {
		res.Sample = map[string]interface{}{"spec": spec}
	}
	return res
}

// residue: keys or values of the staking and distribution stores that still contain the source address.
func (w *c14World) residue(ctx sdk.Context) []string {
	var out []string
	d := w.c.Dump(ctx, stakingtypes.StoreKey, distrtypes.StoreKey)
	needle := []byte(w.src)
	bech := []byte(w.src.String())
	for store, m := range d {
		for k, v := range m {
			if store == distrtypes.StoreKey && len(k) > 0 && k[0] == distrtypes.DelegatorWithdrawAddrPrefix[0] {
				continue
			}
			if bytes.Contains([]byte(k), needle) || bytes.Contains([]byte(v), needle) || bytes.Contains([]byte(v), bech) {
				out = append(out, fmt.Sprintf("%s/%x", store, k))
			}
		}
	}
	sort.Strings(out)
	return out
}

func c14Portfolio_(spec c14Spec, res *core.CaseResult, verbose bool) {
	// chain A migrates, twin B does not
	wa, err := c14Setup(spec)
	if err != nil {
		res.Inconclusive = err.Error()
		return
	}
	wb, _ := c14Setup(spec)
	for _, w := range []*c14World{wa, wb} {
		if err := w.buildPortfolio(spec); err != nil {
			res.Inconclusive = "portfolio: " + err.Error()
			return
		}
	}
	c := wa.c
	if spec.Seed%3 == 0 {
		// in every third case the migration happens in the very block in which the earliest unbonding or
		// redelegation entry matures (its time has come, the staking end blocker has not run yet)
		var first time.Time
		if ubds, err := c.App.StakingKeeper.GetUnbondingDelegations(c.Ctx, wa.src, 100); err == nil {
			for _, u := range ubds {
				for _, e := range u.Entries {
					if first.IsZero() || e.CompletionTime.Before(first) {
						first = e.CompletionTime
					}
				}
			}
		}
		if reds, err := c.App.StakingKeeper.GetRedelegations(c.Ctx, wa.src, 100); err == nil {
			for _, rd := range reds {
				for _, e := range rd.Entries {
					if first.IsZero() || e.CompletionTime.Before(first) {
						first = e.CompletionTime
					}
				}
			}
		}
		if dt := first.Sub(c.Time); !first.IsZero() && dt > 0 {
			for _, w := range []*c14World{wa, wb} {
				if _, err := w.c.EndBlock(dt); err != nil {
					res.Inconclusive = err.Error()
					return
				}
			}
			res.Count("migrations_in_the_maturity_block", 1)
		}
	}
	before := wa.portfolio(c.Ctx, wa.src)
	tgtBefore := wa.portfolio(c.Ctx, wa.tgt.Acc())
	totals := func(w *c14World) string {
		var sb strings.Builder
		for _, v := range w.vals {
			val, _ := w.c.App.StakingKeeper.GetValidator(w.c.Ctx, v)
			fmt.Fprintf(&sb, "%s:%s/%s;", v, val.Tokens, val.DelegatorShares)
		}
		sb.WriteString(w.c.App.BankKeeper.GetSupply(w.c.Ctx, fxtypes.DefaultDenom).String())
		for _, m := range []string{stakingtypes.BondedPoolName, stakingtypes.NotBondedPoolName, distrtypes.ModuleName} {
			sb.WriteString(";" + m + "=" + w.c.App.BankKeeper.GetAllBalances(w.c.Ctx, chain.ModuleAddr(m)).String())
		}
		return sb.String()
	}
	tot0 := totals(wa)
	r := wa.migrate(c.Ctx)
	if !r.OK() {
		res.Violate("C14/valid-migration-refused", "migration of a portfolio %s refused: %s", before, r.ErrString())
		return
	}
	res.Count("migrations_ok", 1)
	res.Nontrivial = len(before.Ubd)+len(before.Red) > 0
	after := wa.portfolio(c.Ctx, wa.tgt.Acc())
	srcAfter := wa.portfolio(c.Ctx, wa.src)
	// the target held 3 FX before
	want := before
	wantBank := c.App.BankKeeper.GetAllBalances(c.Ctx, wa.tgt.Acc())
	_ = tgtBefore
	expBank := sdk.NewCoins(chain.FXCoin(3))
	if coins, err := sdk.ParseCoinsNormalized(before.Bank); err == nil {
		expBank = expBank.Add(coins...)
	}
	if !wantBank.Equal(expBank) {
		res.Violate("C14/balances-not-moved", "target holds %s after migration, expected %s", wantBank, expBank)
	}
	want.Bank, after.Bank = "", ""
	if want.String() != after.String() {
		res.Violate("C14/portfolio-mismatch", "portfolio of the source before:\n%s\nportfolio of the target after:\n%s", want, after)
	}
	if !srcAfter.empty() {
		res.Violate("C14/source-not-empty", "the source still has %s", srcAfter)
	}
	if t1 := totals(wa); t1 != tot0 {
		res.Violate("C14/totals-changed", "totals before: %s\nafter: %s", tot0, t1)
	}
	for _, b := range c.Invariants(c.Ctx) {
		res.Violate("C14/invariant/"+strings.SplitN(b, ":", 2)[0], "after migration: %s", short(b))
	}
	res.Count("residue_scans", 1)
	if rs := wa.residue(c.Ctx); len(rs) > 0 {
		res.Violate("C14/source-address-residue/"+residueClass(rs[0]), "%d records of the staking / distribution stores still carry the source address after migration: %s", len(rs), strings.Join(firstN(rs, 6), " "))
	}
	// the migrated chain must look like the twin that never migrated with the source address renamed to
	// the target, record for record and index for index (staking and distribution stores)
	res.Count("renamed_twin_comparisons", 1)
	for _, d := range renamedTwinDiff(wa, wb) {
		res.Violate("C14/differs-from-renamed-twin/"+d.class, "after migration the %s", d.text)
	}
	// by-validator queries return exactly the migrated records
	for _, v := range sortedKeys(before.Shares) {
		sh := before.Shares[v]
		va, _ := sdk.ValAddressFromBech32(v)
		dels, err := c.App.StakingKeeper.GetValidatorDelegations(c.Ctx, va)
		found := false
		if err == nil {
			for _, d := range dels {
				if d.DelegatorAddress == wa.tgt.Bech32() && d.Shares.String() == sh {
					found = true
				}
				if d.DelegatorAddress == wa.src.String() || d.DelegatorAddress == "" {
					res.Violate("C14/by-validator-query-stale", "GetValidatorDelegations(%s) still returns a record for %q", v, d.DelegatorAddress)
				}
			}
		}
		if !found {
			res.Violate("C14/by-validator-query-misses-target", "GetValidatorDelegations(%s) does not return the migrated delegation (%s shares) (err=%v)", v, sh, err)
		}
	}
	// second migration of either address must be refused
	if r2 := wa.migrate(c.Branch()); r2.OK() {
		res.Violate("C14/migrated-twice", "the same migration succeeded twice")
	}
	// --- the future: the target in A is paid exactly what the source is paid in B
	actA, actB := wa.tgt.Acc(), wb.src
	do := func(label string, f func(w *c14World, who sdk.AccAddress) error) bool {
		ea, eb := f(wa, actA), f(wb, actB)
		if (ea == nil) != (eb == nil) {
			res.Violate("C14/future-divergence/"+label, "%s: migrated chain: %v, twin: %v", label, ea, eb)
			return false
		}
		return true
	}
	fxA0, fxB0 := wa.c.Balance(wa.c.Ctx, actA, fxtypes.DefaultDenom), wb.c.Balance(wb.c.Ctx, actB, fxtypes.DefaultDenom).Add(chain.FX(3))
	step := func(label string) {
		res.Count("twin_future_checks", 1)
		a := wa.c.Balance(wa.c.Ctx, actA, fxtypes.DefaultDenom).Sub(fxA0)
		b := wb.c.Balance(wb.c.Ctx, actB, fxtypes.DefaultDenom).Add(chain.FX(3)).Sub(fxB0)
		if !a.Equal(b) {
			res.Violate("C14/future-payout/"+label, "%s: the target received %s on the migrated chain, the source %s on the twin that never migrated", label, a, b)
		}
	}
	do("blocks", func(w *c14World, _ sdk.AccAddress) error { return w.c.Skip(2) })
	for _, v := range sortedKeys(before.Shares) { // fixed order: the history must be a function of the seed
		v := v
		do("withdraw", func(w *c14World, who sdk.AccAddress) error {
			r := w.c.Msg(distrtypes.NewMsgWithdrawDelegatorReward(who.String(), v))
			if !r.OK() {
				return fmt.Errorf("%s", r.ErrString())
			}
			return nil
		})
		step("withdraw")
		do("undelegate", func(w *c14World, who sdk.AccAddress) error {
			r := w.c.Msg(stakingtypes.NewMsgUndelegate(who.String(), v, chain.FXCoin(1000)))
			if !r.OK() {
				return fmt.Errorf("%s", r.ErrString())
			}
			return nil
		})
		step("undelegate")
	}
	do("mature", func(w *c14World, _ sdk.AccAddress) error {
		if _, err := w.c.EndBlock(22 * 24 * time.Hour); err != nil {
			return err
		}
		return w.c.Skip(1)
	})
	step("maturation")
	for _, b := range wa.c.Invariants(wa.c.Ctx) {
		res.Violate("C14/invariant-later/"+strings.SplitN(b, ":", 2)[0], "after later activity: %s", short(b))
	}
	pa, pb := wa.portfolio(wa.c.Ctx, actA), wb.portfolio(wb.c.Ctx, actB)
	pa.Bank, pb.Bank = "", ""
	if pa.String() != pb.String() {
		res.Violate("C14/future-portfolio", "after identical later activity the target has\n%s\nthe twin's source has\n%s", pa, pb)
	}
	res.Sample = map[string]interface{}{"spec": spec, "portfolio_before": before}
}

func residueClass(k string) string {
	// store/firstbyte
	i := strings.IndexByte(k, '/')
	if i < 0 || len(k) < i+3 {
		return "other"
	}
	return k[:i+3]
}

// ---- gov involvement ------------------------------------------------------------------

func c14Gov(spec c14Spec, res *core.CaseResult, verbose bool) {
	w, err := c14Setup(spec)
	if err != nil {
		res.Inconclusive = err.Error()
		return
	}
	c := w.c
	if err := w.buildPortfolio(c14Spec{Seed: spec.Seed, Vals: 1}); err != nil {
		res.Inconclusive = err.Error()
		return
	}
	fix.Fund(c, w.tgt.Acc(), chain.FXCoin(50_000))
	actor := w.src
	if spec.Who == "target" {
		actor = w.tgt.Acc()
	}
	other := c.Users[1]
	params, _ := c.App.GovKeeper.Params.Get(c.Ctx)
	textMsg := []sdk.Msg{&banktypes.MsgSend{FromAddress: chain.GovAuthority(), ToAddress: other.Bech32(), Amount: sdk.NewCoins(sdk.NewCoin(fxtypes.DefaultDenom, sdkmath.OneInt()))}}
	small := sdk.NewCoins(chain.FXCoin(2000))
	var id uint64
	submit := func(proposer sdk.AccAddress, dep sdk.Coins) bool {
		m, _ := govv1.NewMsgSubmitProposal(textMsg, dep, proposer.String(), "", "t", "s", false)
		r := c.Msg(m)
		if !r.OK() {
			res.Inconclusive = "submit: " + r.ErrString()
			return false
		}
		var resp govv1.MsgSubmitProposalResponse
		_ = c.Resp(r, &resp)
		id = resp.ProposalId
		return true
	}
	voting := strings.HasPrefix(spec.Phase, "voting")
	dep := small
	if voting {
		dep = params.MinDeposit
	}
	switch spec.Role {
	case "proposer":
		if !submit(actor, dep) {
			return
		}
	case "depositor":
		if !submit(other.Acc(), small) {
			return
		}
		d := small
		if voting {
			d = params.MinDeposit
		}
		if r := c.Msg(govv1.NewMsgDeposit(actor, id, d)); !r.OK() {
			res.Inconclusive = "deposit: " + r.ErrString()
			return
		}
	case "voter":
		if !submit(other.Acc(), params.MinDeposit) {
			return
		}
		if r := c.Msg(govv1.NewMsgVote(actor, id, govv1.OptionYes, "")); !r.OK() {
			res.Inconclusive = "vote: " + r.ErrString()
			return
		}
	}
	p, _ := fix.Proposal(c, id)
	// move to the requested point of the proposal's life
	var end time.Time
	if voting {
		if p.Status != govv1.StatusVotingPeriod {
			res.Inconclusive = "proposal not in voting period"
			return
		}
		end = *p.VotingEndTime
	} else {
		end = *p.DepositEndTime
	}
	dt := time.Duration(0)
	if spec.Phase == "deposit-late" || spec.Phase == "voting-last" {
		dt = end.Sub(c.Time) - 10*time.Second // the last block before the end
	}
	if _, err := c.EndBlock(dt); err != nil {
		res.Inconclusive = err.Error()
		return
	}
	p, ok := fix.Proposal(c, id)
	if !ok || (p.Status != govv1.StatusDepositPeriod && p.Status != govv1.StatusVotingPeriod) {
		res.Inconclusive = fmt.Sprintf("proposal not open any more (%v)", p.Status)
		return
	}
	res.Count("gov_refusal_checks", 1)
	r := w.migrate(c.Branch())
	if verbose {
		fmt.Printf("proposal %d status=%s role=%s who=%s phase=%s -> migrate ok=%v %s\n", id, p.Status, spec.Role, spec.Who, spec.Phase, r.OK(), short(r.ErrString()))
	}
	if r.OK() {
		res.Violate(fmt.Sprintf("C14/migrated-while-%s-of-open-proposal/%s", spec.Role, strings.SplitN(spec.Phase, "-", 2)[0]),
			"migration succeeded although the %s is %s of proposal %d, which is in its %s (%s)", spec.Who, spec.Role, id, p.Status, spec.Phase)
	}
	// the same after governance has shortened the periods: the open proposal keeps the end it was given
	{
		b := c.Branch()
		gp, _ := c.App.GovKeeper.Params.Get(b)
		vp, dp, ep := 48*time.Hour, 24*time.Hour, 12*time.Hour
		gp.VotingPeriod, gp.MaxDepositPeriod, gp.ExpeditedVotingPeriod = &vp, &dp, &ep
		if ur := c.MsgOn(b, &govv1.MsgUpdateParams{Authority: chain.GovAuthority(), Params: gp}); ur.OK() {
			res.Count("gov_refusal_checks_after_period_change", 1)
			if r2 := w.migrate(b); r2.OK() {
				res.Violate(fmt.Sprintf("C14/migrated-while-%s-of-open-proposal/%s/after-period-change", spec.Role, strings.SplitN(spec.Phase, "-", 2)[0]),
					"migration succeeded although the %s is %s of proposal %d, which is in its %s (%s); governance had shortened the voting and deposit periods meanwhile", spec.Who, spec.Role, id, p.Status, spec.Phase)
			}
		} else if verbose {
			fmt.Println("period change refused:", ur.ErrString())
		}
	}
	// positive control: once the proposal is over, migration works
	for _, v := range c.Vals {
		fix.GovVote(c, v.Operator, id, govv1.OptionNo)
	}
	if _, err := c.EndBlock(30 * 24 * time.Hour); err != nil {
		res.Inconclusive = err.Error()
		return
	}
	c.Skip(1)
	if r := w.migrate(c.Ctx); r.OK() {
		res.Count("migrations_ok", 1)
		res.Nontrivial = true
	} else {
		res.Count("positive_control_failed", 1)
		if verbose {
			fmt.Println("positive control:", r.ErrString())
		}
	}
}

// ---- refusals -------------------------------------------------------------------------

func c14Refusals(spec c14Spec, res *core.CaseResult, verbose bool) {
	w, err := c14Setup(spec)
	if err != nil {
		res.Inconclusive = err.Error()
		return
	}
	c := w.c
	if err := w.buildPortfolio(spec); err != nil {
		res.Inconclusive = err.Error()
		return
	}
	stranger := chain.DeriveKey(spec.Seed, "stranger", 0)
	try := func(label string, ctx sdk.Context, from sdk.AccAddress, to common.Address, sig string) {
		before := c.Dump(ctx)
		r := c.MsgOn(ctx, &migratetypes.MsgMigrateAccount{From: from.String(), To: to.Hex(), Signature: sig})
		res.Count("refusal_checks", 1)
		if verbose {
			fmt.Printf("%-40s ok=%v %s\n", label, r.OK(), short(r.ErrString()))
		}
		if r.OK() || len(chain.Diff(before, c.Dump(ctx))) > 0 {
			res.Violate("C14/refusal-expected/"+label, "%s: migration ok=%v, state changed=%v", label, r.OK(), len(chain.Diff(before, c.Dump(ctx))) > 0)
		}
	}
	good := w.sig(w.src, w.tgt)
	bad, _ := hex.DecodeString(good)
	bad[10] ^= 1
	try("bit-flipped-signature", c.Branch(), w.src, w.tgt.Hex(), hex.EncodeToString(bad))
	try("signature-by-other-key", c.Branch(), w.src, w.tgt.Hex(), w.sig(w.src, stranger))
	try("signature-over-other-source", c.Branch(), w.src, w.tgt.Hex(), w.sig(c.Users[2].Acc(), w.tgt))
	try("signature-for-other-target", c.Branch(), w.src, stranger.Hex(), good)
	try("empty-signature", c.Branch(), w.src, w.tgt.Hex(), "")
	try("same-account", c.Branch(), w.tgt.Acc(), w.tgt.Hex(), w.sig(w.tgt.Acc(), w.tgt))
	// validator operator as target
	op := c.Vals[0].Operator
	try("target-is-validator-operator", c.Branch(), w.src, op.Hex(), w.sig(w.src, op))
	// target with staking records
	{
		ctx := c.Branch()
		fix.Fund(c, stranger.Acc(), chain.FXCoin(100))
		if r := c.MsgOn(ctx, stakingtypes.NewMsgDelegate(stranger.Bech32(), w.vals[0].String(), chain.FXCoin(10))); r.OK() {
			try("target-has-delegation", ctx, w.src, stranger.Hex(), w.sig(w.src, stranger))
		}
		ctx2 := c.Branch()
		c.MsgOn(ctx2, stakingtypes.NewMsgDelegate(stranger.Bech32(), w.vals[0].String(), chain.FXCoin(10)))
		if r := c.MsgOn(ctx2, stakingtypes.NewMsgUndelegate(stranger.Bech32(), w.vals[0].String(), chain.FXCoin(10))); r.OK() {
			try("target-has-unbonding", ctx2, w.src, stranger.Hex(), w.sig(w.src, stranger))
		}
	}
	// source without public key / unknown source
	nopk := authtypes.NewBaseAccountWithAddress(sdk.AccAddress(stranger.Acc()))
	_ = nopk
	try("source-without-account", c.Branch(), sdk.AccAddress(chain.DeriveKey(spec.Seed, "ghost", 0).Acc()), w.tgt.Hex(), w.sig(chain.DeriveKey(spec.Seed, "ghost", 0).Acc(), w.tgt))
	// address reuse after a successful migration
	if r := w.migrate(c.Ctx); !r.OK() {
		res.Violate("C14/valid-migration-refused", "positive control refused: %s", r.ErrString())
		return
	}
	res.Count("migrations_ok", 1)
	res.Nontrivial = true
	try("source-already-migrated", c.Branch(), w.src, stranger.Hex(), w.sig(w.src, stranger))
	// a fresh source to an already used target
	p2 := srcKey(spec.Seed, "src2")
	s2 := sdk.AccAddress(p2.PubKey().Address())
	acc := c.App.AccountKeeper.NewAccountWithAddress(c.Ctx, s2)
	_ = acc.SetPubKey(p2.PubKey())
	c.App.AccountKeeper.SetAccount(c.Ctx, acc)
	fix.Fund(c, s2, chain.FXCoin(10))
	try("target-already-used", c.Branch(), s2, w.tgt.Hex(), w.sig(s2, w.tgt))
	// a migrated target address used as a source is refused as well (it has a record)
	try("former-target-as-source", c.Branch(), w.tgt.Acc(), stranger.Hex(), w.sig(w.tgt.Acc(), stranger))
	// the same two reuse cases after the migration of an account that holds balances only (the target then has
	// no staking records, so nothing but the migration records can refuse)
	{
		ctx := c.Branch()
		p3 := srcKey(spec.Seed, "src3")
		s3 := sdk.AccAddress(p3.PubKey().Address())
		acc3 := c.App.AccountKeeper.NewAccountWithAddress(ctx, s3)
		_ = acc3.SetPubKey(p3.PubKey())
		c.App.AccountKeeper.SetAccount(ctx, acc3)
		t3 := chain.DeriveKey(spec.Seed, "tgt3", 0)
		if err := c.App.BankKeeper.SendCoins(ctx, s2, s3, sdk.NewCoins(chain.FXCoin(3))); err != nil {
			res.Inconclusive = "fund plain source: " + err.Error()
			return
		}
		if r := c.MsgOn(ctx, &migratetypes.MsgMigrateAccount{From: s3.String(), To: t3.Hex().Hex(), Signature: w.sig(s3, t3)}); !r.OK() {
			res.Violate("C14/valid-migration-refused", "migration of an account with balances only refused: %s", r.ErrString())
			return
		}
		res.Count("migrations_ok", 1)
		b1, _ := ctx.CacheContext()
		try("plain-target-already-used", b1, s2, t3.Hex(), w.sig(s2, t3))
		b2, _ := ctx.CacheContext()
		try("plain-source-already-migrated", b2, s3, stranger.Hex(), w.sig(s3, stranger))
		b3, _ := ctx.CacheContext()
		try("plain-former-target-as-source", b3, t3.Acc(), stranger.Hex(), w.sig(t3.Acc(), stranger))
	}
	// a validator operator that has withdrawn its own stake (the validator lives on other people's delegations):
	// it holds no staking record any more and is an operator all the same (kept last: it disturbs the validator set)
	defer func() {
		if res.Inconclusive != "" {
			return
		}
		op := c.Vals[1].Operator
		val := op.Val()
		if r := c.Msg(stakingtypes.NewMsgDelegate(c.Users[2].Bech32(), val.String(), chain.FXCoin(1000))); !r.OK() {
			return
		}
		del, err := c.App.StakingKeeper.GetDelegation(c.Ctx, op.Acc(), val)
		v, err2 := c.App.StakingKeeper.GetValidator(c.Ctx, val)
		if err != nil || err2 != nil {
			return
		}
		own := v.TokensFromShares(del.Shares).TruncateInt()
		if r := c.Msg(stakingtypes.NewMsgUndelegate(op.Bech32(), val.String(), sdk.NewCoin(fxtypes.DefaultDenom, own))); !r.OK() {
			if verbose {
				fmt.Println("operator undelegate:", r.ErrString())
			}
			return
		}
		if _, err := c.EndBlock(22 * 24 * time.Hour); err != nil {
			return
		}
		c.Skip(1)
		if _, err := c.App.StakingKeeper.GetDelegation(c.Ctx, op.Acc(), val); err == nil {
			return
		}
		if _, err := c.App.StakingKeeper.GetValidator(c.Ctx, val); err != nil {
			return // the validator is gone altogether: nothing to test
		}
		p5 := srcKey(spec.Seed, "src5")
		s5 := sdk.AccAddress(p5.PubKey().Address())
		acc5 := c.App.AccountKeeper.NewAccountWithAddress(c.Ctx, s5)
		_ = acc5.SetPubKey(p5.PubKey())
		c.App.AccountKeeper.SetAccount(c.Ctx, acc5)
		fix.Fund(c, s5, chain.FXCoin(7))
		res.Count("operator_without_own_stake_checks", 1)
		try("target-is-operator-without-own-stake", c.Branch(), s5, op.Hex(), w.sig(s5, op))
	}()
	// a source that still holds locked (vesting) coins: all or nothing
	{
		ctx := c.Branch()
		p4 := srcKey(spec.Seed, "src4")
		s4 := sdk.AccAddress(p4.PubKey().Address())
		t4 := chain.DeriveKey(spec.Seed, "tgt4", 0)
		end := c.Time.Add(365 * 24 * time.Hour).Unix()
		funder := c.Users[2]
		if r := c.MsgOn(ctx, vestingtypes.NewMsgCreateVestingAccount(funder.Acc(), s4, sdk.NewCoins(chain.FXCoin(1000)), end, false)); r.OK() {
			if acc4 := c.App.AccountKeeper.GetAccount(ctx, s4); acc4 != nil {
				_ = acc4.SetPubKey(p4.PubKey())
				c.App.AccountKeeper.SetAccount(ctx, acc4)
			}
			_ = c.App.BankKeeper.SendCoins(ctx, funder.Acc(), s4, sdk.NewCoins(chain.FXCoin(500)))
			before := c.Dump(ctx)
			rr := c.MsgOn(ctx, &migratetypes.MsgMigrateAccount{From: s4.String(), To: t4.Hex().Hex(), Signature: w.sig(s4, t4)})
			res.Count("vesting_source_checks", 1)
			left := c.App.BankKeeper.GetAllBalances(ctx, s4)
			if verbose {
				fmt.Printf("%-40s ok=%v left=%s %s\n", "source-with-locked-coins", rr.OK(), left, short(rr.ErrString()))
			}
			if rr.OK() && !left.IsZero() {
				res.Violate("C14/source-not-empty/locked-coins", "migration of a source holding 1000 FX of locked and 500 FX of free coins succeeded and left %s with the source (target holds %s)", left, c.App.BankKeeper.GetAllBalances(ctx, t4.Acc()))
			}
			if !rr.OK() && len(chain.Diff(before, c.Dump(ctx))) > 0 {
				res.Violate("C14/refusal-expected/source-with-locked-coins", "the migration was refused (%s) but state changed", short(rr.ErrString()))
			}
		} else if verbose {
			fmt.Println("vesting account not created:", r.ErrString())
		}
	}
}

func sortedKeys(m map[string]string) []string {
	ks := make([]string, 0, len(m))
	for k := range m {
		ks = append(ks, k)
	}
	sort.Strings(ks)
	return ks
}

type twinDiff struct{ class, text string }

// renamedTwinDiff compares the staking and distribution stores of the migrated chain with those of the twin
// in which every occurrence of the source address (raw bytes in keys and values, bech32 text in values) is
// replaced by the target address. Not compared: rewards and other amounts that the migration settles
// (delegator starting info, outstanding / historical / current rewards, community pool), the withdraw-address
// record, and the validators themselves (their token totals are equal but their records carry no delegator).
func renamedTwinDiff(wa, wb *c14World) []twinDiff {
	src, tgt := []byte(wa.src), []byte(wa.tgt.Acc())
	srcB, tgtB := []byte(wa.src.String()), []byte(wa.tgt.Bech32())
	ren := func(b string) string {
		x := bytes.ReplaceAll([]byte(b), src, tgt)
		return string(bytes.ReplaceAll(x, srcB, tgtB))
	}
	// staking prefixes that describe who delegated what to whom, and the queues that will pay out
	compare := map[string]map[byte]string{
		stakingtypes.StoreKey: {0x31: "delegation", 0x32: "unbonding delegation", 0x33: "unbonding-by-validator index", 0x34: "redelegation",
			0x35: "redelegation-by-source-validator index", 0x36: "redelegation-by-destination-validator index", 0x41: "unbonding queue", 0x42: "redelegation queue",
			0x71: "delegation-by-validator index", 0x38: "unbonding-id index"},
	}
	da := wa.c.Dump(wa.c.Ctx, stakingtypes.StoreKey)
	db := wb.c.Dump(wb.c.Ctx, stakingtypes.StoreKey)
	var out []twinDiff
	for store, prefixes := range compare {
		want := map[string]string{}
		for k, v := range db[store] {
			if len(k) > 0 {
				if _, ok := prefixes[k[0]]; ok {
					want[ren(k)] = ren(v)
				}
			}
		}
		got := map[string]string{}
		for k, v := range da[store] {
			if len(k) > 0 {
				if _, ok := prefixes[k[0]]; ok {
					got[k] = v
				}
			}
		}
		var keys []string
		for k := range want {
			keys = append(keys, k)
		}
		for k := range got {
			if _, ok := want[k]; !ok {
				keys = append(keys, k)
			}
		}
		sort.Strings(keys)
		for _, k := range keys {
			name := prefixes[k[0]]
			w, okW := want[k]
			g, okG := got[k]
			switch {
			case okW && !okG:
				out = append(out, twinDiff{store + "/" + name, fmt.Sprintf("%s %x is missing (the twin that never migrated has it for the source)", name, k)})
			case !okW && okG:
				out = append(out, twinDiff{store + "/" + name, fmt.Sprintf("%s %x exists although the never-migrated twin has no such record for the source", name, k)})
			case w != g && !sameQueue(k[0], w, g):
				out = append(out, twinDiff{store + "/" + name, fmt.Sprintf("%s %x holds %x, the renamed twin holds %x", name, k, g, w)})
			}
		}
	}
	return out
}

// sameQueue: the entries of a time-slot of the unbonding / redelegation queue form a set; the migration
// may list them in another order.
func sameQueue(prefix byte, a, b string) bool {
	if prefix != 0x41 && prefix != 0x42 {
		return false
	}
	if len(a) != len(b) {
		return false
	}
	ca, cb := []byte(a), []byte(b)
	sort.Slice(ca, func(i, j int) bool { return ca[i] < ca[j] })
	sort.Slice(cb, func(i, j int) bool { return cb[i] < cb[j] })
	return bytes.Equal(ca, cb)
}
