package mon

import (
	"encoding/json"
	"fmt"
	"math/rand/v2"
	"sort"
	"strings"
	"time"

	"cosmossdk.io/collections"
	sdkmath "cosmossdk.io/math"
	sdk "github.com/cosmos/cosmos-sdk/types"
	banktypes "github.com/cosmos/cosmos-sdk/x/bank/types"
	distrtypes "github.com/cosmos/cosmos-sdk/x/distribution/types"
	govtypes "github.com/cosmos/cosmos-sdk/x/gov/types"
	govv1 "github.com/cosmos/cosmos-sdk/x/gov/types/v1"
	govv1beta1 "github.com/cosmos/cosmos-sdk/x/gov/types/v1beta1"
	stakingtypes "github.com/cosmos/cosmos-sdk/x/staking/types"

	fxtypes "github.com/functionx/fx-core/v8/types"
	crosschaintypes "github.com/functionx/fx-core/v8/x/crosschain/types"
	erc20types "github.com/functionx/fx-core/v8/x/erc20/types"
	fxgovtypes "github.com/functionx/fx-core/v8/x/gov/types"

	"verif/harness/chain"
	"verif/harness/core"
	"verif/harness/fix"
)

// C15: governance deposits are conserved and proposals follow their message-type rules.

type c15Spec struct {
	Seed  uint64 `json:"seed"`
	Mode  string `json:"mode"` // history | mixed | partial
	Steps int    `json:"steps"`
	K     int    `json:"k"` // partial: index of the failing message
	N     int    `json:"n"` // partial: number of messages
}

func init() {
	core.Register(&core.Prop{
		ID:    "C15",
		Level: "exploration",
		Rule: "mode history: seeded sequences of submit / deposit (several depositors, small increments) / vote (validators and a delegator, all options) / time advancement over 3-6 concurrent proposals of four message-type classes (default, erc20 = custom 7d/25%, community-pool spend = deposit ratio, a type whose custom parameters are added, changed and removed by real MsgUpdateCustomParams while no proposal of it is open); " +
			"a reference model predicts, per proposal, when voting starts (first block in which the total deposit reaches the applicable minimum), when it ends (configured period of its type), the tally (quorum of its type, threshold, veto) and the fate of every deposit; after every block gov-module balance == sum of stored deposits and every deposit has left at most once. " +
			"mode mixed: proposals mixing message types must be rejected. mode partial: a passed n-message proposal whose k-th message fails, compared by full store diff with the same proposal voted down. " +
			"Non-trivial: a history that ended >=3 proposals with >=2 different outcomes, or a mixed/partial case that reached its decision; distinct by outcome multiset / (n,k)",
		Assumptions: []string{
			"voting power model: validator vote = its tokens minus its delegators' own votes, delegator vote = its delegation tokens (no slashing in this workload, exchange rate 1)",
			"per-type parameters are changed only while no proposal of that type is open, so the applicable value is unambiguous",
		},
		Cases:            c15Cases,
		Run:              runC15,
		MinNontrivial:    8,
		RequiredCounters: []string{"balance_checks", "proposals_ended", "activation_checks", "tally_checks", "deposit_exit_checks", "quorum_between_checks", "egf_ratio_checks", "partial_twin_checks", "mixed_rejected"},
	})
}

func c15Cases(seed uint64, tier string) []core.Case {
	rng := core.Rng(seed, 0xC15)
	n := 24
	if tier == "thorough" {
		n = 300
	}
	var out []core.Case
	for i := 0; i < n; i++ {
		out = append(out, core.MkCase(fmt.Sprintf("C15-history-%03d", i), c15Spec{Seed: rng.Uint64(), Mode: "history", Steps: 60 + rng.IntN(60)}))
	}
	out = append(out, core.MkCase("C15-mixed", c15Spec{Seed: rng.Uint64(), Mode: "mixed"}))
	for _, nk := range [][2]int{{1, 0}, {2, 0}, {2, 1}, {3, 0}, {3, 1}, {3, 2}, {4, 2}} {
		out = append(out, core.MkCase(fmt.Sprintf("C15-partial-n%d-k%d", nk[0], nk[1]), c15Spec{Seed: rng.Uint64(), Mode: "partial", N: nk[0], K: nk[1]}))
	}
	return out
}

type c15Prop struct {
	id        uint64
	class     string
	url       string
	msgs      []sdk.Msg
	deposits  map[string]sdkmath.Int
	total     sdkmath.Int
	minDep    sdkmath.Int
	submitAt  time.Time
	voting    bool
	votStart  time.Time
	votEnd    time.Time
	period    time.Duration
	quorum    sdkmath.LegacyDec
	votes     map[string]govv1.VoteOption          // voter bech32 -> option
	split     map[string]govv1.WeightedVoteOptions // weighted votes (a later vote of the same voter replaces the earlier one, of either kind)
	done      bool
	outcome   string
	execFails bool // messages are built to fail on execution
	expedited bool // submitted as expedited and not yet converted to a regular proposal
}

type c15Run struct {
	spec        c15Spec
	c           *chain.Chain
	rng         *rand.Rand
	res         *core.CaseResult
	verb        bool
	props       map[uint64]*c15Prop
	users       []chain.Key
	deleg       chain.Key // a delegator with a known stake at validator 0
	delegStake  sdkmath.Int
	custom      map[string]*fxgovtypes.CustomParams // model of per-type params
	outcomes    map[string]int
	tok         *fix.WToken
	exactVoters map[string][]chain.Key // per message type: the validators whose share of the bonded stake is the type's quorum
	expOK       bool                   // governance has set the expedited minimum deposit in FX: expedited proposals can be made
}

func (r *c15Run) logf(f string, a ...interface{}) {
	if r.verb {
		fmt.Printf(f+"\n", a...)
	}
}

func runC15(cs core.Case, verbose bool) core.CaseResult {
	var spec c15Spec
	res := core.CaseResult{}
	if err := json.Unmarshal(cs.Spec, &spec); err != nil {
		res.Inconclusive = err.Error()
		return res
	}
	r := &c15Run{spec: spec, res: &res, verb: verbose, rng: core.Rng(spec.Seed, 15), props: map[uint64]*c15Prop{}, custom: map[string]*fxgovtypes.CustomParams{}, outcomes: map[string]int{}}
	if !r.setup() {
		return res
	}
	switch spec.Mode {
	case "history":
		r.history()
		var os []string
		for k, v := range r.outcomes {
			os = append(os, fmt.Sprintf("%s=%d", k, v))
		}
		sort.Strings(os)
		ended := 0
		for _, v := range r.outcomes {
			ended += v
		}
		res.Nontrivial = ended >= 3 && len(r.outcomes) >= 2
		res.Sig = strings.Join(os, ",")
		res.Sample = map[string]interface{}{"spec": spec, "outcomes": os}
	case "mixed":
		r.mixed()
		res.Sig, res.Nontrivial = "mixed", true
	default:
		r.partial()
		res.Sig = fmt.Sprintf("partial/n%d/k%d", spec.N, spec.K)
	}
	if res.Sample == nil {
		res.Sample = map[string]interface{}{"spec": spec}
	}
	return res
}

const egfURL = "/cosmos.distribution.v1beta1.MsgCommunityPoolSpend"

func (r *c15Run) setup() bool {
	c := chain.New(chain.Config{Seed: r.spec.Seed, NumVals: 3, NumUsers: 5, UserFX: 50_000_000})
	r.c = c
	r.users = c.Users[:3]
	r.deleg = c.Users[3]
	// a delegator holding 10% of validator 0's power
	r.delegStake = chain.FX(10_000)
	if res := c.Msg(&stakingMsgDelegate{DelegatorAddress: r.deleg.Bech32(), ValidatorAddress: c.Vals[0].Operator.Val().String(), Amount: sdk.NewCoin(fxtypes.DefaultDenom, r.delegStake)}); !res.OK() {
		r.res.Inconclusive = "delegate: " + res.ErrString()
		return false
	}
	w := fix.NewWorld(c)
	if _, err := w.AddBridge("eth", []sdkmath.Int{chain.FX(10000), chain.FX(10000), chain.FX(10000)}); err != nil {
		r.res.Inconclusive = err.Error()
		return false
	}
	if _, err := c.Next(); err != nil {
		r.res.Inconclusive = err.Error()
		return false
	}
	tok, err := w.AddModuleToken("USDT", "eth")
	if err != nil {
		r.res.Inconclusive = err.Error()
		return false
	}
	r.tok = tok
	_ = c.App.DistrKeeper.FundCommunityPool(c.Ctx, sdk.NewCoins(chain.FXCoin(5_000_000)), c.Users[4].Acc())
	if r.spec.Mode == "history" && r.spec.Seed%2 == 1 {
		// the genesis expedited minimum deposit is in a denomination deposits cannot use: governance sets one in FX
		gp := r.govParams()
		gp.ExpeditedMinDeposit = sdk.NewCoins(chain.FXCoin(20_000))
		if res := c.Msg(&govv1.MsgUpdateParams{Authority: chain.GovAuthority(), Params: gp}); !res.OK() {
			r.res.Inconclusive = "gov params: " + res.ErrString()
			return false
		}
		r.expOK = true
	}
	// model of the genesis custom parameters
	for _, ip := range fxgovtypes.DefaultInitGenesisCustomParams() {
		p := ip.Params
		r.custom[ip.MsgType] = &p
	}
	if _, err := c.Next(); err != nil {
		r.res.Inconclusive = err.Error()
		return false
	}
	return true
}

// mkMsgs builds the messages of a proposal of one class.
func (r *c15Run) mkMsgs(class string, fail bool) ([]sdk.Msg, string, sdkmath.Int) {
	gov := chain.GovAuthority()
	c := r.c
	req := sdkmath.ZeroInt()
	switch class {
	case "erc20":
		tokn := r.tok.Base
		if fail {
			tokn = "nosuchtoken"
		}
		m := &erc20types.MsgToggleTokenConversion{Authority: gov, Token: tokn}
		return []sdk.Msg{m, &erc20types.MsgToggleTokenConversion{Authority: gov, Token: r.tok.Base}}, sdk.MsgTypeURL(m), req
	case "egf":
		// requested amount decides the deposit minimum: ratio 10% => 10% of the request if that exceeds the default
		amts := []int64{1000, 99_000, 100_000, 101_000, 250_000, 1_000_000}
		a := chain.FX(amts[r.rng.IntN(len(amts))])
		if fail {
			a = chain.FX(900_000_000)
		}
		// one to three spends in one proposal: the share is taken of the total requested
		msgs := []sdk.Msg{&distrtypes.MsgCommunityPoolSpend{Authority: gov, Recipient: c.Users[4].Bech32(), Amount: sdk.NewCoins(sdk.NewCoin(fxtypes.DefaultDenom, a))}}
		for n := r.rng.IntN(3); n > 0 && !fail; n-- {
			b := chain.FX([]int64{500, 40_000, 60_000, 150_000}[r.rng.IntN(4)])
			msgs = append(msgs, &distrtypes.MsgCommunityPoolSpend{Authority: gov, Recipient: c.Users[4].Bech32(), Amount: sdk.NewCoins(sdk.NewCoin(fxtypes.DefaultDenom, b))})
			a = a.Add(b)
		}
		return msgs, egfURL, a
	case "bank":
		// a type whose custom parameters come and go
		m := &banktypes.MsgSetSendEnabled{Authority: gov, SendEnabled: []*banktypes.SendEnabled{{Denom: "apple", Enabled: !fail}}}
		if fail {
			m.UseDefaultFor = []string{"!!bad denom!!"}
		}
		return []sdk.Msg{m}, sdk.MsgTypeURL(m), req
	default:
		p := fix.KeeperOf(c, "eth").GetParams(c.Ctx)
		p.AverageBlockTime += uint64(1 + r.rng.IntN(100))
		if fail {
			p.AverageBlockTime = 1 // invalid
		}
		m := &crosschaintypes.MsgUpdateParams{ChainName: "eth", Authority: gov, Params: p}
		return []sdk.Msg{m}, sdk.MsgTypeURL(m), req
	}
}

func (r *c15Run) govParams() govv1.Params {
	p, _ := r.c.App.GovKeeper.Params.Get(r.c.Ctx)
	return p
}

// applicable minimum deposit / period / quorum by the independent reading of the rules
func (r *c15Run) rules(url string, requested sdkmath.Int, expedited bool) (sdkmath.Int, time.Duration, sdkmath.LegacyDec) {
	gp := r.govParams()
	min := sdk.Coins(gp.MinDeposit).AmountOf(fxtypes.DefaultDenom)
	period := *gp.VotingPeriod
	if expedited {
		min = sdk.Coins(gp.ExpeditedMinDeposit).AmountOf(fxtypes.DefaultDenom)
		period = *gp.ExpeditedVotingPeriod
	}
	quorum := sdkmath.LegacyMustNewDecFromStr(gp.Quorum)
	if cp, ok := r.custom[url]; ok {
		period = *cp.VotingPeriod
		quorum = sdkmath.LegacyMustNewDecFromStr(cp.Quorum)
	}
	if url == egfURL {
		if cp, ok := r.custom[egfURL]; ok {
			ratio := sdkmath.LegacyMustNewDecFromStr(cp.DepositRatio)
			need := sdkmath.LegacyNewDecFromInt(requested).Mul(ratio).RoundInt()
			if need.GT(min) {
				min = need
			}
		}
	}
	return min, period, quorum
}

func (r *c15Run) submit(class string, fail bool) {
	c := r.c
	msgs, url, req := r.mkMsgs(class, fail)
	proposer := r.users[r.rng.IntN(len(r.users))]
	init := chain.FX(int64(100 + r.rng.IntN(6000)))
	if r.rng.IntN(6) == 0 {
		init = chain.FX(int64(9000 + r.rng.IntN(3000)))
	}
	exp := r.expOK && r.rng.IntN(3) == 0
	if exp && r.rng.IntN(3) == 0 {
		init = chain.FX(int64(19_000 + r.rng.IntN(2000)))
	}
	min, period, quorum := r.rules(url, req, exp)
	id, res := fix.ProposeExpedited(c, proposer, msgs, sdk.NewCoins(sdk.NewCoin(fxtypes.DefaultDenom, init)), class, exp)
	r.logf("submit %s (fail=%v, requested %s, expedited=%v) deposit %s by %s -> id=%d %s", class, fail, req, exp, init, proposer.Label, id, short(res.ErrString()))
	if !res.OK() {
		return
	}
	p := &c15Prop{id: id, class: class, url: url, msgs: msgs, deposits: map[string]sdkmath.Int{proposer.Bech32(): init}, total: init, minDep: min, submitAt: c.Time,
		period: period, quorum: quorum, votes: map[string]govv1.VoteOption{}, execFails: fail, expedited: exp}
	if exp {
		r.res.Count("expedited_proposals", 1)
	}
	r.props[id] = p
	if class == "egf" {
		r.res.Count("egf_ratio_checks", 1)
	}
	r.checkActivation(p, "submit")
}

// checkActivation: voting starts exactly when the total deposit first reaches the applicable minimum.
func (r *c15Run) checkActivation(p *c15Prop, what string) {
	c := r.c
	sp, ok := fix.Proposal(c, p.id)
	if !ok {
		r.res.Violate("C15/proposal-missing", "%s: proposal %d not stored", what, p.id)
		return
	}
	r.res.Count("activation_checks", 1)
	should := p.total.GTE(p.minDep)
	is := sp.Status == govv1.StatusVotingPeriod
	if !p.voting && should != is {
		key := "C15/voting-activation/" + p.class
		r.res.Violate(key, "%s: proposal %d (%s) has total deposit %s, applicable minimum %s: voting should be %v, status is %s", what, p.id, p.class, p.total, p.minDep, should, sp.Status)
	}
	if is && !p.voting {
		p.voting = true
		p.votStart = c.Time
		p.votEnd = c.Time.Add(p.period)
		if sp.VotingStartTime == nil || !sp.VotingStartTime.Equal(p.votStart) || sp.VotingEndTime == nil || !sp.VotingEndTime.Equal(p.votEnd) {
			r.res.Violate("C15/voting-period/"+p.class, "%s: proposal %d (%s): voting %v .. %v stored, expected %v .. %v (period %s configured for its type)", what, p.id, p.class, sp.VotingStartTime, sp.VotingEndTime, p.votStart, p.votEnd, p.period)
		}
	}
	if !sdk.Coins(sp.TotalDeposit).AmountOf(fxtypes.DefaultDenom).Equal(p.total) {
		r.res.Violate("C15/total-deposit-mismatch", "%s: proposal %d stores total deposit %s, the deposits made sum to %s", what, p.id, sp.TotalDeposit, p.total)
	}
}

func (r *c15Run) open() []*c15Prop {
	var out []*c15Prop
	for _, p := range r.props {
		if !p.done {
			out = append(out, p)
		}
	}
	sort.Slice(out, func(i, j int) bool { return out[i].id < out[j].id })
	return out
}

func (r *c15Run) deposit() {
	ps := r.open()
	if len(ps) == 0 {
		return
	}
	p := ps[r.rng.IntN(len(ps))]
	u := r.users[r.rng.IntN(len(r.users))]
	amt := chain.FX(int64(100 + r.rng.IntN(5000)))
	if gap := p.minDep.Sub(p.total); gap.IsPositive() && r.rng.IntN(3) == 0 {
		// land exactly on, one below, or one above the boundary
		switch r.rng.IntN(3) {
		case 0:
			amt = gap
		case 1:
			amt = gap.SubRaw(1)
		default:
			amt = gap.AddRaw(1)
		}
		if amt.LT(chain.FX(100)) {
			amt = chain.FX(100)
		}
	}
	var res chain.Result
	legacy := r.rng.IntN(3) == 0
	if legacy {
		// the same deposit sent as the older message type, which is still routed
		res = r.c.Msg(govv1beta1.NewMsgDeposit(u.Acc(), p.id, sdk.NewCoins(sdk.NewCoin(fxtypes.DefaultDenom, amt))))
		r.res.Count("legacy_deposits", 1)
	} else {
		res = fix.GovDeposit(r.c, u, p.id, sdk.NewCoins(sdk.NewCoin(fxtypes.DefaultDenom, amt)))
	}
	r.logf("deposit %s on %d by %s (legacy message: %v) -> %s", amt, p.id, u.Label, legacy, short(res.ErrString()))
	if !res.OK() {
		return
	}
	if cur, ok := p.deposits[u.Bech32()]; ok {
		p.deposits[u.Bech32()] = cur.Add(amt)
	} else {
		p.deposits[u.Bech32()] = amt
	}
	p.total = p.total.Add(amt)
	r.checkActivation(p, "deposit")
}

func (r *c15Run) vote() {
	var ps []*c15Prop
	for _, p := range r.open() {
		if p.voting {
			ps = append(ps, p)
		}
	}
	if len(ps) == 0 {
		return
	}
	p := ps[r.rng.IntN(len(ps))]
	if p.quorum.Equal(sdkmath.LegacyOneDec()) && len(p.votes) == 0 && len(p.split) == 0 {
		// everybody has to vote, and everybody does
		for _, v := range []chain.Key{r.c.Vals[0].Operator, r.c.Vals[1].Operator, r.c.Vals[2].Operator, r.deleg} {
			if res := fix.GovVote(r.c, v, p.id, govv1.OptionYes); res.OK() {
				p.votes[v.Bech32()] = govv1.OptionYes
			}
		}
		r.res.Count("turnout_equal_to_quorum_attempts", 1)
		return
	}
	if p.quorum.IsZero() {
		// a type without a quorum: the small delegator's vote stays the only one (a turnout far below the
		// chain-wide quorum, which must not matter)
		if len(p.votes) == 0 && len(p.split) == 0 {
			if res := fix.GovVote(r.c, r.deleg, p.id, govv1.OptionYes); res.OK() {
				p.votes[r.deleg.Bech32()] = govv1.OptionYes
			}
			r.res.Count("lone_small_votes_for_a_type_without_quorum", 1)
		}
		return
	}
	if ev, ok := r.exactVoters[p.url]; ok && len(p.votes) == 0 && len(p.split) == 0 {
		// exactly the validators whose combined share equals the quorum of this type vote yes
		for _, v := range ev {
			if res := fix.GovVote(r.c, v, p.id, govv1.OptionYes); res.OK() {
				p.votes[v.Bech32()] = govv1.OptionYes
			}
		}
		r.res.Count("turnout_equal_to_quorum_attempts", 1)
		return
	}
	voters := []chain.Key{r.c.Vals[0].Operator, r.c.Vals[1].Operator, r.c.Vals[2].Operator, r.deleg}
	v := voters[r.rng.IntN(len(voters))]
	opts := []govv1.VoteOption{govv1.OptionYes, govv1.OptionYes, govv1.OptionYes, govv1.OptionNo, govv1.OptionAbstain, govv1.OptionNoWithVeto}
	o := opts[r.rng.IntN(len(opts))]
	if r.rng.IntN(5) == 0 {
		// a vote split over two or three options: its power counts once towards the turnout
		o2 := opts[r.rng.IntN(len(opts))]
		for o2 == o {
			o2 = []govv1.VoteOption{govv1.OptionYes, govv1.OptionNo, govv1.OptionAbstain, govv1.OptionNoWithVeto}[r.rng.IntN(4)]
		}
		ws := govv1.WeightedVoteOptions{{Option: o, Weight: "0.5"}, {Option: o2, Weight: "0.5"}}
		switch r.rng.IntN(3) {
		case 0:
			ws = govv1.WeightedVoteOptions{{Option: o, Weight: "0.75"}, {Option: o2, Weight: "0.25"}}
		case 1:
			for _, o3 := range []govv1.VoteOption{govv1.OptionAbstain, govv1.OptionYes, govv1.OptionNo} {
				if o3 != o && o3 != o2 {
					ws = govv1.WeightedVoteOptions{{Option: o, Weight: "0.2"}, {Option: o2, Weight: "0.3"}, {Option: o3, Weight: "0.5"}}
					break
				}
			}
		}
		res := fix.GovVoteWeighted(r.c, v, p.id, ws)
		r.logf("weighted vote %v on %d by %s -> %s", ws, p.id, v.Label, short(res.ErrString()))
		if res.OK() {
			r.res.Count("weighted_votes", 1)
			if p.split == nil {
				p.split = map[string]govv1.WeightedVoteOptions{}
			}
			p.split[v.Bech32()] = ws
			delete(p.votes, v.Bech32())
		}
		return
	}
	res := fix.GovVote(r.c, v, p.id, o)
	r.logf("vote %s on %d by %s -> %s", o, p.id, v.Label, short(res.ErrString()))
	if res.OK() {
		p.votes[v.Bech32()] = o
		delete(p.split, v.Bech32())
	}
}

// expectedTally: the independent tally model.
func (r *c15Run) expectedTally(p *c15Prop) (passes bool, burn bool, participation sdkmath.LegacyDec) {
	c := r.c
	totalBonded, _ := c.App.StakingKeeper.TotalBondedTokens(c.Ctx)
	zero := sdkmath.LegacyZeroDec()
	power := map[govv1.VoteOption]sdkmath.LegacyDec{govv1.OptionYes: zero, govv1.OptionNo: zero, govv1.OptionAbstain: zero, govv1.OptionNoWithVeto: zero}
	total := sdkmath.ZeroInt()
	// a voter's power counts once towards the turnout, however its vote is split over the options
	cast := func(addr string, x sdkmath.Int) bool {
		if ws, ok := p.split[addr]; ok {
			for _, w := range ws {
				power[w.Option] = power[w.Option].Add(sdkmath.LegacyNewDecFromInt(x).Mul(sdkmath.LegacyMustNewDecFromStr(w.Weight)))
			}
			total = total.Add(x)
			return true
		}
		if o, ok := p.votes[addr]; ok {
			power[o] = power[o].Add(sdkmath.LegacyNewDecFromInt(x))
			total = total.Add(x)
			return true
		}
		return false
	}
	delegVoted := cast(r.deleg.Bech32(), r.delegStake)
	for i, v := range c.Vals {
		val, _ := c.App.StakingKeeper.GetValidator(c.Ctx, v.Operator.Val())
		pw := val.Tokens
		if i == 0 && delegVoted {
			pw = pw.Sub(r.delegStake)
		}
		cast(v.Operator.Bech32(), pw)
	}
	participation = sdkmath.LegacyNewDecFromInt(total).Quo(sdkmath.LegacyNewDecFromInt(totalBonded))
	if participation.Equal(p.quorum) && !p.quorum.IsZero() {
		r.res.Count("tallies_with_turnout_equal_to_quorum", 1)
	}
	gp := r.govParams()
	if participation.LT(p.quorum) {
		return false, gp.BurnVoteQuorum, participation
	}
	nonAbstain := sdkmath.LegacyNewDecFromInt(total).Sub(power[govv1.OptionAbstain])
	if nonAbstain.IsZero() {
		return false, false, participation
	}
	veto := sdkmath.LegacyMustNewDecFromStr(gp.VetoThreshold)
	if power[govv1.OptionNoWithVeto].Quo(sdkmath.LegacyNewDecFromInt(total)).GT(veto) {
		return false, gp.BurnVoteVeto, participation
	}
	thr := sdkmath.LegacyMustNewDecFromStr(gp.Threshold)
	if p.expedited {
		thr = sdkmath.LegacyMustNewDecFromStr(gp.ExpeditedThreshold)
	}
	if power[govv1.OptionYes].Quo(nonAbstain).GT(thr) {
		return true, false, participation
	}
	return false, false, participation
}

func (r *c15Run) balances() map[string]sdkmath.Int {
	m := map[string]sdkmath.Int{}
	for _, u := range r.c.Users {
		m[u.Bech32()] = r.c.Balance(r.c.Ctx, u.Acc(), fxtypes.DefaultDenom)
	}
	return m
}

// block advances time and judges everything that ended in it.
func (r *c15Run) block(dt time.Duration) bool {
	c := r.c
	bal0 := r.balances()
	supply0 := c.Supply(c.Ctx, fxtypes.DefaultDenom)
	gp := r.govParams()
	// who is due in the block that is being closed (end blockers run at the current block time)
	now := c.Time
	type due struct {
		p                 *c15Prop
		passes, burn, dep bool
		part              sdkmath.LegacyDec
	}
	var dues []due
	for _, p := range r.open() {
		if p.voting && !p.votEnd.After(now) {
			pass, burn, part := r.expectedTally(p)
			dues = append(dues, due{p: p, passes: pass, burn: burn, part: part})
		} else if !p.voting && !p.submitAt.Add(*gp.MaxDepositPeriod).After(now) {
			dues = append(dues, due{p: p, dep: true, burn: gp.BurnProposalDepositPrevote})
		}
	}
	if _, err := c.EndBlock(dt); err != nil {
		r.res.Inconclusive = "block failed: " + short(err.Error())
		return false
	}
	bal1 := r.balances()
	expect := map[string]sdkmath.Int{}
	burnt := sdkmath.ZeroInt()
	egfPaid := sdkmath.ZeroInt()
	for _, d := range dues {
		p := d.p
		if !d.dep && p.expedited && !d.passes {
			// an expedited proposal that does not pass becomes a regular one: it stays open until the regular
			// voting period (counted from the start of voting) ends, its deposits stay where they are and
			// the votes cast so far are gone
			p.expedited = false
			p.votEnd = p.votStart.Add(*gp.VotingPeriod)
			p.votes = map[string]govv1.VoteOption{}
			p.split = nil
			r.res.Count("expedited_conversions", 1)
			sp, ok := fix.Proposal(c, p.id)
			if !ok || sp.Status != govv1.StatusVotingPeriod || sp.Expedited || sp.VotingEndTime == nil || !sp.VotingEndTime.Equal(p.votEnd) {
				r.res.Violate("C15/expedited-conversion", "expedited proposal %d (%s) did not pass (participation %s): expected a regular proposal voting until %v, stored %v expedited=%v until %v", p.id, p.class, d.part, p.votEnd, sp.Status, sp.Expedited, sp.VotingEndTime)
			}
			continue
		}
		if !d.dep && p.expedited {
			r.res.Count("expedited_passed", 1)
		}
		p.done = true
		r.res.Count("proposals_ended", 1)
		sp, ok := fix.Proposal(c, p.id)
		if d.dep {
			p.outcome = "dropped"
			if ok {
				r.res.Violate("C15/expired-proposal-survives", "proposal %d did not reach its minimum deposit in time but is still stored (%s)", p.id, sp.Status)
			}
		} else {
			r.res.Count("tally_checks", 1)
			def := sdkmath.LegacyMustNewDecFromStr(gp.Quorum)
			if !p.quorum.Equal(def) && ((d.part.GTE(p.quorum) && d.part.LT(def)) || (d.part.LT(p.quorum) && d.part.GTE(def))) {
				r.res.Count("quorum_between_checks", 1)
			}
			want := govv1.StatusRejected
			if d.passes {
				want = govv1.StatusPassed
				if p.execFails {
					want = govv1.StatusFailed
				}
			}
			p.outcome = want.String()
			if !ok || sp.Status != want {
				r.res.Violate("C15/tally-outcome/"+p.class, "proposal %d (%s): participation %s, quorum of its type %s, votes %v: expected %s, stored %v", p.id, p.class, d.part, p.quorum, p.votes, want, sp.Status)
			}
			if d.passes && !p.execFails && p.class == "egf" {
				for _, pm := range p.msgs {
					egfPaid = egfPaid.Add(pm.(*distrtypes.MsgCommunityPoolSpend).Amount.AmountOf(fxtypes.DefaultDenom))
				}
			}
		}
		r.outcomes[p.outcome]++
		for who, amt := range p.deposits {
			r.res.Count("deposit_exit_checks", 1)
			if d.burn {
				burnt = burnt.Add(amt)
				continue
			}
			if cur, ok := expect[who]; ok {
				expect[who] = cur.Add(amt)
			} else {
				expect[who] = amt
			}
		}
	}
	for who, b1 := range bal1 {
		got := b1.Sub(bal0[who])
		want, ok := expect[who]
		if !ok {
			want = sdkmath.ZeroInt()
		}
		if who == c.Users[4].Bech32() {
			want = want.Add(egfPaid)
		}
		if !got.Equal(want) {
			r.res.Violate("C15/deposit-refund", "end of block %d: balance of %s changed by %s, the deposits due to it are %s", c.Height-1, who, got, want)
		}
	}
	if d := supply0.Sub(c.Supply(c.Ctx, fxtypes.DefaultDenom)); !d.Equal(burnt) {
		r.res.Violate("C15/deposit-burn", "end of block %d: supply shrank by %s, deposits to burn were %s", c.Height-1, d, burnt)
	}
	r.checkGovBalance("end-block")
	return true
}

// checkGovBalance: the module account holds exactly the stored deposits (all of open proposals).
func (r *c15Run) checkGovBalance(what string) {
	c := r.c
	r.res.Count("balance_checks", 1)
	sum := sdk.NewCoins()
	perProp := map[uint64]sdkmath.Int{}
	_ = c.App.GovKeeper.Deposits.Walk(c.Ctx, nil, func(_ collectionsPair, d govv1.Deposit) (bool, error) {
		sum = sum.Add(d.Amount...)
		cur, ok := perProp[d.ProposalId]
		if !ok {
			cur = sdkmath.ZeroInt()
		}
		perProp[d.ProposalId] = cur.Add(sdk.Coins(d.Amount).AmountOf(fxtypes.DefaultDenom))
		return false, nil
	})
	bal := c.App.BankKeeper.GetAllBalances(c.Ctx, chain.ModuleAddr(govtypes.ModuleName))
	if !bal.Equal(sum) {
		r.res.Violate("C15/gov-balance-vs-deposits", "%s: the governance module account holds %s, the stored deposits sum to %s", what, bal, sum)
	}
	for id, amt := range perProp {
		p, ok := r.props[id]
		if !ok {
			continue
		}
		if p.done {
			r.res.Violate("C15/deposit-of-ended-proposal", "%s: proposal %d has ended (%s) but %s of deposits are still stored", what, id, p.outcome, amt)
		} else if !amt.Equal(p.total) {
			r.res.Violate("C15/stored-deposits-mismatch", "%s: proposal %d stores deposits of %s, made were %s", what, id, amt, p.total)
		}
	}
	for _, p := range r.open() {
		if _, ok := perProp[p.id]; !ok {
			r.res.Violate("C15/open-proposal-without-deposits", "%s: open proposal %d has no stored deposits (expected %s)", what, p.id, p.total)
		}
	}
}

// customParams: add / change / remove per-type parameters while no proposal of the type is open.
func (r *c15Run) customParams() {
	classURL := map[string]string{"bank": sdk.MsgTypeURL(&banktypes.MsgSetSendEnabled{}), "erc20": sdk.MsgTypeURL(&erc20types.MsgToggleTokenConversion{}), "egf": egfURL}
	classes := []string{"bank", "erc20", "egf"}
	cl := classes[r.rng.IntN(len(classes))]
	url := classURL[cl]
	for _, p := range r.open() {
		if p.url == url {
			return
		}
	}
	var msg *fxgovtypes.MsgUpdateCustomParams
	if _, has := r.custom[url]; has && r.rng.IntN(3) == 0 && cl == "bank" {
		msg = &fxgovtypes.MsgUpdateCustomParams{Authority: chain.GovAuthority(), MsgUrl: url}
	} else {
		period := time.Duration(1+r.rng.IntN(20)) * 24 * time.Hour
		quorum := fmt.Sprintf("0.%02d", 10+r.rng.IntN(60))
		delete(r.exactVoters, url)
		switch r.rng.IntN(9) % 7 {
		case 0:
			quorum = "0" // boundary values the validation accepts: no quorum at all ...
		case 1:
			quorum = "1" // ... and everybody has to vote
		case 2:
			// ... and exactly the share of the bonded stake that one or two named validators hold, so that
			// a turnout equal to the quorum can be produced
			c := r.c
			total, _ := c.App.StakingKeeper.TotalBondedTokens(c.Ctx)
			voters := []chain.Key{c.Vals[1].Operator}
			pw := sdkmath.ZeroInt()
			if r.rng.IntN(2) == 0 {
				voters = append(voters, c.Vals[2].Operator)
			}
			for i, v := range c.Vals {
				for _, k := range voters {
					if k.Bech32() == v.Operator.Bech32() {
						val, _ := c.App.StakingKeeper.GetValidator(c.Ctx, c.Vals[i].Operator.Val())
						pw = pw.Add(val.Tokens)
					}
				}
			}
			quorum = sdkmath.LegacyNewDecFromInt(pw).Quo(sdkmath.LegacyNewDecFromInt(total)).String()
			if r.exactVoters == nil {
				r.exactVoters = map[string][]chain.Key{}
			}
			r.exactVoters[url] = voters
		}
		ratio := "0"
		if cl == "egf" {
			ratio = fmt.Sprintf("0.%02d", 5+r.rng.IntN(30))
		}
		msg = &fxgovtypes.MsgUpdateCustomParams{Authority: chain.GovAuthority(), MsgUrl: url, CustomParams: *fxgovtypes.NewCustomParams(ratio, period, quorum)}
	}
	res := r.c.Msg(msg)
	r.logf("custom params %s -> %+v: %s", cl, msg.CustomParams, short(res.ErrString()))
	if !res.OK() {
		return
	}
	r.res.Count("custom_param_updates", 1)
	if msg.CustomParams == (fxgovtypes.CustomParams{}) {
		delete(r.custom, url)
	} else {
		cp := msg.CustomParams
		r.custom[url] = &cp
	}
}

func (r *c15Run) history() {
	classes := []string{"default", "erc20", "egf", "bank", "erc20", "egf"}
	for step := 0; step < r.spec.Steps && r.res.Inconclusive == ""; step++ {
		switch x := r.rng.IntN(100); {
		case x < 14:
			if len(r.open()) < 6 {
				r.submit(classes[r.rng.IntN(len(classes))], r.rng.IntN(5) == 0)
			}
		case x < 40:
			r.deposit()
		case x < 62:
			r.vote()
		case x < 68:
			r.customParams()
		case x < 84:
			// jump to just before / exactly at / just after the next deadline
			var next time.Time
			gp := r.govParams()
			for _, p := range r.open() {
				t := p.submitAt.Add(*gp.MaxDepositPeriod)
				if p.voting {
					t = p.votEnd
				}
				if next.IsZero() || t.Before(next) {
					next = t
				}
			}
			dt := time.Duration(1+r.rng.IntN(72)) * time.Hour
			if !next.IsZero() {
				dt = next.Sub(r.c.Time) + time.Duration(r.rng.IntN(3)-1)*time.Second
				if dt <= 0 {
					dt = time.Second
				}
			}
			if !r.block(dt) {
				return
			}
		default:
			if !r.block(0) {
				return
			}
		}
	}
	// let everything end
	for i := 0; i < 4 && r.res.Inconclusive == ""; i++ {
		r.block(16 * 24 * time.Hour)
	}
	if len(r.open()) > 0 {
		r.res.Violate("C15/proposal-never-ended", "%d proposals are still open 64 days later", len(r.open()))
	}
}

// mixed: proposals whose messages are of different types are rejected.
func (r *c15Run) mixed() {
	c := r.c
	gov := chain.GovAuthority()
	p := fix.KeeperOf(c, "eth").GetParams(c.Ctx)
	combos := [][]sdk.Msg{
		{&erc20types.MsgToggleTokenConversion{Authority: gov, Token: r.tok.Base}, &crosschaintypes.MsgUpdateParams{ChainName: "eth", Authority: gov, Params: p}},
		{&distrtypes.MsgCommunityPoolSpend{Authority: gov, Recipient: c.Users[4].Bech32(), Amount: sdk.NewCoins(chain.FXCoin(1_000_000))}, &erc20types.MsgToggleTokenConversion{Authority: gov, Token: r.tok.Base}},
		{&erc20types.MsgToggleTokenConversion{Authority: gov, Token: r.tok.Base}, &distrtypes.MsgCommunityPoolSpend{Authority: gov, Recipient: c.Users[4].Bech32(), Amount: sdk.NewCoins(chain.FXCoin(1_000_000))}},
		{&erc20types.MsgToggleTokenConversion{Authority: gov, Token: r.tok.Base}, &erc20types.MsgUpdateDenomAlias{Authority: gov, Denom: r.tok.Base, Alias: "bsc0x0000000000000000000000000000000000000001"}},
	}
	// a wrapped legacy content next to a message of another type, in both orders
	if legacy, err := govv1.NewLegacyContent(govv1beta1.NewTextProposal("text", "a text proposal in the old form"), gov); err == nil {
		spend := &distrtypes.MsgCommunityPoolSpend{Authority: gov, Recipient: c.Users[4].Bech32(), Amount: sdk.NewCoins(chain.FXCoin(1_000_000))}
		combos = append(combos, []sdk.Msg{legacy, spend}, []sdk.Msg{spend, legacy}, []sdk.Msg{legacy, &erc20types.MsgToggleTokenConversion{Authority: gov, Token: r.tok.Base}})
	}
	before := c.Dump(c.Ctx)
	for i, msgs := range combos {
		_, res := fix.Propose(c, r.users[0], msgs, sdk.NewCoins(chain.FXCoin(20000)), "mixed")
		if res.OK() {
			r.res.Violate("C15/mixed-type-proposal-accepted", "a proposal mixing %s and %s was accepted", sdk.MsgTypeURL(msgs[0]), sdk.MsgTypeURL(msgs[1]))
		} else {
			r.res.Count("mixed_rejected", 1)
		}
		_ = i
	}
	if d := chain.Diff(before, c.Dump(c.Ctx)); len(d) > 0 {
		r.res.Violate("C15/rejected-proposal-wrote", "rejected mixed proposals left %d store changes, e.g. %s", len(d), d[0])
	}
	// same type twice is fine (positive control)
	if _, res := fix.Propose(c, r.users[0], []sdk.Msg{&erc20types.MsgToggleTokenConversion{Authority: gov, Token: r.tok.Base}, &erc20types.MsgToggleTokenConversion{Authority: gov, Token: r.tok.Base}}, sdk.NewCoins(chain.FXCoin(20000)), "same"); !res.OK() {
		r.res.Violate("C15/same-type-proposal-rejected", "a two-message proposal of one type was rejected: %s", res.ErrString())
	}
}

// partial: a passed n-message proposal whose k-th message fails == the same proposal voted down.
func (r *c15Run) partial() {
	c := r.c
	gov := chain.GovAuthority()
	var msgs []sdk.Msg
	for i := 0; i < r.spec.N; i++ {
		tok := r.tok.Base
		if i == r.spec.K {
			tok = "nosuchtoken"
		}
		msgs = append(msgs, &erc20types.MsgToggleTokenConversion{Authority: gov, Token: tok})
	}
	gp := r.govParams()
	id, res := fix.Propose(c, r.users[0], msgs, gp.MinDeposit, "partial")
	if !res.OK() {
		r.res.Inconclusive = res.ErrString()
		return
	}
	p, _ := fix.Proposal(c, id)
	if p.Status != govv1.StatusVotingPeriod {
		r.res.Inconclusive = "not voting"
		return
	}
	if _, err := c.Next(); err != nil {
		r.res.Inconclusive = err.Error()
		return
	}
	end := p.VotingEndTime.Add(time.Second)
	run := func(opt govv1.VoteOption) (sdk.Context, govv1.ProposalStatus) {
		ctx := c.Branch()
		for _, v := range c.Vals {
			c.MsgOn(ctx, govv1.NewMsgVote(v.Operator.Acc(), id, opt, ""))
		}
		ectx := ctx.WithBlockTime(end).WithBlockHeight(c.Height + 1)
		if _, err := c.App.EndBlocker(ectx); err != nil {
			r.res.Inconclusive = "end blocker on branch: " + err.Error()
		}
		sp, _ := c.App.GovKeeper.Proposals.Get(ectx, id)
		return ectx, sp.Status
	}
	ca, sa := run(govv1.OptionYes)
	cb, sb := run(govv1.OptionNo)
	r.res.Count("partial_twin_checks", 1)
	if sa != govv1.StatusFailed {
		r.res.Violate("C15/partial-failure-status", "a passed proposal whose message %d of %d fails has status %s", r.spec.K, r.spec.N, sa)
	}
	if sb != govv1.StatusRejected {
		r.res.Inconclusive = "twin not rejected: " + sb.String()
		return
	}
	r.res.Nontrivial = true
	var lines []string
	for _, d := range chain.Diff(c.Dump(ca), c.Dump(cb)) {
		if d.Store == govtypes.StoreKey {
			continue // proposal, tally and vote records
		}
		lines = append(lines, d.String())
	}
	if len(lines) > 0 {
		r.res.Violate(fmt.Sprintf("C15/partial-effects-of-failed-proposal/n%d-k%d", r.spec.N, r.spec.K), "passed %d-message proposal whose message %d fails differs from the voted-down twin outside the gov store in %d keys: %s", r.spec.N, r.spec.K, len(lines), strings.Join(firstN(lines, 5), " | "))
	}
}

type stakingMsgDelegate = stakingtypes.MsgDelegate

type collectionsPair = collections.Pair[uint64, sdk.AccAddress]
