package mon

import (
	"bytes"
	"encoding/hex"
	"encoding/json"
	"fmt"
	"math/big"
	"reflect"
	"sort"
	"strings"

	sdkmath "cosmossdk.io/math"
	upgradetypes "cosmossdk.io/x/upgrade/types"
	sdk "github.com/cosmos/cosmos-sdk/types"
	"github.com/cosmos/cosmos-sdk/types/bech32"
	authtypes "github.com/cosmos/cosmos-sdk/x/auth/types"
	banktypes "github.com/cosmos/cosmos-sdk/x/bank/types"
	consensustypes "github.com/cosmos/cosmos-sdk/x/consensus/types"
	crisistypes "github.com/cosmos/cosmos-sdk/x/crisis/types"
	distrtypes "github.com/cosmos/cosmos-sdk/x/distribution/types"
	govv1 "github.com/cosmos/cosmos-sdk/x/gov/types/v1"
	govv1beta1 "github.com/cosmos/cosmos-sdk/x/gov/types/v1beta1"
	minttypes "github.com/cosmos/cosmos-sdk/x/mint/types"
	slashingtypes "github.com/cosmos/cosmos-sdk/x/slashing/types"
	stakingtypes "github.com/cosmos/cosmos-sdk/x/staking/types"
	ibctransfertypes "github.com/cosmos/ibc-go/v8/modules/apps/transfer/types"
	ibcclienttypes "github.com/cosmos/ibc-go/v8/modules/core/02-client/types"
	ibcconntypes "github.com/cosmos/ibc-go/v8/modules/core/03-connection/types"
	ibcchantypes "github.com/cosmos/ibc-go/v8/modules/core/04-channel/types"
	"github.com/ethereum/go-ethereum/common"
	evmtypes "github.com/evmos/ethermint/x/evm/types"
	feemarkettypes "github.com/evmos/ethermint/x/feemarket/types"

	fxcontract "github.com/functionx/fx-core/v8/contract"
	fxtypes "github.com/functionx/fx-core/v8/types"
	crosschaintypes "github.com/functionx/fx-core/v8/x/crosschain/types"
	erc20types "github.com/functionx/fx-core/v8/x/erc20/types"
	fxevmtypes "github.com/functionx/fx-core/v8/x/evm/types"
	fxgovtypes "github.com/functionx/fx-core/v8/x/gov/types"

	"verif/harness/chain"
	"verif/harness/core"
	"verif/harness/fix"
)

// C16: every registered message that carries an `authority` takes effect only with the
// governance module account as authority; with anything else it errors and leaves the
// whole multistore byte-for-byte unchanged. MsgUpdateStore additionally is a
// compare-and-set.

type c16Spec struct {
	Seed  uint64 `json:"seed"`
	Mode  string `json:"mode"` // authority | updatestore
	Shard int    `json:"shard"`
	Of    int    `json:"of"`
}

func init() {
	core.Register(&core.Prop{
		ID:    "C16",
		Level: "exploration",
		Rule: "message types are discovered at run time from the interface registry (every routable sdk.Msg with a string field Authority); per type: curated valid payloads x hostile authorities " +
			"{random account, every module account, oracle, bridger, empty, other HRP, case-mangled, truncated, padded}; each on a fresh branch of one block state, full multistore dump compared; " +
			"positive control with the governance authority. MsgUpdateStore: random keys/stores with matching / non-matching / empty old values. " +
			"Non-trivial: a (type, payload) whose positive control succeeded; distinct by type url + payload label",
		Assumptions: []string{
			"messages are routed through the real MsgServiceRouter handler on a copy-on-write branch of the open block",
			"types with no curated payload are reported under coverage.counters.uncovered_types / coverage.uncovered (inconclusive for that type only)",
		},
		Cases:            c16Cases,
		Run:              runC16,
		MinNontrivial:    30,
		RequiredCounters: []string{"rejections_checked", "positive_controls_ok", "updatestore_applied", "updatestore_refused"},
	})
}

func c16Cases(seed uint64, tier string) []core.Case {
	rng := core.Rng(seed, 0xC16)
	var out []core.Case
	shards := 8
	reps := 1
	if tier == "thorough" {
		reps = 6
	}
	for rep := 0; rep < reps; rep++ {
		for s := 0; s < shards; s++ {
			out = append(out, core.MkCase(fmt.Sprintf("C16-auth-%d-%d", rep, s), c16Spec{Seed: rng.Uint64(), Mode: "authority", Shard: s, Of: shards}))
		}
		for s := 0; s < 4; s++ {
			out = append(out, core.MkCase(fmt.Sprintf("C16-store-%d-%d", rep, s), c16Spec{Seed: rng.Uint64(), Mode: "updatestore", Shard: s, Of: 4}))
		}
	}
	return out
}

type c16World struct {
	c    *chain.Chain
	w    *fix.World
	eth  *fix.Bridge
	tok  *fix.WToken
	ext  *fix.WToken
	cont common.Address
}

func c16Setup(seed uint64) (*c16World, error) {
	c := chain.New(chain.Config{Seed: seed, NumVals: 2, NumUsers: 4})
	w := fix.NewWorld(c)
	stakes := []sdkmath.Int{chain.FX(10000), chain.FX(10000), chain.FX(10000), chain.FX(10000)}
	for _, name := range crosschaintypes.GetSupportChains() {
		if _, err := w.AddBridge(name, stakes); err != nil {
			return nil, err
		}
	}
	if _, err := c.Next(); err != nil {
		return nil, err
	}
	tok, err := w.AddModuleToken("USDT", "eth")
	if err != nil {
		return nil, err
	}
	ext, err := w.AddExternalToken(c.Users[3], "XTK", big.NewInt(1_000_000), "eth")
	if err != nil {
		return nil, err
	}
	// a contract to call: stores calldata word 0 at slot 0 — PUSH1 0 CALLDATALOAD PUSH1 0 SSTORE STOP
	cont, err := c.Deploy(c.Users[0], []byte{0x60, 0x00, 0x35, 0x60, 0x00, 0x55, 0x00})
	if err != nil {
		return nil, err
	}
	if _, err := c.Next(); err != nil {
		return nil, err
	}
	return &c16World{c: c, w: w, eth: w.Bridges["eth"], tok: tok, ext: ext, cont: cont}, nil
}

type payload struct {
	label string
	msg   sdk.Msg
}

// payloads returns curated valid payloads (authority left empty) for a discovered type.
func (x *c16World) payloads(url string, rngSeed uint64) []payload {
	c := x.c
	ctx := c.Ctx
	rng := core.Rng(rngSeed, 16)
	var out []payload
	add := func(label string, m sdk.Msg) { out = append(out, payload{label, m}) }
	switch url {
	case sdk.MsgTypeURL(&crosschaintypes.MsgUpdateParams{}):
		for _, name := range crosschaintypes.GetSupportChains() {
			p := fix.KeeperOf(c, name).GetParams(ctx)
			p.SignedWindow += uint64(1 + rng.IntN(50))
			p.AverageBlockTime += 100
			add(name, &crosschaintypes.MsgUpdateParams{ChainName: name, Params: p})
		}
	case sdk.MsgTypeURL(&crosschaintypes.MsgUpdateChainOracles{}):
		for _, name := range crosschaintypes.GetSupportChains() {
			b := x.w.Bridges[name]
			var addrs []string
			for _, o := range b.Oracles {
				addrs = append(addrs, o.Oracle.Bech32())
			}
			addrs = append(addrs, c.Users[1].Bech32())
			add(name, &crosschaintypes.MsgUpdateChainOracles{ChainName: name, Oracles: addrs})
		}
	case sdk.MsgTypeURL(&erc20types.MsgUpdateParams{}):
		p := c.App.Erc20Keeper.GetParams(ctx)
		p.IbcTimeout += 1e9
		add("ibc-timeout", &erc20types.MsgUpdateParams{Params: p})
		p2 := c.App.Erc20Keeper.GetParams(ctx)
		p2.EnableErc20 = !p2.EnableErc20
		add("toggle-enable", &erc20types.MsgUpdateParams{Params: p2})
	case sdk.MsgTypeURL(&erc20types.MsgRegisterCoin{}):
		add("new-coin", &erc20types.MsgRegisterCoin{Metadata: fxtypes.GetCrossChainMetadataManyToOne("New coin", "NEWC", 18)})
	case sdk.MsgTypeURL(&erc20types.MsgRegisterERC20{}):
		// an unregistered FIP20
		fip := fxContractFIP20()
		addr, err := c.App.EvmKeeper.DeployUpgradableContract(ctx, c.Users[2].Hex(), fip.Address, nil, &fip.ABI, "Reg token", "REG", uint8(18), c.Users[2].Hex())
		if err == nil {
			add("new-erc20", &erc20types.MsgRegisterERC20{Erc20Address: addr.Hex()})
			// ... and with aliases: a made-up bridge denomination, and the denomination of somebody else's bridged token
			add("new-erc20-with-alias", &erc20types.MsgRegisterERC20{Erc20Address: addr.Hex(), Aliases: []string{fmt.Sprintf("bsc0x%040x", rng.Uint64())}})
		}
	case sdk.MsgTypeURL(&erc20types.MsgToggleTokenConversion{}):
		add("by-denom", &erc20types.MsgToggleTokenConversion{Token: x.tok.Base})
		add("by-erc20", &erc20types.MsgToggleTokenConversion{Token: x.ext.ERC20.Hex()})
		// a registered pair whose ERC-20 contract has destroyed itself since (its account is deleted, as the state
		// database does when it commits such a contract)
		if xd, err := x.w.AddExternalToken(c.Users[3], fmt.Sprintf("XD%d", rng.IntN(100000)), big.NewInt(1000), "eth"); err == nil {
			if c.App.EvmKeeper.DeleteAccount(ctx, xd.ERC20) == nil {
				add("destroyed-pair", &erc20types.MsgToggleTokenConversion{Token: xd.Base})
			}
		}
	case sdk.MsgTypeURL(&erc20types.MsgUpdateDenomAlias{}):
		add("add-alias", &erc20types.MsgUpdateDenomAlias{Denom: x.tok.Base, Alias: "bsc0x0000000000000000000000000000000000001234"})
		add("remove-alias", &erc20types.MsgUpdateDenomAlias{Denom: x.tok.Base, Alias: x.tok.Denom["eth"]})
	case sdk.MsgTypeURL(&fxevmtypes.MsgCallContract{}):
		add("sstore", &fxevmtypes.MsgCallContract{ContractAddress: x.cont.Hex(), Data: hex.EncodeToString(common.LeftPadBytes([]byte{byte(1 + rng.IntN(200))}, 32))})
	case sdk.MsgTypeURL(&fxgovtypes.MsgUpdateSwitchParams{}):
		add("disable-precompile", &fxgovtypes.MsgUpdateSwitchParams{Params: fxgovtypes.SwitchParams{DisablePrecompiles: []string{crosschaintypes.GetAddress().Hex()}}})
		add("disable-msg", &fxgovtypes.MsgUpdateSwitchParams{Params: fxgovtypes.SwitchParams{DisableMsgTypes: []string{sdk.MsgTypeURL(&erc20types.MsgConvertCoin{})}}})
	case sdk.MsgTypeURL(&fxgovtypes.MsgUpdateCustomParams{}):
		add("set", &fxgovtypes.MsgUpdateCustomParams{MsgUrl: sdk.MsgTypeURL(&banktypes.MsgSend{}), CustomParams: *fxgovtypes.NewCustomParams("0.2", 3600e9, "0.3")})
		add("remove", &fxgovtypes.MsgUpdateCustomParams{MsgUrl: sdk.MsgTypeURL(&erc20types.MsgRegisterCoin{})})
	case sdk.MsgTypeURL(&fxgovtypes.MsgUpdateStore{}):
		k := append([]byte{0xEE}, []byte(fmt.Sprintf("verif-%d", rng.IntN(1000)))...)
		add("new-key", &fxgovtypes.MsgUpdateStore{UpdateStores: []fxgovtypes.UpdateStore{{Space: "erc20", Key: hex.EncodeToString(k), OldValue: "", Value: "01"}}})
	case sdk.MsgTypeURL(&banktypes.MsgUpdateParams{}):
		p := c.App.BankKeeper.GetParams(ctx)
		p.DefaultSendEnabled = !p.DefaultSendEnabled
		add("params", &banktypes.MsgUpdateParams{Params: p})
	case sdk.MsgTypeURL(&banktypes.MsgSetSendEnabled{}):
		add("disable-usdt", &banktypes.MsgSetSendEnabled{SendEnabled: []*banktypes.SendEnabled{{Denom: x.tok.Base, Enabled: false}}})
	case sdk.MsgTypeURL(&stakingtypes.MsgUpdateParams{}):
		p, _ := c.App.StakingKeeper.GetParams(ctx)
		p.MaxEntries++
		add("params", &stakingtypes.MsgUpdateParams{Params: p})
	case sdk.MsgTypeURL(&distrtypes.MsgUpdateParams{}):
		p, _ := c.App.DistrKeeper.Params.Get(ctx)
		p.CommunityTax = sdkmath.LegacyNewDecWithPrec(int64(1+rng.IntN(50)), 2)
		p.BaseProposerReward, p.BonusProposerReward = sdkmath.LegacyZeroDec(), sdkmath.LegacyZeroDec()
		add("params", &distrtypes.MsgUpdateParams{Params: p})
	case sdk.MsgTypeURL(&distrtypes.MsgCommunityPoolSpend{}):
		// fund the pool first so that the positive control can succeed
		_ = c.App.DistrKeeper.FundCommunityPool(ctx, sdk.NewCoins(chain.FXCoin(1000)), c.Users[0].Acc())
		add("spend", &distrtypes.MsgCommunityPoolSpend{Recipient: c.Users[1].Bech32(), Amount: sdk.NewCoins(chain.FXCoin(10))})
	case sdk.MsgTypeURL(&slashingtypes.MsgUpdateParams{}):
		p, _ := c.App.SlashingKeeper.GetParams(ctx)
		p.SignedBlocksWindow++
		add("params", &slashingtypes.MsgUpdateParams{Params: p})
	case sdk.MsgTypeURL(&minttypes.MsgUpdateParams{}):
		p, _ := c.App.MintKeeper.Params.Get(ctx)
		p.BlocksPerYear++
		add("params", &minttypes.MsgUpdateParams{Params: p})
	case sdk.MsgTypeURL(&govv1.MsgUpdateParams{}):
		p, _ := c.App.GovKeeper.Params.Get(ctx)
		p.BurnVoteVeto = !p.BurnVoteVeto
		add("params", &govv1.MsgUpdateParams{Params: p})
		p2, _ := c.App.GovKeeper.Params.Get(ctx)
		p2.ExpeditedMinDeposit = sdk.NewCoins(chain.FXCoin(20_000))
		add("expedited-deposit-in-fx", &govv1.MsgUpdateParams{Params: p2})
	case sdk.MsgTypeURL(&crisistypes.MsgUpdateParams{}):
		add("fee", &crisistypes.MsgUpdateParams{ConstantFee: chain.FXCoin(int64(1 + rng.IntN(100)))})
	case sdk.MsgTypeURL(&consensustypes.MsgUpdateParams{}):
		cp := ctx.ConsensusParams()
		if cp.Block != nil && cp.Evidence != nil && cp.Validator != nil {
			b := *cp.Block
			b.MaxGas++
			add("block", &consensustypes.MsgUpdateParams{Block: &b, Evidence: cp.Evidence, Validator: cp.Validator, Abci: cp.Abci})
		}
	case sdk.MsgTypeURL(&authtypes.MsgUpdateParams{}):
		p := c.App.AccountKeeper.GetParams(ctx)
		p.MaxMemoCharacters++
		add("params", &authtypes.MsgUpdateParams{Params: p})
	case sdk.MsgTypeURL(&upgradetypes.MsgSoftwareUpgrade{}):
		add("plan", &upgradetypes.MsgSoftwareUpgrade{Plan: upgradetypes.Plan{Name: "verif-upgrade", Height: c.Height + 1000}})
	case sdk.MsgTypeURL(&upgradetypes.MsgCancelUpgrade{}):
		add("cancel", &upgradetypes.MsgCancelUpgrade{})
	case sdk.MsgTypeURL(&feemarkettypes.MsgUpdateParams{}):
		p := c.App.FeeMarketKeeper.GetParams(ctx)
		p.ElasticityMultiplier++
		add("params", &feemarkettypes.MsgUpdateParams{Params: p})
	case sdk.MsgTypeURL(&evmtypes.MsgUpdateParams{}):
		p := c.App.EvmKeeper.GetParams(ctx)
		p.AllowUnprotectedTxs = !p.AllowUnprotectedTxs
		add("params", &evmtypes.MsgUpdateParams{Params: p})
	case sdk.MsgTypeURL(&ibctransfertypes.MsgUpdateParams{}):
		p := c.App.IBCTransferKeeper.GetParams(ctx)
		p.SendEnabled = !p.SendEnabled
		add("params", &ibctransfertypes.MsgUpdateParams{Params: p})
	case sdk.MsgTypeURL(&ibcclienttypes.MsgUpdateParams{}):
		p := c.App.IBCKeeper.ClientKeeper.GetParams(ctx)
		p.AllowedClients = append(p.AllowedClients, "06-solomachine")
		add("params", &ibcclienttypes.MsgUpdateParams{Params: p})
	case sdk.MsgTypeURL(&ibcchantypes.MsgUpdateParams{}):
		p := c.App.IBCKeeper.ChannelKeeper.GetParams(ctx)
		p.UpgradeTimeout.Timestamp++
		add("params", &ibcchantypes.MsgUpdateParams{Params: p})
	case sdk.MsgTypeURL(&govv1.MsgExecLegacyContent{}):
		if content, err := govv1.NewLegacyContent(govv1beta1.NewTextProposal("verif", "text"), ""); err == nil {
			add("text", content)
		}
	case sdk.MsgTypeURL(&ibcconntypes.MsgUpdateParams{}):
		p := c.App.IBCKeeper.ConnectionKeeper.GetParams(ctx)
		p.MaxExpectedTimePerBlock++
		add("params", &ibcconntypes.MsgUpdateParams{Params: p})
	}
	return out
}

func setAuthority(m sdk.Msg, a string) {
	v := reflect.ValueOf(m).Elem()
	f := v.FieldByName("Authority")
	if f.IsValid() && f.Kind() == reflect.String {
		f.SetString(a)
		return
	}
	// IBC messages name the field Signer
	f = v.FieldByName("Signer")
	if f.IsValid() && f.Kind() == reflect.String {
		f.SetString(a)
	}
}

func authorityField(m interface{}) (string, bool) {
	t := reflect.TypeOf(m)
	if t.Kind() != reflect.Ptr || t.Elem().Kind() != reflect.Struct {
		return "", false
	}
	if f, ok := t.Elem().FieldByName("Authority"); ok && f.Type.Kind() == reflect.String {
		return "Authority", true
	}
	return "", false
}

// ibc messages carry the authority in `signer`
var ibcAuthorityMsgs = map[string]bool{
	"/ibc.applications.transfer.v1.MsgUpdateParams": true,
	"/ibc.core.client.v1.MsgUpdateParams":           true,
	"/ibc.core.connection.v1.MsgUpdateParams":       true,
	"/ibc.core.client.v1.MsgRecoverClient":          true,
	"/ibc.core.client.v1.MsgIBCSoftwareUpgrade":     true,
	"/ibc.core.channel.v1.MsgUpdateParams":          true,
}

func discoverAuthorityMsgs(c *chain.Chain) []string {
	reg := c.App.InterfaceRegistry()
	var urls []string
	for _, url := range reg.ListImplementations(sdk.MsgInterfaceProtoName) {
		m, err := reg.Resolve(url)
		if err != nil {
			continue
		}
		msg, ok := m.(sdk.Msg)
		if !ok {
			continue
		}
		_, has := authorityField(m)
		if !has && !ibcAuthorityMsgs[url] {
			continue
		}
		if c.App.MsgServiceRouter().Handler(msg) == nil {
			continue
		}
		urls = append(urls, url)
	}
	sort.Strings(urls)
	return urls
}

func hostileAuthorities(x *c16World, rngSeed uint64) map[string]string {
	gov := chain.GovAuthority()
	out := map[string]string{
		"random-account": x.c.Users[1].Bech32(),
		"validator":      x.c.Vals[0].Operator.Bech32(),
		"oracle":         x.eth.Oracles[0].Oracle.Bech32(),
		"bridger":        x.eth.Oracles[0].Bridger.Bech32(),
		"empty":          "",
		"gov-mixed-case": strings.ToUpper(gov[:6]) + gov[6:],
		// (the all-upper-case spelling is deliberately absent: it is valid bech32 for the *same* account, resolves
		// to the same required signer, and x/evm's MsgCallContract accepts it by design)
		"gov-long-s":    strings.Replace(gov, "s", "\u017f", 1),
		"gov-truncated": gov[:len(gov)-1],
		"gov-padded":    gov + " ",
		"gov-hex":       common.BytesToAddress(chain.GovAddr()).Hex(),
	}
	if s, err := bech32.ConvertAndEncode("cosmos", chain.GovAddr()); err == nil {
		out["gov-other-hrp"] = s
	}
	// valid addresses of another length that contain the governance address: 32 bytes ending in it, 32 bytes
	// starting with it, and its first 19 bytes (code that compares after converting to a 20-byte type sees them equal)
	for label, raw := range map[string][]byte{
		"gov-as-32-byte-suffix": append(bytes.Repeat([]byte{0x5a}, 12), chain.GovAddr()...),
		"gov-as-32-byte-prefix": append(append([]byte{}, chain.GovAddr()...), bytes.Repeat([]byte{0}, 12)...),
		"gov-zero-padded-left":  append(make([]byte, 12), chain.GovAddr()...),
		"gov-first-19-bytes":    chain.GovAddr()[:19],
	} {
		out[label] = sdk.AccAddress(raw).String()
	}
	for _, name := range []string{"erc20", "evm", "eth", "bsc", "tron", "crosschain", "distribution", "bonded_tokens_pool", "mint", "fee_collector", "transfer"} {
		out["module-"+name] = chain.ModuleAddr(name).String()
	}
	return out
}

func runC16(cs core.Case, verbose bool) core.CaseResult {
	var spec c16Spec
	res := core.CaseResult{}
	if err := json.Unmarshal(cs.Spec, &spec); err != nil {
		res.Inconclusive = err.Error()
		return res
	}
	x, err := c16Setup(spec.Seed)
	if err != nil {
		res.Inconclusive = "setup: " + err.Error()
		return res
	}
	if spec.Mode == "updatestore" {
		c16UpdateStore(x, spec, &res)
		return res
	}
	c := x.c
	urls := discoverAuthorityMsgs(c)
	res.Count("discovered_types_total", int64(len(urls)))
	var uncovered []string
	var samples []string
	var pristine *chain.Chain
	judge := func(c *chain.Chain, base chain.Dump, url string, pl payload, hostile map[string]string) {
		// positive control
		setAuthority(pl.msg, chain.GovAuthority())
		pb := c.Branch()
		pr := c.MsgOn(pb, pl.msg)
		if !pr.OK() {
			// (the hostile authorities are tried all the same: whatever the governance account may not do,
			// nobody else may)
			res.Count("positive_controls_failed", 1)
			uncovered = append(uncovered, url+"["+pl.label+"]: "+short(pr.ErrString()))
		} else {
			res.Count("positive_controls_ok", 1)
			if len(chain.Diff(base, c.Dump(pb))) == 0 {
				res.Count("positive_control_without_effect", 1)
			}
			res.AddSig(url + "/" + pl.label)
		}
		labels := make([]string, 0, len(hostile))
		for label := range hostile {
			labels = append(labels, label)
		}
		sort.Strings(labels)
		for _, label := range labels {
			auth := hostile[label]
			setAuthority(pl.msg, auth)
			br := c.Branch()
			r := c.MsgOn(br, pl.msg)
			res.Count("rejections_checked", 1)
			if len(samples) < 4 {
				samples = append(samples, fmt.Sprintf("%s[%s] authority=%s(%q) -> %s", url, pl.label, label, auth, short(r.ErrString())))
			}
			if r.Panic != nil {
				res.Violate("C16/panic/"+url, "%s with authority %s (%q) panicked: %v", url, label, auth, r.Panic)
				continue
			}
			if r.OK() {
				res.Violate("C16/accepted/"+url+"/"+label, "%s [%s] was accepted with authority %s = %q (governance authority is %s)", url, pl.label, label, auth, chain.GovAuthority())
				continue
			}
			// RunOn discards the branch on error, exactly as baseapp does for a failed tx;
			// what the handler wrote before failing is what the property is about, so run
			// the handler once more without the discard wrapper.
			raw := c.Branch()
			func() {
				defer func() { _ = recover() }()
				if h := c.App.MsgServiceRouter().Handler(pl.msg); h != nil {
					_, _ = h(raw, pl.msg)
				}
			}()
			if d := chain.Diff(base, c.Dump(raw)); len(d) > 0 {
				res.Violate("C16/rejected-but-wrote/"+url, "%s [%s] with authority %s was rejected but its handler left %d store changes, e.g. %s", url, pl.label, label, len(d), d[0].String())
			}
		}
	}
	base := c.Dump(c.Ctx)
	for i, url := range urls {
		if i%spec.Of != spec.Shard {
			continue
		}
		res.Count("types_in_shard", 1)
		pls := x.payloads(url, spec.Seed)
		if len(pls) == 0 {
			uncovered = append(uncovered, url)
			res.Count("uncovered_types", 1)
			continue
		}
		// x.payloads may have prepared state (deployed a contract, funded the pool)
		base = c.Dump(c.Ctx)
		hostile := hostileAuthorities(x, spec.Seed)
		for _, pl := range pls {
			judge(c, base, url, pl, hostile)
		}
		// the same messages in a state nothing has prepared: a chain fresh from genesis, on which no bridge has
		// an oracle list, a token or a parameter change yet
		if pp := pristinePayloads(url, spec.Seed); pp != nil {
			if pristine == nil {
				pristine = chain.New(chain.Config{Seed: spec.Seed, NumVals: 2, NumUsers: 4})
				if _, err := pristine.Next(); err != nil {
					res.Inconclusive = "pristine chain: " + err.Error()
					return res
				}
			}
			pbase := pristine.Dump(pristine.Ctx)
			for _, pl := range pp(pristine) {
				res.Count("pristine_state_payloads", 1)
				judge(pristine, pbase, url, pl, hostile)
			}
		}
	}
	res.Nontrivial = len(res.Sigs) > 0
	res.Sig = fmt.Sprintf("shard%d", spec.Shard)
	res.Sample = map[string]interface{}{"spec": spec, "discovered": urls, "uncovered": uncovered, "rejections": samples}
	return res
}

// pristinePayloads: messages that are valid on a chain fresh from genesis.
func pristinePayloads(url string, rngSeed uint64) func(c *chain.Chain) []payload {
	switch url {
	case sdk.MsgTypeURL(&crosschaintypes.MsgUpdateChainOracles{}):
		return func(c *chain.Chain) []payload {
			var out []payload
			for _, name := range crosschaintypes.GetSupportChains() {
				out = append(out, payload{name + "/first-oracle-list", &crosschaintypes.MsgUpdateChainOracles{ChainName: name, Oracles: []string{c.Users[1].Bech32(), c.Users[2].Bech32()}}})
			}
			return out
		}
	case sdk.MsgTypeURL(&crosschaintypes.MsgUpdateParams{}):
		return func(c *chain.Chain) []payload {
			var out []payload
			for _, name := range crosschaintypes.GetSupportChains() {
				p := fix.KeeperOf(c, name).GetParams(c.Ctx)
				p.AverageBlockTime += 100
				out = append(out, payload{name + "/untouched-chain", &crosschaintypes.MsgUpdateParams{ChainName: name, Params: p}})
			}
			return out
		}
	}
	return nil
}

func c16UpdateStore(x *c16World, spec c16Spec, res *core.CaseResult) {
	c := x.c
	rng := core.Rng(spec.Seed, 17)
	base := c.Dump(c.Ctx)
	var stores []string
	for s := range base {
		stores = append(stores, s)
	}
	sort.Strings(stores)
	var samples []string
	for i := 0; i < 60; i++ {
		space := stores[rng.IntN(len(stores))]
		m := base[space]
		var keys []string
		for k := range m {
			keys = append(keys, k)
		}
		sort.Strings(keys)
		var key, cur []byte
		exists := len(keys) > 0 && rng.IntN(3) != 0
		if exists {
			key = []byte(keys[rng.IntN(len(keys))])
			cur = []byte(m[string(key)])
		} else {
			key = []byte(fmt.Sprintf("\xEFverif-%d", rng.IntN(1<<30)))
		}
		newVal := []byte(fmt.Sprintf("v%d", rng.IntN(1<<30)))
		var old []byte
		mode := rng.IntN(4)
		switch mode {
		case 0:
			old = cur // matching
		case 1:
			old = append(append([]byte{}, cur...), 0x01) // non-matching
		case 2:
			old = nil // empty: matches only an absent key
		default:
			if len(cur) > 0 {
				old = cur[:len(cur)-1]
			} else {
				old = []byte{0x00}
			}
		}
		shouldApply := string(old) == string(cur)
		msg := &fxgovtypes.MsgUpdateStore{Authority: chain.GovAuthority(), UpdateStores: []fxgovtypes.UpdateStore{{
			Space: space, Key: hex.EncodeToString(key), OldValue: hex.EncodeToString(old), Value: hex.EncodeToString(newVal)}}}
		br := c.Branch()
		r := c.MsgOn(br, msg)
		after := c.Dump(br)
		d := chain.Diff(base, after)
		if len(samples) < 3 {
			samples = append(samples, fmt.Sprintf("space=%s key=%x exists=%v old-matches=%v -> ok=%v %s", space, key, exists, shouldApply, r.OK(), short(r.ErrString())))
		}
		if r.OK() != shouldApply {
			res.Violate("C16/updatestore-cas", "MsgUpdateStore space=%s key=%x current=%x old=%x: applied=%v, expected %v (%s)", space, key, cur, old, r.OK(), shouldApply, r.ErrString())
			continue
		}
		if shouldApply {
			res.Count("updatestore_applied", 1)
			if len(d) != 1 || string(d[0].Key) != string(key) || string(d[0].B) != string(newVal) || d[0].Store != space {
				res.Violate("C16/updatestore-effect", "applied MsgUpdateStore changed %d keys (expected exactly %s/%x)", len(d), space, key)
			}
		} else {
			res.Count("updatestore_refused", 1)
			if len(d) != 0 {
				res.Violate("C16/updatestore-refused-but-wrote", "refused MsgUpdateStore changed %d keys", len(d))
			}
		}
		// the same with a non-governance authority never applies
		msg.Authority = c.Users[1].Bech32()
		br2 := c.Branch()
		r2 := c.MsgOn(br2, msg)
		res.Count("rejections_checked", 1)
		if r2.OK() || len(chain.Diff(base, c.Dump(br2))) != 0 {
			res.Violate("C16/accepted//fx.gov.v1.MsgUpdateStore/random-account", "MsgUpdateStore accepted from %s", msg.Authority)
		}
		res.AddSig(fmt.Sprintf("store/%s/exists%v/mode%d", space, exists, mode))
	}
	// two-entry message whose second entry mismatches: nothing may stay
	k1 := []byte("\xEFverif-a")
	msg := &fxgovtypes.MsgUpdateStore{Authority: chain.GovAuthority(), UpdateStores: []fxgovtypes.UpdateStore{
		{Space: "erc20", Key: hex.EncodeToString(k1), OldValue: "", Value: "01"},
		{Space: "erc20", Key: hex.EncodeToString([]byte("\xEFverif-b")), OldValue: "ff", Value: "02"}}}
	br := c.Branch()
	r := c.MsgOn(br, msg)
	if r.OK() || len(chain.Diff(base, c.Dump(br))) != 0 {
		res.Violate("C16/updatestore-partial", "two-entry MsgUpdateStore with a mismatching second entry: ok=%v diff=%d", r.OK(), len(chain.Diff(base, c.Dump(br))))
	}
	// the same key twice in one message: every entry is compared with the value the store has when that entry
	// is applied (the first entry's result), not with the value before the message
	{
		k := hex.EncodeToString([]byte("\xEFverif-dup"))
		stale := &fxgovtypes.MsgUpdateStore{Authority: chain.GovAuthority(), UpdateStores: []fxgovtypes.UpdateStore{
			{Space: "erc20", Key: k, OldValue: "", Value: "02"},
			{Space: "erc20", Key: k, OldValue: "", Value: "03"}}}
		br := c.Branch()
		r := c.MsgOn(br, stale)
		res.Count("updatestore_duplicate_key_checks", 1)
		if r.OK() || len(chain.Diff(base, c.Dump(br))) != 0 {
			res.Violate("C16/updatestore-cas/duplicate-key", "MsgUpdateStore naming one key twice with the same (then stale) old value: ok=%v diff=%d", r.OK(), len(chain.Diff(base, c.Dump(br))))
		}
		chained := &fxgovtypes.MsgUpdateStore{Authority: chain.GovAuthority(), UpdateStores: []fxgovtypes.UpdateStore{
			{Space: "erc20", Key: k, OldValue: "", Value: "02"},
			{Space: "erc20", Key: k, OldValue: "02", Value: "03"}}}
		br2 := c.Branch()
		r2 := c.MsgOn(br2, chained)
		d := chain.Diff(base, c.Dump(br2))
		res.Count("updatestore_duplicate_key_checks", 1)
		if !r2.OK() || len(d) != 1 || string(d[0].B) != "\x03" {
			res.Violate("C16/updatestore-cas/chained-key", "MsgUpdateStore updating one key twice, each entry naming the value the previous one wrote: ok=%v (%s) diff=%d", r2.OK(), short(r2.ErrString()), len(d))
		}
	}
	res.Count("positive_controls_ok", 1)
	res.Nontrivial = true
	res.Sig = fmt.Sprintf("updatestore%d", spec.Shard)
	res.Sample = map[string]interface{}{"spec": spec, "updatestore": samples}
}

func fxContractFIP20() fxcontract.Contract { return fxcontract.GetFIP20() }
