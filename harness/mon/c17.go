package mon

import (
	"encoding/json"
	"fmt"
	"math"
	"os"
	"os/exec"
	"path/filepath"
	"strings"
	"time"

	sdkmath "cosmossdk.io/math"
	sdk "github.com/cosmos/cosmos-sdk/types"
	govv1 "github.com/cosmos/cosmos-sdk/x/gov/types/v1"

	crosschaintypes "github.com/functionx/fx-core/v8/x/crosschain/types"
	fxgovtypes "github.com/functionx/fx-core/v8/x/gov/types"

	fxtypes "github.com/functionx/fx-core/v8/types"
	"verif/harness/chain"
	"verif/harness/core"
	"verif/harness/fix"
)

// C17: block execution is deterministic: same history, same state root, results and events.
//
// A history is either one complete case of another property's workload (so the corpus covers the
// crosschain, erc20, precompile, gov, migrate and IBC paths those workloads drive) or a dedicated
// oracle-churn history. It is executed R times in separate child processes under different
// GOMAXPROCS / GOGC / TZ / LANG settings (and, as always in Go, differently seeded map iteration);
// each child writes one digest line per executed operation and per committed block; the traces
// must be identical line by line.

type c17Spec struct {
	Seed  uint64    `json:"seed"`
	Kind  string    `json:"kind"` // workload | oracle-churn
	Prop  string    `json:"prop,omitempty"`
	Case  core.Case `json:"case,omitempty"`
	Reps  int       `json:"reps"`
	Steps int       `json:"steps,omitempty"`
	// power-threshold: bonded power (units of 100 FX) per oracle, threshold in tenths, and per round three
	// (oracle index, added power) pairs; planned once by the parent so that every replica does the same
	Stakes []uint64       `json:"stakes,omitempty"`
	Pct    int64          `json:"pct,omitempty"`
	Plan   [][3][2]uint64 `json:"plan,omitempty"`
}

func init() {
	core.Register(&core.Prop{
		ID:    "C17",
		Level: "exploration",
		Rule: "replay corpus = complete cases of the C01, C04, C07, C08, C09, C11, C13, C14, C15, C18, C19 workloads (votes and churn, pool / batches / bridge calls, aging end blocks, conversions and contract programs, precompile call trees, staking precompile, oracle life cycles, migration, gov, tolerated failures, IBC) plus oracle-churn histories that bond 12 oracles and drop / re-admit several of them per governance update. " +
			"Each history runs in R separate processes (quick 3, thorough 6) with GOMAXPROCS 1/2/16/4, GOGC 100/1/off, TZ and LANG varied, and once more in a binary built with the Go race detector (any report with an fx-core frame is a violation); every operation (error text, events, response bytes) and every block (application hash, tx results, events, validator updates) is reduced to a digest line; all traces must be identical. " +
			"Non-trivial: a history with at least 5 committed blocks and 20 operations; distinct by history",
		Assumptions: []string{
			"operations enter through the message router / EVM keeper on the block's finalize state (as in every other check), so the compared application hash covers their effects and the compared events are theirs",
			"order dependence on a k-element map shows up with probability 1-1/k! per additional replica; the verdict is 'no divergence in R replays', not absence of nondeterminism",
		},
		Cases:            c17Cases,
		Run:              runC17,
		MinNontrivial:    6,
		RequiredCounters: []string{"replicas_run", "blocks_compared", "operations_compared", "multi_oracle_drops", "race_detector_replicas"},
	})
}

func c17Cases(seed uint64, tier string) []core.Case {
	rng := core.Rng(seed, 0xC17)
	per, reps, churn := 1, 3, 2
	if tier == "thorough" {
		per, reps, churn = 4, 6, 8
	}
	var out []core.Case
	for _, pid := range []string{"C01", "C04", "C07", "C08", "C09", "C11", "C13", "C14", "C15", "C18", "C19"} {
		p := core.Get(pid)
		if p == nil {
			continue
		}
		cs := p.Cases(rng.Uint64(), "quick")
		if pid == "C19" {
			// the histories that send packets out (their commitments carry a timeout computed by this chain) first
			var out, rest []core.Case
			for _, x := range cs {
				if strings.Contains(x.ID, "outbound") {
					out = append(out, x)
				} else {
					rest = append(rest, x)
				}
			}
			cs = nil
			for len(out) > 0 || len(rest) > 0 { // alternate: outbound, inbound, outbound, ...
				if len(out) > 0 {
					cs, out = append(cs, out[0]), out[1:]
				}
				if len(rest) > 0 {
					cs, rest = append(cs, rest[0]), rest[1:]
				}
			}
		}
		take := per
		if pid == "C19" {
			take = per + 1 // one of each kind even at the quick tier
		}
		for i := 0; i < take && i < len(cs); i++ {
			k := (i * 7) % len(cs)
			if pid == "C19" {
				k = i
			}
			if pid == "C09" {
				k = (i*7 + 7) % len(cs) // (a case on an EVM-style chain first: its failed IBC sends carry the ibc module's error text)
			}
			out = append(out, core.MkCase(fmt.Sprintf("C17-%s-%d", pid, i), c17Spec{Seed: rng.Uint64(), Kind: "workload", Prop: pid, Case: cs[k], Reps: reps}))
		}
	}
	for i := 0; i < churn; i++ {
		out = append(out, core.MkCase(fmt.Sprintf("C17-oracle-churn-%d", i), c17Spec{Seed: rng.Uint64(), Kind: "oracle-churn", Reps: reps, Steps: 14}))
	}
	// power change exactly at the governance-set threshold (kept last: the cases above keep their seeds)
	for i := 0; i < (churn+1)/2; i++ {
		out = append(out, core.MkCase(fmt.Sprintf("C17-power-threshold-%d", i), c17Spec{Seed: rng.Uint64(), Kind: "power-threshold", Reps: reps + 3, Steps: 3}))
	}
	return out
}

// C17Child runs one history with the recorder on and writes the trace to out. Called in a child process.
func C17Child(specPath, out string) int {
	bz, err := os.ReadFile(specPath)
	if err != nil {
		fmt.Fprintln(os.Stderr, err)
		return 3
	}
	var spec c17Spec
	if err := json.Unmarshal(bz, &spec); err != nil {
		fmt.Fprintln(os.Stderr, err)
		return 3
	}
	chain.ShadowRuns = os.Getenv("VERIF_C17_SHADOW") != ""
	var lines, fulls []string
	chain.Recorder = func(l, full string) { lines = append(lines, l); fulls = append(fulls, full) }
	note := func(l string) { lines = append(lines, l); fulls = append(fulls, "") }
	switch spec.Kind {
	case "workload":
		p := core.Get(spec.Prop)
		if p == nil {
			return 3
		}
		func() {
			defer func() {
				if r := recover(); r != nil {
					note(fmt.Sprintf("history panicked: %v", r))
				}
			}()
			r := p.Run(spec.Case, false)
			// the monitor's own verdict is part of the observable outcome too
			note(fmt.Sprintf("workload verdict: violations=%d inconclusive=%q", len(r.Violations), r.Inconclusive))
		}()
	case "power-threshold":
		c17Threshold(spec, note)
	default:
		c17Churn(spec, note)
	}
	chain.Recorder = nil
	if err := os.WriteFile(out, []byte(strings.Join(lines, "\n")+"\n"), 0o644); err != nil {
		return 3
	}
	fb, _ := json.Marshal(fulls)
	if err := os.WriteFile(out+".full", fb, 0o644); err != nil {
		return 3
	}
	return 0
}

// c17Churn: 12 equally bonded oracles; each step governance drops 2-4 of them in one update (under the
// power-change limit), blocks pass, they are re-admitted and add delegate again; transfers and batches in between.
func c17Churn(spec c17Spec, note func(string)) {
	rng := core.Rng(spec.Seed, 17)
	c := chain.New(chain.Config{Seed: spec.Seed, NumVals: 3, NumUsers: 4, CrosschainParams: func(n string, p *crosschaintypes.Params) { p.SignedWindow = 100_000 }})
	w := fix.NewWorld(c)
	var stakes []sdkmath.Int
	for i := 0; i < 12; i++ {
		stakes = append(stakes, chain.FX(10000))
	}
	b, err := w.AddBridge("eth", stakes)
	if err != nil {
		note("setup failed: " + err.Error())
		return
	}
	c.Next()
	tok, err := w.AddModuleToken("USDT", "eth")
	if err != nil {
		note("setup failed: " + err.Error())
		return
	}
	u := c.Users[0]
	b.Deposit(c.Users[3], tok, sdkmath.NewInt(1_000_000), u.Hex(), u.Acc(), "")
	tok2, err := w.AddModuleToken("USDC", "eth")
	if err != nil {
		note("setup failed: " + err.Error())
		return
	}
	b.Deposit(c.Users[3], tok2, sdkmath.NewInt(1_000_000), u.Hex(), u.Acc(), "")
	for step := 0; step < spec.Steps; step++ {
		// drop k oracles at once
		k := 2 + rng.IntN(3)
		perm := rng.Perm(len(b.Oracles))
		drop := map[int]bool{}
		for _, i := range perm[:k] {
			drop[i] = true
		}
		var keep []*fix.Oracle
		for i, o := range b.Oracles {
			if !drop[i] {
				keep = append(keep, o)
			}
		}
		r := b.SetOracleList(keep)
		note(fmt.Sprintf("step %d: dropped %d oracles at once: ok=%v", step, k, r.OK()))
		c.Next()
		b.SendToExternal(u, c.Users[1].Hex(), sdk.NewCoin(tok.Base, sdkmath.NewInt(int64(10+rng.IntN(50)))), sdk.NewCoin(tok.Base, sdkmath.NewInt(int64(1+rng.IntN(5)))))
		b.RequestBatch(keep[0], tok.Denom["eth"], sdkmath.NewInt(1), sdkmath.ZeroInt(), c.Users[2].Hex())
		// an outgoing bridge call that carries several tokens (their order is part of the signed checkpoint)
		cr := b.BridgeCallMsg(u, u.Acc(), sdk.NewCoins(sdk.NewCoin(tok.Base, sdkmath.NewInt(int64(3+rng.IntN(9)))), sdk.NewCoin(tok2.Base, sdkmath.NewInt(int64(3+rng.IntN(9))))), c.Users[1].Hex(), []byte{1}, nil)
		note(fmt.Sprintf("step %d: two-token bridge call: ok=%v %s", step, cr.OK(), short(cr.ErrString())))
		if step%3 == 2 {
			// several outgoing bridge calls made in one block (equal timeouts), each with a refund address that has
			// no account yet; a later event reports a height past that timeout and they are all refunded at once
			for k := 0; k < 5; k++ {
				fresh := chain.DeriveKey(spec.Seed, "c17-refund", step*10+k)
				b.BridgeCallMsg(u, fresh.Acc(), sdk.NewCoins(sdk.NewCoin(tok.Base, sdkmath.NewInt(int64(2+k)))), c.Users[1].Hex(), []byte{2}, nil)
			}
			c.Next()
			var last uint64
			for _, oc := range b.Calls() {
				if oc.Timeout > last {
					last = oc.Timeout
				}
			}
			if last > b.ExtHeight {
				b.ExtHeight = last + 1
			}
			_, derr := b.Deposit(c.Users[3], tok, sdkmath.NewInt(7), u.Hex(), u.Acc(), "")
			note(fmt.Sprintf("step %d: five bridge calls of one block timed out together (event at external height %d): %v, calls left %d", step, b.ExtHeight, derr, len(b.Calls())))
		}
		c.Next()
		// re-admit everybody, the dropped ones add delegate to come back online
		r = b.SetOracleList(b.Oracles)
		for i := range b.Oracles {
			if drop[i] {
				c.Msg(&crosschaintypes.MsgAddDelegate{ChainName: "eth", OracleAddress: b.Oracles[i].Oracle.Bech32(), Amount: chain.FXCoin(int64(1 + rng.IntN(10)))})
			}
		}
		if step%4 == 1 {
			// a proposal that passes and then fails when it is executed (a raw store update whose stated old
			// value is stale): its failure text is stored with the proposal and emitted in the end-block events
			gp, _ := c.App.GovKeeper.Params.Get(c.Ctx)
			msg := &fxgovtypes.MsgUpdateStore{Authority: chain.GovAuthority(), UpdateStores: []fxgovtypes.UpdateStore{{Space: "eth", Key: "24", OldValue: "ff", Value: "0000000000000001"}}}
			if id, pr := fix.Propose(c, c.Users[2], []sdk.Msg{msg}, gp.MinDeposit, "stale store update"); pr.OK() {
				for _, v := range c.Vals {
					fix.GovVote(c, v.Operator, id, govv1.OptionYes)
				}
				note(fmt.Sprintf("step %d: proposal %d submitted", step, id))
			}
		}
		if step%4 == 3 {
			c.EndBlock(22 * 24 * time.Hour) // unbonding queues mature, voting periods end
		}
		c.Next()
	}
}

// c17Threshold: governance sets the share of power that has to move before a new oracle set is requested to
// 20 / 40 / 60 / 80 %; twenty unequally bonded oracles; then, round after round, three of them add to their
// delegation by amounts searched for so that the summed change of the normalised powers since the latest
// oracle set equals the threshold exactly (the comparison in the end blocker is decided by the last digit).
func c17Threshold(spec c17Spec, note func(string)) {
	// one unit of oracle power is 100 FX; large stakes make the normalised powers fine-grained enough for an
	// exact hit to exist within a short search (the delegation limit is raised for that)
	c := chain.New(chain.Config{Seed: spec.Seed, NumVals: 3, NumUsers: 4, CrosschainParams: func(n string, p *crosschaintypes.Params) {
		p.SignedWindow = 100_000
		p.DelegateMultiple = 1_000_000
	}})
	w := fix.NewWorld(c)
	var stakes []sdkmath.Int
	for _, u := range spec.Stakes {
		stakes = append(stakes, chain.FX(int64(100*u)))
	}
	b, err := w.AddBridge("eth", stakes)
	if err != nil {
		note("setup failed: " + err.Error())
		return
	}
	params := b.K.GetParams(c.Ctx)
	params.OracleSetUpdatePowerChangePercent = sdkmath.LegacyNewDecWithPrec(spec.Pct, 1)
	r := c.Msg(&crosschaintypes.MsgUpdateParams{ChainName: "eth", Authority: chain.GovAuthority(), Params: params})
	note(fmt.Sprintf("threshold %d0%%: ok=%v", spec.Pct, r.OK()))
	c.Next()
	for round, plan := range spec.Plan {
		for _, st := range plan {
			o := b.Oracles[st[0]]
			amt := sdk.NewCoin(fxtypes.DefaultDenom, chain.FX(int64(100*st[1])))
			fix.Fund(c, o.Oracle.Acc(), amt)
			res := c.Msg(&crosschaintypes.MsgAddDelegate{ChainName: "eth", OracleAddress: o.Oracle.Bech32(), Amount: amt})
			note(fmt.Sprintf("round %d: oracle %d adds %s: ok=%v", round, st[0], amt, res.OK()))
		}
		before := b.K.GetLatestOracleSetNonce(c.Ctx)
		// what the end blocker is about to compare, recomputed from the stored objects
		var moved uint64
		if latest := b.K.GetLatestOracleSet(c.Ctx); latest != nil {
			lastBy := map[string]uint64{}
			for _, m := range latest.Members {
				lastBy[m.ExternalAddress] = m.Power
			}
			for _, m := range b.K.GetCurrentOracleSet(c.Ctx).Members {
				if l := lastBy[m.ExternalAddress]; m.Power > l {
					moved += m.Power - l
				} else {
					moved += l - m.Power
				}
			}
		}
		c.Next()
		note(fmt.Sprintf("round %d: normalised power moved %d of %d (threshold %d): oracle set nonce %d -> %d", round, moved, uint64(math.MaxUint32), uint64(spec.Pct)*math.MaxUint32/10, before, b.K.GetLatestOracleSetNonce(c.Ctx)))
		c.Next()
	}
}

// c17PlanThreshold fills in stakes, threshold and the per-round additions of a power-threshold history. The
// oracle powers are modelled (power = stake / 100 FX, normalised to MaxUint32 by truncating division, a new
// oracle set after every round); the search looks for additions after which the summed absolute change of the
// normalised powers equals threshold * MaxUint32 exactly.
func c17PlanThreshold(spec *c17Spec) (searched int) {
	rng := core.Rng(spec.Seed, 0x17b)
	spec.Pct = []int64{2, 4, 6, 8}[rng.IntN(4)]
	powers := make([]uint64, 20)
	for i := range powers {
		powers[i] = uint64(1000 + rng.IntN(9000))
	}
	spec.Stakes = append([]uint64(nil), powers...)
	norm := func(ps []uint64) []uint64 {
		var total uint64
		for _, p := range ps {
			total += p
		}
		out := make([]uint64, len(ps))
		for i, p := range ps {
			out[i] = p * math.MaxUint32 / total
		}
		return out
	}
	last := norm(powers)
	target := uint64(spec.Pct) * math.MaxUint32 / 10 // exact: MaxUint32 is divisible by 5 and Pct is even
	cur := make([]uint64, len(powers))
	for round := 0; round < spec.Steps; round++ {
		var x, y, z int
		diff := func(a1, a2, a3 uint64) uint64 {
			var total uint64
			for i, p := range powers {
				switch i {
				case x:
					p += a1
				case y:
					p += a2
				case z:
					p += a3
				}
				cur[i] = p
				total += p
			}
			var sum uint64
			for i, p := range cur {
				n := p * math.MaxUint32 / total
				if l := last[i]; n > l {
					sum += n - l
				} else {
					sum += l - n
				}
			}
			return sum
		}
		found := false
		var add [3]uint64
		const budget = 2_500_000
		n := 0
	search:
		for n < budget {
			perm := rng.Perm(len(powers))
			x, y, z = perm[0], perm[1], perm[2]
			a1 := powers[x]/4 + uint64(rng.IntN(64))
			// every value of the second addition gives a different total, i.e. an independent chance
			for a2 := uint64(1); a2 <= 150_000 && n < budget; a2++ {
				if diff(a1, a2, 0) >= target {
					break
				}
				lo, hi := uint64(0), uint64(1<<23)
				for lo < hi {
					mid := (lo + hi) / 2
					if diff(a1, a2, mid) >= target {
						hi = mid
					} else {
						lo = mid + 1
					}
				}
				n++
				if lo > 0 && diff(a1, a2, lo) == target {
					add, found = [3]uint64{a1, a2, lo}, true
					break search
				}
			}
		}
		searched += n
		if !found {
			break
		}
		spec.Plan = append(spec.Plan, [3][2]uint64{{uint64(x), add[0]}, {uint64(y), add[1]}, {uint64(z), add[2]}})
		powers[x] += add[0]
		powers[y] += add[1]
		powers[z] += add[2]
		last = norm(powers)
	}
	return searched
}

func runC17(cs core.Case, verbose bool) core.CaseResult {
	var spec c17Spec
	res := core.CaseResult{}
	if err := json.Unmarshal(cs.Spec, &spec); err != nil {
		res.Inconclusive = err.Error()
		return res
	}
	tmp, err := os.MkdirTemp("", "c17-")
	if err != nil {
		res.Inconclusive = err.Error()
		return res
	}
	defer os.RemoveAll(tmp)
	specPath := filepath.Join(tmp, "spec.json")
	specBytes := []byte(cs.Spec)
	if spec.Kind == "power-threshold" {
		res.Count("threshold_candidates_searched", int64(c17PlanThreshold(&spec)))
		res.Count("threshold_rounds_planned", int64(len(spec.Plan)))
		if len(spec.Plan) == 0 {
			res.Inconclusive = "no additions found that move the power by the threshold exactly"
			return res
		}
		specBytes, _ = json.Marshal(spec)
	}
	_ = os.WriteFile(specPath, specBytes, 0o644)
	envs := [][]string{
		{"GOMAXPROCS=1", "GOGC=100", "TZ=UTC", "LANG=C"},
		{"GOMAXPROCS=16", "GOGC=1", "TZ=Asia/Tokyo", "LANG=de_DE.UTF-8"},
		{"GOMAXPROCS=2", "GOGC=off", "TZ=America/Los_Angeles", "LANG=tr_TR.UTF-8"},
		{"GOMAXPROCS=4", "GOGC=50", "TZ=Pacific/Chatham", "LANG=ja_JP.UTF-8"},
		{"GOMAXPROCS=3", "GOGC=10", "TZ=Africa/Abidjan", "LANG=en_US.UTF-8"},
		{"GOMAXPROCS=8", "GOGC=400", "TZ=Asia/Kathmandu", "LANG=C.UTF-8"},
	}
	self, _ := os.Executable()
	var traces [][]string
	for i := 0; i < spec.Reps; i++ {
		out := filepath.Join(tmp, fmt.Sprintf("trace%d.txt", i))
		cmd := exec.Command(self, "-c17child", specPath, "-out", out)
		cmd.Env = append(os.Environ(), envs[i%len(envs)]...)
		if i%2 == 1 {
			// odd replicas dry-run every operation on a discarded copy first (a node that served a
			// simulation / CheckTx of it): process-local caches must not change the real execution
			cmd.Env = append(cmd.Env, "VERIF_C17_SHADOW=1")
		}
		if b, err := cmd.CombinedOutput(); err != nil {
			res.Inconclusive = fmt.Sprintf("replica %d failed: %v %s", i, err, short(string(b)))
			return res
		}
		bz, err := os.ReadFile(out)
		if err != nil {
			res.Inconclusive = err.Error()
			return res
		}
		traces = append(traces, strings.Split(strings.TrimSpace(string(bz)), "\n"))
		res.Count("replicas_run", 1)
	}
	what := spec.Kind
	if spec.Kind == "workload" {
		what = spec.Prop + " case " + spec.Case.ID
	}
	// one more replica under the Go race detector (check.sh builds that binary with -race and names it in
	// VERIF_RACE_BIN): block execution that starts goroutines sharing the context, the gas meter or a store is
	// reported as a data race whatever the schedule of this run happened to be; its trace is compared as well
	rb := os.Getenv("VERIF_RACE_BIN")
	if rb == "" {
		if _, err := os.Stat(self + ".race"); err == nil {
			rb = self + ".race" // (the name check.sh gives it)
		}
	}
	if rb != "" {
		out := filepath.Join(tmp, fmt.Sprintf("trace%d.txt", spec.Reps)) // numbered like the others: the comparison below names files by index
		logp := filepath.Join(tmp, "race")
		cmd := exec.Command(rb, "-c17child", specPath, "-out", out)
		cmd.Env = append(os.Environ(), "GOMAXPROCS=16", "GOGC=100", "TZ=UTC", "LANG=C", "GORACE=halt_on_error=0 exitcode=0 history_size=3 log_path="+logp)
		if b, err := cmd.CombinedOutput(); err != nil {
			res.Inconclusive = fmt.Sprintf("race-detector replica failed: %v %s", err, short(string(b)))
			return res
		}
		bz, err := os.ReadFile(out)
		if err != nil {
			res.Inconclusive = err.Error()
			return res
		}
		traces = append(traces, strings.Split(strings.TrimSpace(string(bz)), "\n"))
		res.Count("race_detector_replicas", 1)
		logs, _ := filepath.Glob(logp + ".*")
		seen := map[string]bool{}
		for _, lf := range logs {
			lb, _ := os.ReadFile(lf)
			for _, blk := range strings.Split(string(lb), "==================") {
				if !strings.Contains(blk, "WARNING: DATA RACE") {
					continue
				}
				// attributed to the first fx-core frame of the report; a report with no fx-core frame at all
				// (a dependency's own background goroutines) is counted, not judged
				fn := ""
				for _, l := range strings.Split(blk, "\n") {
					l = strings.TrimSpace(l)
					if strings.HasPrefix(l, "github.com/functionx/fx-core/") {
						fn = strings.TrimPrefix(l, "github.com/functionx/fx-core/")
						fn = strings.TrimPrefix(strings.TrimSuffix(fn, "()"), "v8/")
						break
					}
				}
				if fn == "" {
					res.Count("race_reports_without_fxcore_frames", 1)
					continue
				}
				res.Count("race_reports_in_fxcore_paths", 1)
				if !seen[fn] {
					seen[fn] = true
					res.Violate("C17/data-race/"+fn, "history %s: the race detector reports unsynchronised concurrent access during block execution (outcome depends on the schedule):\n%s", what, c17RaceDigest(blk))
				}
			}
		}
	}
	blocks, ops, drops := 0, 0, 0
	for _, l := range traces[0] {
		switch {
		case strings.HasPrefix(l, "block "):
			blocks++
		case strings.HasPrefix(l, "op "):
			ops++
		case strings.Contains(l, "oracles at once: ok=true"):
			drops++
		case strings.Contains(l, ": normalised power moved "):
			var rd int
			var moved, of, thr, n0, n1 uint64
			if _, err := fmt.Sscanf(l, "round %d: normalised power moved %d of %d (threshold %d): oracle set nonce %d -> %d", &rd, &moved, &of, &thr, &n0, &n1); err == nil {
				if moved == thr {
					res.Count("threshold_rounds_exactly_at_threshold", 1)
				} else {
					res.Count("threshold_rounds_off_threshold", 1)
				}
				if n1 > n0 {
					res.Count("threshold_rounds_with_new_oracle_set", 1)
				}
			}
		}
	}
	if spec.Kind == "workload" && (spec.Prop == "C07" || spec.Prop == "C13" || spec.Prop == "C01") {
		drops++ // these workloads replace the oracle list as well (counted once; not inspected further)
	}
	for i := 1; i < len(traces); i++ {
		a, b := traces[0], traces[i]
		n := len(a)
		if len(b) < n {
			n = len(b)
		}
		// every differing line is pinpointed (one witness per diverging component); a difference that
		// touches the state (application hash, outcome, validator updates, trace shape) ends the comparison
		// of this replica because everything after it differs too
		for j := 0; j < n; j++ {
			if a[j] == b[j] {
				continue
			}
			ctx := ""
			for q := j - 1; q >= 0 && q > j-4; q-- {
				ctx = a[q] + " | " + ctx
			}
			where, detail := c17Pinpoint(filepath.Join(tmp, "trace0.txt.full"), filepath.Join(tmp, fmt.Sprintf("trace%d.txt.full", i)), j, a[j], b[j])
			res.Violate("C17/divergence/"+where, "history %s: replica 0 (%v) and replica %d (%v) diverge at trace line %d of %d (%s):\n  A: %s\n  B: %s\n  after: %s", what, envs[0], i, envs[i%len(envs)], j, len(a), detail, a[j], b[j], ctx)
			if !strings.HasPrefix(where, "event-attribute/") && where != "error-text" && where != "gas" {
				break
			}
		}
		if len(a) != len(b) {
			res.Violate("C17/divergence/trace-length", "history %s: replica 0 produced %d trace lines, replica %d produced %d", what, len(a), i, len(b))
		}
	}
	res.Count("blocks_compared", int64(blocks*(len(traces)-1)))
	res.Count("operations_compared", int64(ops*(len(traces)-1)))
	res.Count("multi_oracle_drops", int64(drops))
	res.Nontrivial = blocks >= 5 && ops >= 20
	res.Sig = what
	res.Sample = map[string]interface{}{"history": what, "replicas": len(traces), "trace_lines": len(traces[0]), "blocks": blocks, "operations": ops, "last_line": traces[0][len(traces[0])-1]}
	return res
}

// c17Pinpoint names the component in which two trace lines differ: application hash, error text, or the
// first differing event attribute (type.key), so that a finding is identified by what diverges.
func c17Pinpoint(fa, fb string, line int, la, lb string) (where, detail string) {
	field := func(l, k string) string {
		for _, f := range strings.Fields(l) {
			if strings.HasPrefix(f, k+"=") {
				return f
			}
		}
		return ""
	}
	for _, k := range []string{"apphash", "h", "ok", "gas", "valupdates", "txresults"} {
		if field(la, k) != field(lb, k) {
			return k, k + " differs"
		}
	}
	var A, B []string
	ba, _ := os.ReadFile(fa)
	bb, _ := os.ReadFile(fb)
	_ = json.Unmarshal(ba, &A)
	_ = json.Unmarshal(bb, &B)
	if line < len(A) && line < len(B) {
		xa, xb := strings.Split(A[line], "\x1f"), strings.Split(B[line], "\x1f")
		for i := 0; i < len(xa) && i < len(xb); i++ {
			if xa[i] != xb[i] {
				ka := strings.SplitN(xa[i], "=", 2)[0]
				kb := strings.SplitN(xb[i], "=", 2)[0]
				if ka == kb {
					if ka == "err" {
						return "error-text", fmt.Sprintf("error text %q vs %q", short(xa[i]), short(xb[i]))
					}
					return "event-attribute/" + ka, fmt.Sprintf("event attribute %q vs %q", short(xa[i]), short(xb[i]))
				}
				return "event-order", fmt.Sprintf("event attribute order: %q vs %q", short(xa[i]), short(xb[i]))
			}
		}
		if len(xa) != len(xb) {
			return "event-count", fmt.Sprintf("%d vs %d event attributes", len(xa)-1, len(xb)-1)
		}
	}
	return "other", "response bytes differ"
}

// c17RaceDigest keeps the lines of a race report that identify it: the two accesses and the first frames below each.
func c17RaceDigest(blk string) string {
	var keep []string
	n := 0
	for _, l := range strings.Split(blk, "\n") {
		t := strings.TrimSpace(l)
		switch {
		case t == "":
			n = 0
		case strings.HasSuffix(t, ":") || strings.HasPrefix(t, "WARNING"):
			keep = append(keep, "  "+t)
			n = 0
		case !strings.HasPrefix(t, "/") && n < 4:
			keep = append(keep, "      "+t)
			n++
		}
	}
	if len(keep) > 40 {
		keep = keep[:40]
	}
	return strings.Join(keep, "\n")
}
