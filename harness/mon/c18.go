package mon

import (
	"encoding/hex"
	"encoding/json"
	"fmt"
	"math/big"
	"strings"
	"time"

	sdkmath "cosmossdk.io/math"
	sdk "github.com/cosmos/cosmos-sdk/types"
	banktypes "github.com/cosmos/cosmos-sdk/x/bank/types"
	govtypes "github.com/cosmos/cosmos-sdk/x/gov/types"
	govv1 "github.com/cosmos/cosmos-sdk/x/gov/types/v1"
	"github.com/ethereum/go-ethereum/common"

	fxtypes "github.com/functionx/fx-core/v8/types"
	crosschaintypes "github.com/functionx/fx-core/v8/x/crosschain/types"
	erc20types "github.com/functionx/fx-core/v8/x/erc20/types"
	fxevmtypes "github.com/functionx/fx-core/v8/x/evm/types"
	fxgovtypes "github.com/functionx/fx-core/v8/x/gov/types"

	"verif/harness/chain"
	"verif/harness/core"
	"verif/harness/evmasm"
	"verif/harness/fix"
)

// C18: a tolerated failed sub-step leaves none of its own partial effects.

type c18Spec struct {
	Seed  uint64 `json:"seed"`
	Chain string `json:"chain"`
	Mode  string `json:"mode"` // event | bridgecall | proposal | ibc
	// bridgecall
	Target  string `json:"target"`         // revert-late | loop | invalid | token-disabled | ok
	Refund  string `json:"refund"`         // to | other
	NTokens int    `json:"ntokens"`        // tokens carried by the call
	FailAt  int    `json:"fail_at"`        // index of the unconvertible token (token-disabled)
	Memo    bool   `json:"memo,omitempty"` // the claim carries the "send, then call `to`" memo: the tokens go to the sender's account
	// proposal
	Kind string `json:"kind"` // error | evm-revert | evm-oog
	N    int    `json:"n"`
	K    int    `json:"k"`
	// event
	Event string `json:"event"`
}

func init() {
	core.Register(&core.Prop{
		ID:    "C18",
		Level: "fault_enumeration",
		Rule: "every tolerated-failure boundary with the failure placed first / middle / last: " +
			"(event) observed events whose handler fails (token already registered, native-coin decimals mismatch, unknown oracle-set nonce) — diff of the crossing vote must stay inside the attestation / last-observed / per-voter keys; " +
			"(bridgecall) inbound bridge calls carrying 1-3 tokens to a contract that reverts after storage writes and token moves, loops to the gas cap, hits INVALID, or with the k-th token unconvertible, refund address equal to or different from the receiver — compared by full store diff with the twin whose target reverts at entry; the designated outcome is exactly one refund bridge call for the deposited coins; " +
			"(proposal) passed n-message proposals whose k-th message errors, reverts in the EVM after writes, or runs out of gas — compared with the voted-down twin outside the gov store; " +
			"(ibc) inbound packets whose follow-up conversion or memo call fails, through the real IBC core over a loop-back channel. Non-trivial: a case whose failing sub-step did run after earlier writes; distinct by spec",
		Assumptions: []string{
			"twins are copy-on-write branches of one block state with different contract code deployed at the same address",
			"gas exhaustion is provoked with an infinite loop under the module's own gas cap",
		},
		Cases:            c18Cases,
		Run:              runC18,
		MinNontrivial:    12,
		RequiredCounters: []string{"event_cases", "bridgecall_cases", "proposal_cases", "twin_diffs", "refund_records_checked"},
	})
}

func c18Cases(seed uint64, tier string) []core.Case {
	rng := core.Rng(seed, 0xC18)
	var out []core.Case
	chains := []string{"eth", "bsc", "tron"}
	reps := 1
	if tier == "thorough" {
		reps = 6
	}
	for rep := 0; rep < reps; rep++ {
		ch := chains[rep%len(chains)]
		for _, ev := range []string{"token-exists", "fx-decimals", "oracle-set-unknown"} {
			out = append(out, core.MkCase(fmt.Sprintf("C18-event-%s-%d", ev, rep), c18Spec{Seed: rng.Uint64(), Chain: ch, Mode: "event", Event: ev}))
		}
		for _, tgt := range []string{"revert-late", "loop", "invalid", "ok"} {
			for _, rf := range []string{"to", "other"} {
				for nt := 1; nt <= 3; nt++ {
					out = append(out, core.MkCase(fmt.Sprintf("C18-bridgecall-%s-%s-%d-%d", tgt, rf, nt, rep), c18Spec{Seed: rng.Uint64(), Chain: ch, Mode: "bridgecall", Target: tgt, Refund: rf, NTokens: nt}))
				}
			}
		}
		for nt := 2; nt <= 3; nt++ {
			for k := 0; k < nt; k++ {
				out = append(out, core.MkCase(fmt.Sprintf("C18-bridgecall-token-disabled-%d-%d-%d", nt, k, rep), c18Spec{Seed: rng.Uint64(), Chain: ch, Mode: "bridgecall", Target: "token-disabled", Refund: "to", NTokens: nt, FailAt: k}))
			}
		}
		for _, kind := range []string{"error", "evm-revert", "evm-oog", "panic"} {
			for _, nk := range [][2]int{{1, 0}, {3, 0}, {3, 1}, {3, 2}} {
				out = append(out, core.MkCase(fmt.Sprintf("C18-proposal-%s-n%d-k%d-%d", kind, nk[0], nk[1], rep), c18Spec{Seed: rng.Uint64(), Chain: ch, Mode: "proposal", Kind: kind, N: nk[0], K: nk[1]}))
			}
		}
	}
	out = append(out, c18IBCCases(rng, reps)...)
	// calls with the "send, then call" memo: the tokens are credited to the sender's account and `to` is only called
	for rep := 0; rep < reps; rep++ {
		ch := chains[rep%len(chains)]
		for _, tgt := range []string{"revert-late", "invalid"} {
			for _, rf := range []string{"to", "other"} {
				out = append(out, core.MkCase(fmt.Sprintf("C18-bridgecall-memo-%s-%s-%d", tgt, rf, rep), c18Spec{Seed: rng.Uint64() ^ 0x6e, Chain: ch, Mode: "bridgecall", Target: tgt, Refund: rf, NTokens: 2, Memo: true}))
			}
		}
	}
	// one of the tokens is an externally-owned pair whose ERC-20 contract has destroyed itself since it was
	// registered (kept last as well)
	for rep := 0; rep < reps; rep++ {
		ch := chains[rep%len(chains)]
		for _, rf := range []string{"to", "other"} {
			out = append(out, core.MkCase(fmt.Sprintf("C18-bridgecall-token-destroyed-%s-%d", rf, rep), c18Spec{Seed: rng.Uint64() ^ 0x5d, Chain: ch, Mode: "bridgecall", Target: "token-destroyed", Refund: rf, NTokens: 2, FailAt: 1}))
		}
	}
	// the receiver is a plain account that already owns coins of the bridged tokens (kept last: the cases above
	// keep their seeds)
	for rep := 0; rep < reps; rep++ {
		ch := chains[rep%len(chains)]
		for nt := 2; nt <= 3; nt++ {
			for k := 0; k < nt; k++ {
				for _, rf := range []string{"to", "other"} {
					out = append(out, core.MkCase(fmt.Sprintf("C18-bridgecall-token-disabled-plain-%d-%d-%s-%d", nt, k, rf, rep), c18Spec{Seed: rng.Uint64(), Chain: ch, Mode: "bridgecall", Target: "token-disabled-plain", Refund: rf, NTokens: nt, FailAt: k}))
				}
			}
		}
	}
	return out
}

func runC18(cs core.Case, verbose bool) core.CaseResult {
	var spec c18Spec
	res := core.CaseResult{}
	if err := json.Unmarshal(cs.Spec, &spec); err != nil {
		res.Inconclusive = err.Error()
		return res
	}
	switch spec.Mode {
	case "event":
		c18Event(spec, &res, verbose)
	case "bridgecall":
		c18BridgeCall(spec, &res, verbose)
	case "proposal":
		c18Proposal(spec, &res, verbose)
	default:
		c18IBC(spec, &res, verbose)
	}
	b, _ := json.Marshal(spec)
	res.Sig = string(b[len(`{"seed":`)+len(fmt.Sprint(spec.Seed)):])
	if res.Sample == nil {
		res.Sample = map[string]interface{}{"spec": spec}
	}
	return res
}

// ---- observed event whose handler fails ----------------------------------------------

func c18Event(spec c18Spec, res *core.CaseResult, verbose bool) {
	res.Count("event_cases", 1)
	c := chain.New(chain.Config{Seed: spec.Seed, NumVals: 2, NumUsers: 3})
	w := fix.NewWorld(c)
	b, err := w.AddBridge(spec.Chain, []sdkmath.Int{chain.FX(10000), chain.FX(10000), chain.FX(10000)})
	if err != nil {
		res.Inconclusive = err.Error()
		return
	}
	c.Next()
	tok, err := w.AddModuleToken("USDT", spec.Chain)
	if err != nil {
		res.Inconclusive = err.Error()
		return
	}
	n, h := b.NextEvent()
	var fn fix.ClaimFn
	switch spec.Event {
	case "token-exists":
		fn = b.BridgeTokenClaim(n, h, tok.Ext[spec.Chain], "again", "USDT", 18)
	case "fx-decimals":
		fn = b.BridgeTokenClaim(n, h, fix.TokenAddr(spec.Seed, "fxbad", 0), "Function X", fxtypes.DefaultDenom, 6)
	default:
		fn = func(bridger string) crosschaintypes.ExternalClaim {
			var ms []crosschaintypes.BridgeValidator
			for _, o := range b.Oracles {
				ms = append(ms, crosschaintypes.BridgeValidator{Power: 1000, ExternalAddress: o.ExtAddr})
			}
			return &crosschaintypes.MsgOracleSetUpdatedClaim{EventNonce: n, BlockHeight: h, OracleSetNonce: 77, Members: ms, BridgerAddress: bridger, ChainName: spec.Chain}
		}
	}
	// first votes do not cross
	for _, o := range b.Oracles[:1] {
		if r := b.Vote(o, fn); !r.OK() {
			res.Inconclusive = "vote: " + r.ErrString()
			return
		}
	}
	before := c.Dump(c.Ctx)
	crossing := b.Oracles[1]
	r := b.Vote(crossing, fn)
	if !r.OK() {
		res.Violate("C18/failing-event-rejected-vote/"+spec.Event, "the vote that makes the failing event observed was rejected: %s", r.ErrString())
		return
	}
	if b.K.GetLastObservedEventNonce(c.Ctx) != n {
		res.Inconclusive = "event not observed by the second vote"
		return
	}
	res.Nontrivial = true
	sawFailure := false
	for _, e := range r.Events {
		if e.Type == crosschaintypes.EventTypeContractEvent {
			for _, a := range e.Attributes {
				if a.Key == crosschaintypes.AttributeKeyStateSuccess && a.Value == "false" {
					sawFailure = true
				}
			}
		}
	}
	if !sawFailure {
		res.Violate("C18/event-failure-not-reported/"+spec.Event, "the event was observed but no contract_event with state_success=false was emitted")
	}
	res.Count("twin_diffs", 1)
	for _, d := range chain.Diff(before, c.Dump(c.Ctx)) {
		ok := false
		if d.Store == spec.Chain && len(d.Key) > 0 {
			switch d.Key[0] {
			case crosschaintypes.OracleAttestationKey[0], crosschaintypes.LastObservedEventNonceKey[0], crosschaintypes.LastObservedBlockHeightKey[0]:
				ok = true
			case crosschaintypes.LastEventNonceByOracleKey[0], crosschaintypes.LastEventBlockHeightByOracleKey[0]:
				ok = string(d.Key[1:]) == string(crossing.Oracle.Acc())
			}
		}
		if !ok {
			res.Violate("C18/failed-event-left-effects/"+spec.Event, "observing the failing %s event changed %s", spec.Event, d.String())
		}
	}
}

// ---- inbound bridge call whose contract call fails ---------------------------------------

// lateFail builds a callback receiver that writes storage, moves the received tokens on and then fails.
func lateFail(kind string, tokens []common.Address, sink common.Address) []byte {
	p := evmasm.Prog{Touch: true}
	for _, t := range tokens {
		p.Steps = append(p.Steps, evmasm.Step{Kind: evmasm.CALL, To: t, Data: chain.ERC20Pack("transfer", sink, big.NewInt(1)), Gas: 200_000})
	}
	switch kind {
	case "revert-late":
		p.End = "revert"
	case "loop":
		p.End = "loop"
	case "invalid":
		p.End = "invalid"
	default:
		p.End = "stop"
	}
	return p.Runtime()
}

func c18BridgeCall(spec c18Spec, res *core.CaseResult, verbose bool) {
	res.Count("bridgecall_cases", 1)
	c := chain.New(chain.Config{Seed: spec.Seed, NumVals: 2, NumUsers: 5})
	w := fix.NewWorld(c)
	b, err := w.AddBridge(spec.Chain, []sdkmath.Int{chain.FX(10000), chain.FX(10000), chain.FX(10000)})
	if err != nil {
		res.Inconclusive = err.Error()
		return
	}
	c.Next()
	var toks []*fix.WToken
	for i := 0; i < spec.NTokens; i++ {
		t, err := w.AddModuleToken(fmt.Sprintf("TK%c", 'A'+i), spec.Chain)
		if err != nil {
			res.Inconclusive = err.Error()
			return
		}
		toks = append(toks, t)
	}
	deployer, sender, other, exec := c.Users[0], c.Users[1], c.Users[2], c.Users[3]
	// something must have been deposited before so that refund calls have an observed height etc.
	if _, err := b.Deposit(exec, toks[0], sdkmath.NewInt(10), sender.Hex(), sender.Acc(), ""); err != nil {
		res.Inconclusive = err.Error()
		return
	}
	if spec.Target == "token-disabled-plain" || spec.Target == "token-destroyed" {
		if spec.Target == "token-destroyed" {
			// the second token: an ordinary user's ERC-20, registered by governance, some of it converted to coins
			// (escrow in the module) -- and its contract account deleted afterwards, which is what the state
			// database does when it commits a contract that destroyed itself
			owner := c.Users[0]
			xt, err := w.AddExternalToken(owner, "XDS", big.NewInt(1_000_000), spec.Chain)
			if err != nil {
				res.Inconclusive = err.Error()
				return
			}
			if r := c.Msg(&erc20types.MsgConvertERC20{ContractAddress: xt.ERC20.Hex(), Amount: sdkmath.NewInt(100_000), Receiver: owner.Bech32(), Sender: owner.Hex().Hex()}); !r.OK() {
				res.Inconclusive = "convert: " + r.ErrString()
				return
			}
			// 50000 of it left for the external chain earlier (sent, batched, executed there): what comes back
			// now is released from what the bridge holds
			if _, sr := b.SendToExternal(owner, c.Users[2].Hex(), sdk.NewCoin(xt.Base, sdkmath.NewInt(50_000)), sdk.NewCoin(xt.Base, sdkmath.NewInt(10))); !sr.OK() {
				res.Inconclusive = "send out: " + sr.ErrString()
				return
			}
			if bn, br := b.RequestBatch(b.Oracles[0], xt.Denom[spec.Chain], sdkmath.NewInt(1), sdkmath.ZeroInt(), c.Users[2].Hex()); !br.OK() {
				res.Inconclusive = "batch: " + br.ErrString()
				return
			} else {
				n, h := b.NextEvent()
				if err := b.Quorum(b.SendToExternalClaim(n, h, bn, xt.Ext[spec.Chain])); err != nil {
					res.Inconclusive = "batch executed: " + err.Error()
					return
				}
			}
			toks[1] = xt
			c.Next()
		}
		c18BridgeCallPlain(spec, res, verbose, c, b, toks)
		return
	}
	if spec.Target == "token-disabled" {
		if r := c.Msg(&erc20types.MsgToggleTokenConversion{Authority: chain.GovAuthority(), Token: toks[spec.FailAt].Base}); !r.OK() {
			res.Inconclusive = r.ErrString()
			return
		}
	}
	to := crosschainNextContract(c, deployer)
	refund := to
	if spec.Refund == "other" {
		refund = other.Hex()
	}
	var ext []common.Address
	var erc []common.Address
	var amts []sdkmath.Int
	for i, t := range toks {
		ext = append(ext, t.Ext[spec.Chain])
		erc = append(erc, t.ERC20)
		amts = append(amts, sdkmath.NewInt(int64(100*(i+1))))
	}
	n, h := b.NextEvent()
	in := fix.BridgeCallIn{Sender: sender.Hex(), Refund: refund, To: to, TxOrigin: sender.Hex(), Tokens: ext, Amounts: amts, Data: []byte{1, 2, 3}}
	senderHeld := func(ctx sdk.Context) string {
		var parts []string
		for _, t := range toks {
			parts = append(parts, c.Balance(ctx, sender.Acc(), t.Base).String()+"/"+c.ERC20Balance(ctx, t.ERC20, sender.Hex()).String())
		}
		return strings.Join(parts, ",")
	}
	if spec.Memo {
		in.Memo = crosschaintypes.MemoSendCallTo.Bytes()
		// the refund address already owns coins of the tokens (what a refund could wrongly be paid from)
		for _, t := range toks {
			fix.Fund(c, refund.Bytes(), sdk.NewCoin(t.Base, sdkmath.NewInt(5_000)))
		}
		res.Count("memo_send_call_to_cases", 1)
	}
	senderBefore := senderHeld(c.Ctx)
	if err := b.Quorum(b.BridgeCallClaim(n, h, in)); err != nil {
		res.Inconclusive = "quorum: " + err.Error()
		return
	}
	run := func(code []byte) (sdk.Context, chain.EvmResult, error) {
		ctx := c.Branch()
		er := c.EthTxOn(ctx, deployer, nil, chain.InitCode(code), nil, 0)
		if er.Failed() || er.Contract != to {
			return ctx, er, fmt.Errorf("deploy: %s", er.VmError())
		}
		pc := fix.PrecompileCrosschain()
		x := c.EthTxOn(ctx, exec, &pc, fix.PackCrosschain("executeClaim", spec.Chain, new(big.Int).SetUint64(n)), nil, 0)
		return ctx, x, nil
	}
	kind := spec.Target
	if kind == "token-disabled" {
		kind = "ok" // the contract itself would succeed; the conversion of token k fails before it is called
	}
	ctxA, ra, err := run(lateFail(kind, erc, other.Hex()))
	if err != nil {
		res.Inconclusive = err.Error()
		return
	}
	ctxB, rb, err := run(evmasm.Reverter())
	if err != nil {
		res.Inconclusive = err.Error()
		return
	}
	if verbose {
		fmt.Printf("A: failed=%v %s | B: failed=%v %s\n", ra.Failed(), short(ra.VmError()), rb.Failed(), short(rb.VmError()))
	}
	calls := func(ctx sdk.Context) []*crosschaintypes.OutgoingBridgeCall {
		var out []*crosschaintypes.OutgoingBridgeCall
		b.K.IterateOutgoingBridgeCalls(ctx, func(oc *crosschaintypes.OutgoingBridgeCall) bool { out = append(out, oc); return false })
		return out
	}
	if spec.Target == "ok" {
		// control: the call succeeds, no refund record, tokens stay with the receiver
		if ra.Failed() {
			res.Violate("C18/successful-bridge-call-failed", "inbound bridge call to a succeeding contract failed: %s", ra.VmError())
		}
		if len(calls(ctxA)) != 0 {
			res.Violate("C18/refund-for-successful-call", "a successful inbound bridge call produced %d outgoing bridge calls", len(calls(ctxA)))
		}
		res.Nontrivial = !ra.Failed()
		return
	}
	res.Nontrivial = true
	// the designated outcome: the claim is consumed and exactly one refund bridge call carries the deposited coins
	for name, x := range map[string]struct {
		ctx sdk.Context
		r   chain.EvmResult
	}{"late-failure": {ctxA, ra}, "entry-revert": {ctxB, rb}} {
		res.Count("refund_records_checked", 1)
		cs := calls(x.ctx)
		_, pending := b.K.GetPendingExecuteClaim(x.ctx, n)
		sfx := "/refund=" + spec.Refund
		if x.r.Failed() || pending {
			res.Violate("C18/inbound-bridge-call-refund-missing"+sfx, "%s twin: executing the failing inbound bridge call (refund %s receiver) itself fails (%s): the claim stays parked and no refund record is produced", name, map[string]string{"to": "==", "other": "!="}[spec.Refund], short(x.r.VmError()))
			continue
		}
		if len(cs) != 1 {
			res.Violate("C18/refund-record-count"+sfx, "%s twin: %d outgoing bridge calls after the failed inbound call, expected exactly one refund", name, len(cs))
			continue
		}
		rc := cs[0]
		want := map[string]string{}
		for i, t := range toks {
			want[t.ExtStr(spec.Chain)] = amts[i].String()
		}
		got := map[string]string{}
		for _, tk := range rc.Tokens {
			got[tk.Contract] = tk.Amount.String()
		}
		if fmt.Sprint(got) != fmt.Sprint(want) || rc.Refund != fix.ExtAddr(spec.Chain, refund) || rc.EventNonce != n {
			res.Violate("C18/refund-record-content"+sfx, "%s twin: refund call carries %v to %s for event %d, expected %v to %s for event %d", name, got, rc.Refund, rc.EventNonce, want, fix.ExtAddr(spec.Chain, refund), n)
		}
	}
	if spec.Memo {
		for name, x := range map[string]sdk.Context{"late-failure": ctxA, "entry-revert": ctxB} {
			if got := senderHeld(x); got != senderBefore {
				res.Violate("C18/failed-bridge-call-left-effects/memo-send-call-to", "%s twin: the call failed and its tokens were refunded, but the sender's own holdings (coins/ERC-20 per token) went %s -> %s", name, senderBefore, got)
			}
		}
	}
	// nothing of the failed sub-step survives: late failure == entry revert
	res.Count("twin_diffs", 1)
	var lines []string
	for _, d := range chain.Diff(c.Dump(ctxA), c.Dump(ctxB)) {
		if d.Store == "evm" && len(d.Key) > 0 && d.Key[0] == 0x01 { // contract code by hash
			continue
		}
		if d.Store == "acc" && strings.Contains(string(d.Key), string(to.Bytes())) { // code hash in the account record
			continue
		}
		lines = append(lines, d.String())
	}
	if len(lines) > 0 {
		res.Violate("C18/failed-bridge-call-left-effects/"+spec.Target, "inbound bridge call whose target fails by %s (tokens %d) differs from the entry-revert twin in %d keys: %s", spec.Target, spec.NTokens, len(lines), strings.Join(firstN(lines, 5), " | "))
	}
}

// c18BridgeCallPlain: an inbound bridge call with several tokens to a plain account that already owns coins and
// ERC-20 units of those tokens; the conversion of token FailAt is switched off by governance, so the delivery
// fails half-way. The designated outcome is one refund record for everything, and the receiver owns exactly what
// it owned before.
func c18BridgeCallPlain(spec c18Spec, res *core.CaseResult, verbose bool, c *chain.Chain, b *fix.Bridge, toks []*fix.WToken) {
	sender, other, exec, to := c.Users[1], c.Users[2], c.Users[3], c.Users[4]
	for _, t := range toks {
		if t.Kind == fix.KindExternal {
			continue
		}
		// coins of the token's own denomination, half of them converted to the ERC-20
		coins := sdk.NewCoin(t.Base, sdkmath.NewInt(10_000))
		if err := c.App.BankKeeper.MintCoins(c.Ctx, erc20types.ModuleName, sdk.NewCoins(coins)); err != nil {
			res.Inconclusive = err.Error()
			return
		}
		if err := c.App.BankKeeper.SendCoinsFromModuleToAccount(c.Ctx, erc20types.ModuleName, to.Acc(), sdk.NewCoins(coins)); err != nil {
			res.Inconclusive = err.Error()
			return
		}
		if r := c.Msg(&erc20types.MsgConvertCoin{Coin: sdk.NewCoin(t.Base, sdkmath.NewInt(5_000)), Receiver: to.Hex().Hex(), Sender: to.Bech32()}); !r.OK() {
			res.Inconclusive = "convert: " + r.ErrString()
			return
		}
	}
	if spec.Target == "token-destroyed" {
		if err := c.App.EvmKeeper.DeleteAccount(c.Ctx, toks[spec.FailAt].ERC20); err != nil {
			res.Inconclusive = "delete contract: " + err.Error()
			return
		}
		res.Count("destroyed_token_cases", 1)
	} else if r := c.Msg(&erc20types.MsgToggleTokenConversion{Authority: chain.GovAuthority(), Token: toks[spec.FailAt].Base}); !r.OK() {
		res.Inconclusive = r.ErrString()
		return
	}
	c.Next()
	refund := to.Hex()
	if spec.Refund == "other" {
		refund = other.Hex()
	}
	var ext []common.Address
	var amts []sdkmath.Int
	for i, t := range toks {
		ext = append(ext, t.Ext[spec.Chain])
		amts = append(amts, sdkmath.NewInt(int64(100*(i+1))))
	}
	n, h := b.NextEvent()
	in := fix.BridgeCallIn{Sender: sender.Hex(), Refund: refund, To: to.Hex(), TxOrigin: sender.Hex(), Tokens: ext, Amounts: amts}
	if err := b.Quorum(b.BridgeCallClaim(n, h, in)); err != nil {
		res.Inconclusive = "quorum: " + err.Error()
		return
	}
	type holding struct{ coins, erc20 []string }
	snap := func(ctx sdk.Context, who chain.Key) holding {
		var hd holding
		for _, t := range toks {
			hd.coins = append(hd.coins, c.Balance(ctx, who.Acc(), t.Base).String())
			hd.erc20 = append(hd.erc20, c.ERC20Balance(ctx, t.ERC20, who.Hex()).String())
		}
		return hd
	}
	before := snap(c.Ctx, to)
	ctx := c.Branch()
	pc := fix.PrecompileCrosschain()
	x := c.EthTxOn(ctx, exec, &pc, fix.PackCrosschain("executeClaim", spec.Chain, new(big.Int).SetUint64(n)), nil, 0)
	after := snap(ctx, to)
	if verbose {
		fmt.Printf("plain receiver: executeClaim failed=%v %s; receiver before %v after %v\n", x.Failed(), short(x.VmError()), before, after)
	}
	res.Nontrivial = true
	res.Count("refund_records_checked", 1)
	res.Count("plain_receiver_cases", 1)
	sfx := "/refund=" + spec.Refund
	var cs []*crosschaintypes.OutgoingBridgeCall
	b.K.IterateOutgoingBridgeCalls(ctx, func(oc *crosschaintypes.OutgoingBridgeCall) bool { cs = append(cs, oc); return false })
	if _, pending := b.K.GetPendingExecuteClaim(ctx, n); x.Failed() || pending {
		res.Violate("C18/inbound-bridge-call-refund-missing"+sfx, "plain receiver: executing the inbound bridge call whose token %d cannot be converted fails itself (%s): the claim stays parked and no refund record is produced", spec.FailAt, short(x.VmError()))
		return
	}
	if len(cs) != 1 {
		res.Violate("C18/refund-record-count"+sfx, "plain receiver: %d outgoing bridge calls after the failed inbound call, expected exactly one refund", len(cs))
		return
	}
	want, got := map[string]string{}, map[string]string{}
	for i, t := range toks {
		want[t.ExtStr(spec.Chain)] = amts[i].String()
	}
	for _, tk := range cs[0].Tokens {
		got[tk.Contract] = tk.Amount.String()
	}
	if fmt.Sprint(got) != fmt.Sprint(want) || cs[0].Refund != fix.ExtAddr(spec.Chain, refund) || cs[0].EventNonce != n {
		res.Violate("C18/refund-record-content"+sfx, "plain receiver: refund call carries %v to %s for event %d, expected %v to %s for event %d", got, cs[0].Refund, cs[0].EventNonce, want, fix.ExtAddr(spec.Chain, refund), n)
	}
	if spec.Target == "token-destroyed" {
		if _, ok := c.App.Erc20Keeper.GetTokenPair(ctx, toks[spec.FailAt].Base); !ok {
			res.Violate("C18/failed-bridge-call-left-effects/token-destroyed", "the failed delivery removed the registration of token %s although it was refunded", toks[spec.FailAt].Base)
		}
	}
	if fmt.Sprint(before) != fmt.Sprint(after) {
		res.Violate("C18/failed-bridge-call-left-effects/"+spec.Target, "inbound bridge call to a plain account failed at token %d of %d and was refunded in full, but the receiver's own holdings changed: coins/ERC-20 before %v, after %v", spec.FailAt, spec.NTokens, before, after)
	}
}

func crosschainNextContract(c *chain.Chain, deployer chain.Key) common.Address {
	return createAddr(deployer.Hex(), c.App.EvmKeeper.GetNonce(c.Ctx, deployer.Hex()))
}

// ---- passed proposal whose i-th message fails ---------------------------------------------

func c18Proposal(spec c18Spec, res *core.CaseResult, verbose bool) {
	res.Count("proposal_cases", 1)
	c := chain.New(chain.Config{Seed: spec.Seed, NumVals: 3, NumUsers: 3})
	w := fix.NewWorld(c)
	if _, err := w.AddBridge("eth", []sdkmath.Int{chain.FX(10000), chain.FX(10000), chain.FX(10000)}); err != nil {
		res.Inconclusive = err.Error()
		return
	}
	c.Next()
	gov := chain.GovAuthority()
	// contracts for MsgCallContract: a writer (succeeds), a late reverter, a looper
	writer, err := c.Deploy(c.Users[0], []byte{0x60, 0x07, 0x60, 0x00, 0x55, 0x00})
	if err != nil {
		res.Inconclusive = err.Error()
		return
	}
	lateRev, _ := c.Deploy(c.Users[0], []byte{0x60, 0x07, 0x60, 0x00, 0x55, 0x60, 0x00, 0x60, 0x00, 0xfd})
	looper, _ := c.Deploy(c.Users[0], append([]byte{0x60, 0x07, 0x60, 0x00, 0x55}, 0x5b, 0x60, 0x05, 0x56))
	good := func(i int) sdk.Msg {
		return &fxevmtypes.MsgCallContract{Authority: gov, ContractAddress: writer.Hex(), Data: hex.EncodeToString([]byte{byte(i + 1)})}
	}
	bad := func() sdk.Msg {
		switch spec.Kind {
		case "evm-revert":
			return &fxevmtypes.MsgCallContract{Authority: gov, ContractAddress: lateRev.Hex(), Data: "01"}
		case "evm-oog":
			return &fxevmtypes.MsgCallContract{Authority: gov, ContractAddress: looper.Hex(), Data: "01"}
		default:
			return &fxevmtypes.MsgCallContract{Authority: gov, ContractAddress: common.HexToAddress("0x00000000000000000000000000000000000000aa").Hex(), Data: "01"} // no contract there
		}
	}
	if spec.Kind == "panic" {
		// raw store updates (all messages of a proposal have one type): the failing one writes its first
		// entry and then asks for a key longer than the store accepts, which panics inside the store
		key := func(i int) string { return hex.EncodeToString([]byte(fmt.Sprintf("\xf0c18-%d", i))) }
		good = func(i int) sdk.Msg {
			return &fxgovtypes.MsgUpdateStore{Authority: gov, UpdateStores: []fxgovtypes.UpdateStore{{Space: "eth", Key: key(i), OldValue: "", Value: "01"}}}
		}
		bad = func() sdk.Msg {
			return &fxgovtypes.MsgUpdateStore{Authority: gov, UpdateStores: []fxgovtypes.UpdateStore{
				{Space: "eth", Key: key(99), OldValue: "", Value: "02"},
				{Space: "eth", Key: hex.EncodeToString(make([]byte, 131072)), OldValue: "", Value: "03"},
			}}
		}
	}
	var msgs []sdk.Msg
	for i := 0; i < spec.N; i++ {
		if i == spec.K {
			msgs = append(msgs, bad())
		} else {
			msgs = append(msgs, good(i))
		}
	}
	gp, _ := c.App.GovKeeper.Params.Get(c.Ctx)
	id, r := fix.Propose(c, c.Users[1], msgs, gp.MinDeposit, "c18")
	if !r.OK() {
		res.Inconclusive = r.ErrString()
		return
	}
	p, _ := fix.Proposal(c, id)
	if p.Status != govv1.StatusVotingPeriod {
		res.Inconclusive = "not voting"
		return
	}
	// in every second case a companion proposal of the same type ends in the same block, after this one, and
	// passes (in both twins): what the failing proposal wrote must not ride along with it
	var id2 uint64
	if spec.Seed%2 == 0 {
		var r2 chain.Result
		if id2, r2 = fix.Propose(c, c.Users[2], []sdk.Msg{good(50)}, gp.MinDeposit, "c18 companion"); !r2.OK() {
			res.Inconclusive = r2.ErrString()
			return
		}
		res.Count("proposal_cases_with_companion", 1)
	}
	c.Next()
	end := p.VotingEndTime.Add(time.Second)
	run := func(opt govv1.VoteOption) (sdk.Context, govv1.Proposal) {
		ctx := c.Branch()
		for _, v := range c.Vals {
			c.MsgOn(ctx, govv1.NewMsgVote(v.Operator.Acc(), id, opt, ""))
			if id2 != 0 {
				c.MsgOn(ctx, govv1.NewMsgVote(v.Operator.Acc(), id2, govv1.OptionYes, ""))
			}
		}
		ectx := ctx.WithBlockTime(end).WithBlockHeight(c.Height + 1)
		func() {
			defer func() {
				if rec := recover(); rec != nil {
					res.Violate("C18/end-blocker-panic", "gov end blocker panicked: %v", rec)
				}
			}()
			if _, err := c.App.EndBlocker(ectx); err != nil {
				res.Violate("C18/end-blocker-error", "gov end blocker returned %v", err)
			}
		}()
		sp, _ := c.App.GovKeeper.Proposals.Get(ectx, id)
		return ectx, sp
	}
	ca, pa := run(govv1.OptionYes)
	cb, pb := run(govv1.OptionNo)
	if pa.Status != govv1.StatusFailed {
		res.Violate("C18/failed-proposal-status/"+spec.Kind, "passed proposal whose message %d/%d fails by %s has status %s (%s)", spec.K, spec.N, spec.Kind, pa.Status, pa.FailedReason)
	}
	if pb.Status != govv1.StatusRejected {
		res.Inconclusive = "twin not rejected"
		return
	}
	if id2 != 0 {
		for name, x := range map[string]sdk.Context{"failing": ca, "voted-down": cb} {
			if p2, err := c.App.GovKeeper.Proposals.Get(x, id2); err != nil || p2.Status != govv1.StatusPassed {
				res.Inconclusive = fmt.Sprintf("companion proposal did not pass in the %s twin (%v)", name, p2.Status)
				return
			}
		}
	}
	res.Nontrivial = spec.K > 0 || spec.Kind != "error"
	res.Count("twin_diffs", 1)
	var lines []string
	for _, d := range chain.Diff(c.Dump(ca), c.Dump(cb)) {
		if d.Store == govtypes.StoreKey {
			continue
		}
		lines = append(lines, d.String())
	}
	if len(lines) > 0 {
		res.Violate(fmt.Sprintf("C18/failed-proposal-left-effects/%s", spec.Kind), "passed %d-message proposal whose message %d fails by %s differs from the voted-down twin outside the gov store in %d keys: %s", spec.N, spec.K, spec.Kind, len(lines), strings.Join(firstN(lines, 5), " | "))
	}
	_ = banktypes.ModuleName
}
