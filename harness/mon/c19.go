package mon

import (
	"encoding/hex"
	"encoding/json"
	"fmt"
	"math/big"
	"math/rand/v2"
	"strings"
	"time"

	sdkmath "cosmossdk.io/math"
	sdk "github.com/cosmos/cosmos-sdk/types"
	"github.com/cosmos/cosmos-sdk/types/address"
	transfertypes "github.com/cosmos/ibc-go/v8/modules/apps/transfer/types"
	clienttypes "github.com/cosmos/ibc-go/v8/modules/core/02-client/types"
	channeltypes "github.com/cosmos/ibc-go/v8/modules/core/04-channel/types"
	host "github.com/cosmos/ibc-go/v8/modules/core/24-host"
	"github.com/ethereum/go-ethereum/common"

	fxtypes "github.com/functionx/fx-core/v8/types"
	erc20types "github.com/functionx/fx-core/v8/x/erc20/types"
	ibcmwtypes "github.com/functionx/fx-core/v8/x/ibc/middleware/types"

	"verif/harness/chain"
	"verif/harness/core"
	"verif/harness/evmasm"
	"verif/harness/fix"
)

// C19: IBC transfers through the middleware credit or refund exactly once.

type c19Spec struct {
	Seed uint64 `json:"seed"`
	Mode string `json:"mode"` // inbound | outbound-fixture | outbound-natural | c18-ibc
	N    int    `json:"n"`
}

func init() {
	core.Register(&core.Prop{
		ID:    "C19",
		Level: "exploration",
		Rule: "loop-back fixture (two channel pairs over connection-localhost on the real app, real IBC core and fx middleware). " +
			"inbound: packets over denoms {FX returning home, FX leaving, one-to-one registered voucher, alias voucher, unknown foreign} x receivers {bech32, hex, garbage} x amounts {1, large, non-numeric, negative} x memo {none, EVM-call packet to a caller-recording contract, to a reverting contract, malformed}; hostile packet data is committed through the channel keeper as a foreign application would; " +
			"outcome oracle: success ack => the hex receiver's ERC-20 (native for FX) rose by exactly the amount and nobody else was credited, error ack => no user balance, ERC-20 balance or supply changed; memo caller == hash(port/channel, sender) and no local account. " +
			"outbound (labelled fixture, see assumptions): crossChain precompile with an IBC target, then ack-success / ack-error / timeout, each also replayed and interleaved over two channels: refund to the sender as ERC-20, exactly the amount, exactly once, only on error/timeout; relation record absent afterwards. " +
			"Non-trivial: an inbound case with both ack kinds observed, or an outbound case that completed all three endings; distinct by (mode, endings seen)",
		Assumptions: []string{
			"the remote chain is a local account on the other end of a loop-back channel; TAO checks, sequence / replay protection and the cache-and-discard rule for error acknowledgements are those of ibc-go v8.5.1",
			"outbound-fixture: no transaction history creates a relation-bearing outbound transfer at this commit (observations O2/O3), so the state a working inbound alias conversion would have left behind (voucher liquidity in the transfer module account, denom trace, alias registration) is seeded the way the repository's own precompile tests do; violations seen only there carry '/fixture' in their key",
		},
		Cases:            c19Cases,
		Run:              runC19,
		MinNontrivial:    4,
		RequiredCounters: []string{"inbound_packets", "success_acks", "error_acks", "memo_calls_checked", "outbound_sends", "refunds_checked", "replays_rejected", "relation_checks"},
	})
}

func c19Cases(seed uint64, tier string) []core.Case {
	rng := core.Rng(seed, 0xC19)
	reps := 4
	if tier == "thorough" {
		reps = 40
	}
	var out []core.Case
	for i := 0; i < reps; i++ {
		out = append(out, core.MkCase(fmt.Sprintf("C19-inbound-%02d", i), c19Spec{Seed: rng.Uint64(), Mode: "inbound", N: 40}))
		out = append(out, core.MkCase(fmt.Sprintf("C19-outbound-fixture-%02d", i), c19Spec{Seed: rng.Uint64(), Mode: "outbound-fixture", N: 10}))
		out = append(out, core.MkCase(fmt.Sprintf("C19-outbound-natural-%02d", i), c19Spec{Seed: rng.Uint64(), Mode: "outbound-natural", N: 6}))
		if i%4 == 0 {
			// many channels: transfers in flight on channels whose ids are decimal prefixes of one another
			// (channel-1 / channel-11) with sequences that read the same when glued to the id (1|12, 11|2)
			out = append(out, core.MkCase(fmt.Sprintf("C19-outbound-fixture-prefix-channels-%02d", i), c19Spec{Seed: rng.Uint64(), Mode: "outbound-fixture-prefix", N: 14}))
		}
	}
	return out
}

func c18IBCCases(rng *rand.Rand, reps int) []core.Case {
	var out []core.Case
	for i := 0; i < reps; i++ {
		out = append(out, core.MkCase(fmt.Sprintf("C18-ibc-%d", i), c18Spec{Seed: rng.Uint64(), Mode: "ibc"}))
	}
	return out
}

type c19World struct {
	c      *chain.Chain
	loop   *fix.Loop
	w      *fix.World
	usdt   *fix.WToken
	remote chain.Key
	users  []chain.Key
	// one-to-one voucher pair
	atomDenom  string // ibc/... on the receiving end of pair 0
	atomERC20  common.Address
	routes     [][2]string // (sending channel, receiving channel) of the outbound workload; default: the pairs
	plan       []string    // fixed sequence of sending channels (otherwise random)
	recorder   common.Address
	reverter   common.Address
	aliasDenom string
}

func c19Setup(seed uint64, pairs ...int) (*c19World, error) {
	nPairs := 2
	if len(pairs) > 0 {
		nPairs = pairs[0]
	}
	c := chain.New(chain.Config{Seed: seed, NumVals: 2, NumUsers: 6})
	w := fix.NewWorld(c)
	if _, err := w.AddBridge("eth", []sdkmath.Int{chain.FX(10000), chain.FX(10000), chain.FX(10000)}); err != nil {
		return nil, err
	}
	c.Next()
	usdt, err := w.AddModuleToken("USDT", "eth")
	if err != nil {
		return nil, err
	}
	x := &c19World{c: c, w: w, usdt: usdt, remote: c.Users[5], users: c.Users[:4]}
	if x.loop, err = fix.NewLoop(c, c.Users[4], nPairs); err != nil {
		return nil, err
	}
	fix.Fund(c, x.remote.Acc(), sdk.NewCoin("atom", sdkmath.NewInt(1_000_000_000)), sdk.NewCoin("usdtx", sdkmath.NewInt(1_000_000_000)), sdk.NewCoin("foreign", sdkmath.NewInt(1_000_000_000)))
	// one-to-one pair for the voucher of "atom" arriving over pair 0 (registered before the first receive)
	b0 := x.loop.Pairs[0][1]
	x.atomDenom = transfertypes.ParseDenomTrace(fmt.Sprintf("transfer/%s/atom", b0)).IBCDenom()
	md := fxtypes.GetCrossChainMetadataOneToOne("Atom", x.atomDenom, "ATOM", 6)
	if r := c.Msg(&erc20types.MsgRegisterCoin{Authority: chain.GovAuthority(), Metadata: md}); !r.OK() {
		return nil, fmt.Errorf("register atom: %s", r.ErrString())
	}
	pair, _ := c.App.Erc20Keeper.GetTokenPair(c.Ctx, x.atomDenom)
	x.atomERC20 = common.HexToAddress(pair.Erc20Address)
	// alias voucher of usdtx for USDT
	x.aliasDenom = transfertypes.ParseDenomTrace(fmt.Sprintf("transfer/%s/usdtx", b0)).IBCDenom()
	if r := c.Msg(&erc20types.MsgUpdateDenomAlias{Authority: chain.GovAuthority(), Denom: usdt.Base, Alias: x.aliasDenom}); !r.OK() {
		return nil, fmt.Errorf("alias: %s", r.ErrString())
	}
	if x.recorder, err = c.Deploy(c.Users[0], evmasm.CallerRecorder()); err != nil {
		return nil, err
	}
	if x.reverter, err = c.Deploy(c.Users[0], evmasm.Reverter()); err != nil {
		return nil, err
	}
	if _, err := c.Next(); err != nil {
		return nil, err
	}
	return x, nil
}

// c04IBCTargetCase (run by the C04 check): deposits whose target is another chain over IBC. The token has a
// voucher alias on that channel and the transfer module holds some vouchers; the deposits are for less than,
// exactly, and more than that liquidity. A deposit either fails as a whole (it stays parked, nobody's holdings
// change) or is consumed and its amount is with the receiver or in a packet that has left.
func c04IBCTargetCase(seed uint64, res *core.CaseResult, verbose bool) {
	x, err := c19Setup(seed, 1)
	if err != nil {
		res.Inconclusive = "setup: " + err.Error()
		return
	}
	c := x.c
	b := x.w.Bridges["eth"]
	ch := x.loop.Pairs[0][1]
	var chanNum int
	fmt.Sscanf(ch, "channel-%d", &chanNum)
	rng := core.Rng(seed, 0x1bc)
	pool := int64(30 + rng.IntN(50))
	// (what a voucher received over that channel earlier would have left: its denomination trace)
	c.App.IBCTransferKeeper.SetDenomTrace(c.Ctx, transfertypes.ParseDenomTrace(fmt.Sprintf("transfer/%s/usdtx", ch)))
	if err := c.App.BankKeeper.MintCoins(c.Ctx, transfertypes.ModuleName, sdk.NewCoins(sdk.NewCoin(x.aliasDenom, sdkmath.NewInt(pool)))); err != nil {
		res.Inconclusive = err.Error()
		return
	}
	receiver, exec := x.users[1], x.users[2]
	holdings := func() sdkmath.Int {
		h := c.Balance(c.Ctx, receiver.Acc(), x.usdt.Base).Add(c.Balance(c.Ctx, receiver.Acc(), x.aliasDenom))
		return h.Add(sdkmath.NewIntFromBigInt(c.ERC20Balance(c.Ctx, x.usdt.ERC20, receiver.Hex())))
	}
	left := pool
	for _, amt := range []int64{pool + 1 + int64(rng.IntN(100)), 1 + int64(rng.IntN(int(pool)-1)), 0, 1} {
		if amt == 0 {
			amt = left // exactly what is left
		}
		n, h := b.NextEvent()
		if err := b.Quorum(b.SendToFxClaim(n, h, x.usdt.Ext["eth"], sdkmath.NewInt(amt), receiver.Hex(), receiver.Acc(), fmt.Sprintf("ibc/%d/fx", chanNum))); err != nil {
			res.Inconclusive = "quorum: " + err.Error()
			return
		}
		h0 := holdings()
		seq0, _ := c.App.IBCKeeper.ChannelKeeper.GetNextSequenceSend(c.Ctx, transfertypes.PortID, ch)
		er := b.ExecuteClaim(exec, n)
		_, pending := b.K.GetPendingExecuteClaim(c.Ctx, n)
		seq1, _ := c.App.IBCKeeper.ChannelKeeper.GetNextSequenceSend(c.Ctx, transfertypes.PortID, ch)
		credited := holdings().Sub(h0)
		sent := seq1 > seq0
		what := fmt.Sprintf("deposit of %d with target ibc/%d/fx (voucher liquidity %d): execution failed=%v (%s), still parked=%v, receiver's holdings changed by %s, packet sent=%v", amt, chanNum, left, er.Failed(), short(er.VmError()), pending, credited, sent)
		if verbose {
			fmt.Println(what)
		}
		res.Count("ibc_target_deposits", 1)
		switch {
		case er.Failed():
			res.Count("ibc_target_deposits_failed_as_a_whole", 1)
			if !pending || !credited.IsZero() || sent {
				res.Violate("C04/failed-deposit-left-effects/ibc-target", "%s", what)
			}
		default:
			res.Count("ibc_target_deposits_executed", 1)
			if pending {
				res.Violate("C04/deposit-executed-but-still-parked/ibc-target", "%s", what)
			}
			if !sent && !credited.Equal(sdkmath.NewInt(amt)) {
				res.Violate("C04/deposit-consumed-without-credit/ibc-target", "%s", what)
			}
			if sent {
				left -= amt
			}
		}
		c.Next()
	}
	res.Nontrivial = true
}

type c19Snap struct {
	bank   map[string]string
	erc    map[string]string
	supply map[string]string
}

func (x *c19World) tokens() map[string]common.Address {
	fxPair, _ := x.c.App.Erc20Keeper.GetTokenPair(x.c.Ctx, fxtypes.DefaultDenom)
	return map[string]common.Address{"usdt": x.usdt.ERC20, "atom": x.atomERC20, "wfx": common.HexToAddress(fxPair.Erc20Address)}
}

func (x *c19World) snap(ctx sdk.Context, extra ...common.Address) c19Snap {
	c := x.c
	s := c19Snap{bank: map[string]string{}, erc: map[string]string{}, supply: map[string]string{}}
	addrs := map[string]common.Address{}
	for _, u := range x.users {
		addrs[u.Label] = u.Hex()
	}
	for i, a := range extra {
		addrs[fmt.Sprintf("extra%d", i)] = a
	}
	for n, a := range addrs {
		s.bank[n] = c.App.BankKeeper.GetAllBalances(ctx, a.Bytes()).String()
		for tn, t := range x.tokens() {
			s.erc[n+"/"+tn] = c.ERC20Balance(ctx, t, a).String()
		}
	}
	for tn, t := range x.tokens() {
		s.supply[tn] = c.ERC20Supply(ctx, t).String()
	}
	return s
}

func diffSnap(a, b c19Snap) []string {
	var out []string
	for k, v := range a.bank {
		if b.bank[k] != v {
			out = append(out, fmt.Sprintf("bank[%s]: %s -> %s", k, v, b.bank[k]))
		}
	}
	for k, v := range a.erc {
		if b.erc[k] != v {
			out = append(out, fmt.Sprintf("erc20[%s]: %s -> %s", k, v, b.erc[k]))
		}
	}
	for k, v := range a.supply {
		if b.supply[k] != v {
			out = append(out, fmt.Sprintf("supply[%s]: %s -> %s", k, v, b.supply[k]))
		}
	}
	return out
}

func runC19(cs core.Case, verbose bool) core.CaseResult {
	var spec c19Spec
	res := core.CaseResult{}
	if err := json.Unmarshal(cs.Spec, &spec); err != nil {
		res.Inconclusive = err.Error()
		return res
	}
	np := 2
	if spec.Mode == "outbound-fixture-prefix" {
		np = 6
	}
	x, err := c19Setup(spec.Seed, np)
	if err != nil {
		res.Inconclusive = "setup: " + err.Error()
		return res
	}
	switch spec.Mode {
	case "outbound-fixture-prefix":
		x.routes = [][2]string{{"channel-1", "channel-0"}, {"channel-11", "channel-10"}}
		x.plan = []string{}
		for i := 0; i < 12; i++ {
			x.plan = append(x.plan, "channel-1")
		}
		x.plan = append(x.plan, "channel-11", "channel-11")
		c19Outbound(x, spec, &res, verbose, true)
	case "inbound":
		c19Inbound(x, spec, &res, verbose)
	case "outbound-fixture":
		c19Outbound(x, spec, &res, verbose, true)
	default:
		c19Outbound(x, spec, &res, verbose, false)
	}
	if res.Sample == nil {
		res.Sample = map[string]interface{}{"spec": spec}
	}
	return res
}

func (x *c19World) memoCall(to common.Address, data []byte, value *sdkmath.Int) string {
	v := sdkmath.ZeroInt()
	if value != nil {
		v = *value
	}
	bz, err := x.c.App.AppCodec().MarshalInterfaceJSON(&ibcmwtypes.IbcCallEvmPacket{To: to.Hex(), Value: v, Data: hex.EncodeToString(data)})
	if err != nil {
		panic(err)
	}
	return string(bz)
}

// rawSend commits arbitrary packet data on a channel the way a foreign application module could.
func (x *c19World) rawSend(ctx sdk.Context, srcChannel string, data transfertypes.FungibleTokenPacketData, timeout time.Time) (channeltypes.Packet, error) {
	c := x.c
	capb, ok := c.App.ScopedTransferKeeper.GetCapability(ctx, host.ChannelCapabilityPath(transfertypes.PortID, srcChannel))
	if !ok {
		return channeltypes.Packet{}, fmt.Errorf("no capability for %s", srcChannel)
	}
	seq, err := c.App.IBCKeeper.ChannelKeeper.SendPacket(ctx, capb, transfertypes.PortID, srcChannel, clienttypes.ZeroHeight(), uint64(timeout.UnixNano()), data.GetBytes())
	if err != nil {
		return channeltypes.Packet{}, err
	}
	return x.loop.Packet(seq, srcChannel, x.loop.Counterparty(srcChannel), data, timeout), nil
}

func c19Inbound(x *c19World, spec c19Spec, res *core.CaseResult, verbose bool) {
	c := x.c
	rng := core.Rng(spec.Seed, 19)
	a, b := x.loop.Pairs[0][0], x.loop.Pairs[0][1]
	seenOK, seenErr := false, false
	var samples []string
	// FX that left over channel b earlier (a real MsgTransfer; the packet stays in flight), so that the
	// escrow that "FX returning home" releases exists
	fxReturn := fmt.Sprintf("transfer/%s/%s", a, fxtypes.DefaultDenom)
	if _, r := x.loop.Send(c.Ctx, x.users[3], b, sdk.NewCoin(fxtypes.DefaultDenom, sdkmath.NewInt(5_000_000)), x.remote.Bech32(), "", c.Time.Add(100*time.Hour)); !r.OK() {
		res.Inconclusive = "fx outbound: " + r.ErrString()
		return
	}
	// the derived memo-call sender must exist as an account before it can call (observation O7)
	for _, ch := range []string{a, b} {
		fix.Fund(c, common.BytesToAddress(address.Hash(fmt.Sprintf("%s/%s", transfertypes.PortID, ch), []byte(x.remote.Bech32()))).Bytes(), sdk.NewCoin(fxtypes.DefaultDenom, sdkmath.NewInt(1)))
	}
	// every second receiver already owns bank coins of the voucher that arrives (they are not part of the packet)
	for i, u := range x.users {
		if i%2 == 0 {
			fix.Fund(c, u.Acc(), sdk.NewCoin(x.atomDenom, sdkmath.NewInt(int64(700+i))))
		}
	}
	denoms := []string{"atom", "usdtx", "foreign", fxtypes.DefaultDenom, fxReturn, fxtypes.DefaultDenom}
	for i := 0; i < spec.N; i++ {
		u := x.users[rng.IntN(len(x.users))]
		var denom, recvKind, amtKind, memoKind string
		if rng.IntN(2) == 0 { // plausible packet
			denom = []string{"atom", "atom", fxReturn}[rng.IntN(3)]
			recvKind = "hex"
			if denom == fxReturn && rng.IntN(2) == 0 {
				recvKind = "bech32"
			}
			amtKind = []string{"one", "normal", "normal"}[rng.IntN(3)]
			memoKind = []string{"none", "recorder", "recorder", "reverter", "malformed"}[rng.IntN(5)]
		} else {
			denom = denoms[rng.IntN(len(denoms))]
			recvKind = []string{"hex", "hex", "bech32", "garbage"}[rng.IntN(4)]
			amtKind = []string{"one", "normal", "normal", "large", "non-numeric", "negative"}[rng.IntN(6)]
			memoKind = []string{"none", "none", "recorder", "reverter", "malformed"}[rng.IntN(5)]
		}
		receiver := u.Hex().Hex()
		switch recvKind {
		case "bech32":
			receiver = u.Bech32()
		case "garbage":
			receiver = []string{"", "0x1234", "fx1qqqq", "not an address", strings.Repeat("f", 41)}[rng.IntN(5)]
		}
		amount := "1"
		switch amtKind {
		case "normal":
			amount = fmt.Sprint(1 + rng.IntN(100000))
		case "large":
			amount = "900000000"
		case "non-numeric":
			amount = "12ab"
		case "negative":
			amount = "-5"
		}
		memo := ""
		switch memoKind {
		case "recorder":
			memo = x.memoCall(x.recorder, []byte{1}, nil)
		case "reverter":
			memo = x.memoCall(x.reverter, []byte{1}, nil)
		case "malformed":
			memo = []string{"{", `{"@type":"/nope"}`, "hello", `{"@type":"/fx.ibc.applications.transfer.v1.IbcCallEvmPacket","to":"zz","data":"00"}`}[rng.IntN(4)]
		}
		// the sender field is whatever the remote chain wrote: now and then the hex or bech32 form of a local account
		sender := x.remote.Bech32()
		senderKind := "remote"
		if rng.IntN(4) == 0 {
			v := x.users[rng.IntN(len(x.users))]
			sender, senderKind = []string{v.Hex().Hex(), strings.ToLower(v.Hex().Hex()), v.Bech32()}[rng.IntN(3)], "local-account-string"
		}
		ctx := c.Branch()
		before := x.snap(ctx, x.recorder)
		var pkt channeltypes.Packet
		hostile := amtKind == "non-numeric" || amtKind == "negative" || recvKind == "garbage" || denom == fxReturn || senderKind != "remote"
		timeout := c.Time.Add(time.Hour)
		if hostile {
			var err error
			pkt, err = x.rawSend(ctx, a, transfertypes.NewFungibleTokenPacketData(denom, amount, sender, receiver, memo), timeout)
			if err != nil {
				continue
			}
		} else {
			amt, _ := sdkmath.NewIntFromString(amount)
			var r chain.Result
			pkt, r = x.loop.Send(ctx, x.remote, a, sdk.NewCoin(denom, amt), receiver, memo, timeout)
			if !r.OK() {
				if verbose {
					fmt.Printf("send %s %s: %s\n", amount, denom, short(r.ErrString()))
				}
				continue
			}
		}
		mid := x.snap(ctx, x.recorder)
		why := ""
		if verbose {
			why = x.loop.Explain(ctx, pkt)
		}
		ack, rr := x.loop.Recv(ctx, pkt)
		res.Count("inbound_packets", 1)
		after := x.snap(ctx, x.recorder)
		desc := fmt.Sprintf("denom=%s amount=%s(%s) receiver=%s(%s) memo=%s sender=%s(%s)", denom, amount, amtKind, recvKind, short(receiver), memoKind, senderKind, short(sender))
		if !rr.OK() {
			// the relay transaction itself failed: nothing may have changed
			res.Count("recv_tx_failed", 1)
			if d := diffSnap(mid, after); len(d) > 0 {
				res.Violate("C19/failed-recv-changed-balances", "%s: MsgRecvPacket failed (%s) but %v", desc, short(rr.ErrString()), d)
			}
			continue
		}
		ok := fix.AckOK(ack)
		if len(samples) < 6 {
			samples = append(samples, fmt.Sprintf("%s -> ack ok=%v %s", desc, ok, short(string(ack))))
		}
		if verbose {
			fmt.Printf("%s -> ack ok=%v %s [%s]\n", desc, ok, short(string(ack)), short(why))
		}
		d := diffSnap(mid, after)
		if !ok {
			seenErr = true
			res.Count("error_acks", 1)
			if len(d) > 0 {
				res.Violate("C19/error-ack-but-credited", "%s: error acknowledgement but %v", desc, d)
			}
			continue
		}
		seenOK = true
		res.Count("success_acks", 1)
		amt, _ := sdkmath.NewIntFromString(amount)
		// expected credit
		who := u.Label
		want := map[string]bool{}
		switch {
		case denom == fxReturn: // FX returning home: native coin
			want[fmt.Sprintf("bank[%s]", who)] = true
		case denom == "atom" && recvKind == "hex":
			want[fmt.Sprintf("erc20[%s/atom]", who)] = true
			want["supply[atom]"] = true
		default:
			// any other successful acknowledgement must be a plain bank credit to a bech32 receiver
			want[fmt.Sprintf("bank[%s]", who)] = true
		}
		for _, line := range d {
			key := strings.SplitN(line, ":", 2)[0]
			if strings.HasPrefix(key, "bank[extra") || strings.HasPrefix(key, "erc20[extra") {
				continue
			}
			if !want[key] {
				res.Violate("C19/success-ack-credited-someone-else", "%s: success acknowledgement, unexpected change %s (all changes: %v)", desc, line, d)
			}
		}
		// (a coin that is merely called "FX" on the sending chain is a foreign voucher here like any other; only FX
		// returning home over the channel it left by is the native coin)
		if recvKind == "hex" && denom != fxReturn {
			// hex receiver of a non-native coin: credited as ERC-20, exactly the amount
			k := who + "/atom"
			b0, _ := new(big.Int).SetString(mid.erc[k], 10)
			b1, _ := new(big.Int).SetString(after.erc[k], 10)
			if denom == "atom" {
				if new(big.Int).Sub(b1, b0).Cmp(amt.BigInt()) != 0 {
					res.Violate("C19/hex-receiver-credit-amount", "%s: ERC-20 balance of the receiver went %s -> %s, amount %s", desc, b0, b1, amt)
				}
				if mid.bank[who] != after.bank[who] {
					res.Violate("C19/hex-receiver-got-coins", "%s: the hex receiver's bank balance changed %s -> %s (must be credited as ERC-20)", desc, mid.bank[who], after.bank[who])
				}
			} else {
				res.Violate("C19/success-ack-without-erc20-credit", "%s: success acknowledgement for a hex receiver but no registered ERC-20 was credited (changes: %v)", desc, d)
			}
		}
		if memoKind == "recorder" {
			res.Count("memo_calls_checked", 1)
			caller := common.BytesToAddress(c.App.EvmKeeper.GetState(ctx, x.recorder, common.Hash{}).Bytes())
			cands := map[common.Address]string{}
			for _, ch := range []string{pkt.SourceChannel, pkt.DestinationChannel} {
				cands[common.BytesToAddress(address.Hash(fmt.Sprintf("%s/%s", transfertypes.PortID, ch), []byte(sender)))] = ch
			}
			if _, ok := cands[caller]; !ok {
				res.Violate("C19/memo-call-sender", "%s: the memo call ran with caller %s, which is not hash(port/channel, sender) for the packet's channels", desc, caller.Hex())
			}
			for _, k := range c.Users {
				if k.Hex() == caller {
					res.Violate("C19/memo-call-impersonates-local-account", "%s: the memo call ran as local account %s", desc, k.Label)
				}
			}
			if caller == common.BytesToAddress(x.remote.Acc()) {
				res.Violate("C19/memo-call-impersonates-local-account", "%s: the memo call ran as the sender's own address on this chain", desc)
			}
		}
		if memoKind == "reverter" {
			res.Violate("C19/success-ack-despite-failed-memo-call", "%s: the memo call reverts but the acknowledgement is a success", desc)
		}
		_ = before
	}
	// the same sender string over the two channels of the pair (two counterparty chains may name the same
	// sender): each memo call runs as an address derived from its own channel, so the two callers differ, and a
	// repetition gives the same caller again whatever was delivered before
	{
		callers := map[string][]common.Address{}
		for round := 0; round < 2; round++ {
			for _, src := range []string{a, b} {
				ctx := c.Branch()
				// FX coming home to a hex receiver: the one arrival that needs no registered pair on either channel
				// (the escrow it releases: FX sent out over the other channel of the pair first, on this branch)
				if _, r := x.loop.Send(ctx, x.users[3], x.loop.Counterparty(src), sdk.NewCoin(fxtypes.DefaultDenom, sdkmath.NewInt(1000)), x.remote.Bech32(), "", c.Time.Add(100*time.Hour)); !r.OK() {
					continue
				}
				pkt, err := x.rawSend(ctx, src, transfertypes.NewFungibleTokenPacketData(fmt.Sprintf("transfer/%s/%s", src, fxtypes.DefaultDenom), "3", x.remote.Bech32(), x.users[0].Hex().Hex(), x.memoCall(x.recorder, []byte{1}, nil)), c.Time.Add(time.Hour))
				if err != nil {
					if verbose {
						fmt.Printf("two-channel memo step: send over %s: %v\n", src, err)
					}
					continue
				}
				why := ""
				if verbose {
					why = x.loop.Explain(ctx, pkt)
				}
				ack, rr := x.loop.Recv(ctx, pkt)
				if !rr.OK() || !fix.AckOK(ack) {
					if verbose {
						fmt.Printf("two-channel memo step: recv over %s: %s %s %s\n", src, short(rr.ErrString()), string(ack), why)
					}
					continue
				}
				callers[src] = append(callers[src], common.BytesToAddress(c.App.EvmKeeper.GetState(ctx, x.recorder, common.Hash{}).Bytes()))
			}
		}
		if len(callers[a]) == 2 && len(callers[b]) == 2 {
			res.Count("memo_calls_same_sender_over_two_channels", 1)
			if callers[a][0] == callers[b][0] || callers[a][1] == callers[b][1] {
				res.Violate("C19/memo-call-sender-not-bound-to-channel", "the same sender %s sent a memo call over %s and over %s: both ran as %s (the derived sender must depend on the channel)", short(x.remote.Bech32()), a, b, callers[a][0].Hex())
			}
			if callers[a][0] != callers[a][1] || callers[b][0] != callers[b][1] {
				res.Violate("C19/memo-call-sender-depends-on-history", "the memo call of sender %s ran as %s, then as %s over %s (and %s, %s over %s)", short(x.remote.Bech32()), callers[a][0].Hex(), callers[a][1].Hex(), a, callers[b][0].Hex(), callers[b][1].Hex(), b)
			}
		}
	}
	res.Nontrivial = seenOK && seenErr
	res.Sig = fmt.Sprintf("inbound/ok%d/err%d/memo%d", res.Counters["success_acks"], res.Counters["error_acks"], res.Counters["memo_calls_checked"])
	res.Sample = map[string]interface{}{"spec": spec, "packets": samples}
}

// ---- outbound ------------------------------------------------------------------------------

func (x *c19World) relationKeys(ctx sdk.Context) []string {
	d := x.c.Dump(ctx, erc20types.StoreKey)
	var out []string
	for k := range d[erc20types.StoreKey] {
		if len(k) > 0 && k[0] == erc20types.KeyPrefixIBCTransfer[0] {
			out = append(out, k[1:])
		}
	}
	return out
}

func c19Outbound(x *c19World, spec c19Spec, res *core.CaseResult, verbose bool, fixture bool) {
	c := x.c
	rng := core.Rng(spec.Seed, 20)
	sfx := ""
	routes := x.routes
	if routes == nil {
		for _, p := range x.loop.Pairs {
			routes = append(routes, [2]string{p[0], p[1]})
		}
	}
	voucher := func(src string) string {
		return transfertypes.ParseDenomTrace(fmt.Sprintf("transfer/%s/%s", src, x.usdt.Base)).IBCDenom()
	}
	if fixture {
		sfx = "/fixture"
		// seed what a working inbound alias conversion would have left: for each sending channel a denom
		// trace and an alias registration for the voucher of the remote chain's coin, voucher liquidity in
		// the transfer module account, and on the remote end the escrowed original coins
		for _, p := range routes {
			tr := transfertypes.ParseDenomTrace(fmt.Sprintf("transfer/%s/%s", p[0], x.usdt.Base))
			c.App.IBCTransferKeeper.SetDenomTrace(c.Ctx, tr)
			if r := c.Msg(&erc20types.MsgUpdateDenomAlias{Authority: chain.GovAuthority(), Denom: x.usdt.Base, Alias: tr.IBCDenom()}); !r.OK() {
				res.Inconclusive = "alias: " + r.ErrString()
				return
			}
			coins := sdk.NewCoins(sdk.NewCoin(tr.IBCDenom(), sdkmath.NewInt(10_000_000)))
			if err := c.App.BankKeeper.MintCoins(c.Ctx, transfertypes.ModuleName, coins); err != nil {
				res.Inconclusive = err.Error()
				return
			}
			esc := transfertypes.GetEscrowAddress(transfertypes.PortID, p[1])
			remoteCoin := sdk.NewCoin(x.usdt.Base, sdkmath.NewInt(10_000_000))
			fix.Fund(c, esc, remoteCoin)
			c.App.IBCTransferKeeper.SetTotalEscrowForDenom(c.Ctx, remoteCoin.Add(c.App.IBCTransferKeeper.GetTotalEscrowForDenom(c.Ctx, x.usdt.Base)))
		}
		// the senders hold USDT as ERC-20
		b := x.w.Bridges["eth"]
		for _, u := range x.users {
			if _, err := b.Deposit(c.Users[4], x.usdt, sdkmath.NewInt(1_000_000), u.Hex(), u.Acc(), "erc20"); err != nil {
				res.Inconclusive = err.Error()
				return
			}
		}
	} else {
		// the voucher of FX on the receiving ends is a registered one-to-one coin there, so that hex
		// receivers can be credited (success acknowledgements)
		for i, p := range routes {
			d := transfertypes.ParseDenomTrace(fmt.Sprintf("transfer/%s/%s", p[1], fxtypes.DefaultDenom)).IBCDenom()
			md := fxtypes.GetCrossChainMetadataOneToOne(fmt.Sprintf("Remote FX %d", i), d, fmt.Sprintf("RFX%d", i), 18)
			if r := c.Msg(&erc20types.MsgRegisterCoin{Authority: chain.GovAuthority(), Metadata: md}); !r.OK() {
				res.Inconclusive = "register: " + r.ErrString()
				return
			}
		}
	}
	if _, err := c.Next(); err != nil {
		res.Inconclusive = err.Error()
		return
	}
	type flight struct {
		pkt    channeltypes.Packet
		sender chain.Key
		amt    *big.Int
		ending string
		ack    []byte
		done   bool
		relKey string
	}
	var flights []*flight
	pc := fix.PrecompileCrosschain()
	relSet := func() map[string]bool {
		m := map[string]bool{}
		for _, k := range x.relationKeys(c.Ctx) {
			m[k] = true
		}
		return m
	}
	for i := 0; i < spec.N; i++ {
		u := x.users[rng.IntN(len(x.users))]
		src := routes[rng.IntN(len(routes))][0]
		if i < len(x.plan) {
			src = x.plan[i]
		}
		var chanNum int
		fmt.Sscanf(src, "channel-%d", &chanNum)
		// a hex receiver can be credited on the remote end (success), a bech32 one is refused there (error)
		wantEnding := []string{"ack-success", "ack-error", "timeout"}[i%3]
		prefix, receiver := "0x", x.remote.Hex().Hex()
		if wantEnding == "ack-error" || (wantEnding == "timeout" && rng.IntN(2) == 0) {
			prefix, receiver = "fx", x.remote.Bech32()
		}
		var target [32]byte
		copy(target[:], fmt.Sprintf("ibc/%d/%s", chanNum, prefix))
		amt := big.NewInt(int64(100 + rng.IntN(5000)))
		seq, _ := c.App.IBCKeeper.ChannelKeeper.GetNextSequenceSend(c.Ctx, transfertypes.PortID, src)
		rel0 := relSet()
		var er chain.EvmResult
		var coin sdk.Coin
		if fixture {
			c.EthTx(u, &x.usdt.ERC20, chain.ERC20Pack("approve", pc, amt), nil, 0)
			er = c.EthTx(u, &pc, fix.PackCrosschain("crossChain", x.usdt.ERC20, receiver, amt, big.NewInt(0), target, ""), nil, 3_000_000)
			coin = sdk.NewCoin(voucher(src), sdkmath.NewIntFromBigInt(amt))
		} else {
			er = c.EthTx(u, &pc, fix.PackCrosschain("crossChain", common.Address{}, receiver, amt, big.NewInt(0), target, ""), amt, 3_000_000)
			coin = sdk.NewCoin(fxtypes.DefaultDenom, sdkmath.NewIntFromBigInt(amt))
		}
		if er.Failed() {
			if verbose {
				fmt.Printf("crossChain to %s: %s\n", receiver, short(er.VmError()))
			}
			res.Count("outbound_send_failed", 1)
			continue
		}
		res.Count("outbound_sends", 1)
		relKey := ""
		for k := range relSet() {
			if !rel0[k] {
				relKey = k
			}
		}
		if fixture && relKey == "" {
			res.Violate("C19/relation-not-recorded"+sfx, "crossChain of an ERC-20 over IBC did not record a tracking relation")
		}
		if !fixture && relKey != "" {
			res.Count("relation_bearing_natural_sends", 1)
		}
		to := uint64(c.Time.UnixNano()) + uint64(c.App.Erc20Keeper.GetIbcTimeout(c.Ctx))
		p := x.loop.PacketFor(c.Ctx, seq, src, u.Bech32(), coin, receiver, "", to)
		if !bytesEq(c.App.IBCKeeper.ChannelKeeper.GetPacketCommitment(c.Ctx, p.SourcePort, p.SourceChannel, p.Sequence), channeltypes.CommitPacket(c.App.AppCodec(), p)) {
			res.Inconclusive = "could not reconstruct the sent packet"
			return
		}
		flights = append(flights, &flight{pkt: p, sender: u, amt: amt, ending: wantEnding, relKey: relKey})
		if rng.IntN(2) == 0 {
			c.Next()
		}
	}
	// phase 1: the remote end receives the packets that are to be acknowledged (random order)
	order := rng.Perm(len(flights))
	for _, i := range order {
		f := flights[i]
		if f.ending == "timeout" {
			continue
		}
		if f.ending == "ack-error" && rng.IntN(3) == 0 {
			// the remote chain is not this application: it rejects the packet with an error acknowledgement
			// whose text is empty (still an error acknowledgement by its kind)
			f.ack = []byte(`{"error":""}`)
			x.loop.RecvForeign(c.Ctx, f.pkt, f.ack)
			f.ending = "ack-error"
			res.Count("foreign_empty_error_acks", 1)
			continue
		}
		ack, rr := x.loop.Recv(c.Ctx, f.pkt)
		if !rr.OK() {
			res.Inconclusive = "recv: " + rr.ErrString()
			return
		}
		f.ack = ack
		if fix.AckOK(ack) {
			f.ending = "ack-success"
		} else {
			f.ending = "ack-error"
		}
	}
	// half of the acknowledgements are relayed before the timeouts elapse, the rest interleaved with timeouts
	finish := func(f *flight, replay bool) {
		tok := x.usdt.ERC20
		bal := func() *big.Int {
			if !fixture {
				return c.Balance(c.Ctx, f.sender.Acc(), fxtypes.DefaultDenom).BigInt()
			}
			return c.ERC20Balance(c.Ctx, tok, f.sender.Hex())
		}
		bankOther := func() string {
			var parts []string
			for _, co := range c.App.BankKeeper.GetAllBalances(c.Ctx, f.sender.Acc()) {
				if co.Denom != fxtypes.DefaultDenom {
					parts = append(parts, co.String())
				}
			}
			return strings.Join(parts, ",")
		}
		b0, other0 := bal(), bankOther()
		relay := func() chain.Result {
			if f.ending == "timeout" {
				return x.loop.Timeout(c.Ctx, f.pkt)
			}
			return x.loop.Ack(c.Ctx, f.pkt, f.ack)
		}
		if fixture && !replay && f.ending != "ack-success" && rng.IntN(3) == 0 {
			// a fault between send and refund: governance has switched the token's conversion off when the
			// relayer arrives. The refund cannot be made in ERC-20 form now, so the relay has to be refused
			// without any effect (the relayer retries later) -- or be accepted with a full ERC-20 refund.
			var toggle sdk.Msg = &erc20types.MsgToggleTokenConversion{Authority: chain.GovAuthority(), Token: x.usdt.Base}
			fault, faultText := "conversion-off", "the token's conversion was switched off"
			if rng.IntN(2) == 0 {
				fault, faultText = "alias-removed", "the token's voucher alias for that channel was removed"
				// ... or has removed the token's voucher alias for that channel (the same message adds it again)
				toggle = &erc20types.MsgUpdateDenomAlias{Authority: chain.GovAuthority(), Denom: x.usdt.Base, Alias: voucher(f.pkt.SourceChannel)}
				res.Count("relays_while_alias_removed", 1)
			}
			if tr := c.Msg(toggle); tr.OK() {
				pre := c.Dump(c.Ctx)
				r1 := relay()
				res.Count("relays_while_conversion_off", 1)
				if verbose {
					fmt.Printf("%s seq=%d relayed while conversion is off: ok=%v %s\n", f.ending, f.pkt.Sequence, r1.OK(), short(r1.ErrString()))
				}
				if r1.OK() {
					if got := new(big.Int).Sub(bal(), b0); got.Cmp(f.amt) != 0 || bankOther() != other0 {
						res.Violate("C19/refund-wrong-form/"+f.ending+"/"+fault+sfx, "%s of a transfer of %s was accepted while %s: the sender's ERC-20 balance changed by %s and its coins %q -> %q (the refund must come back as ERC-20, or the relay be refused until it can)", f.ending, f.amt, faultText, got, other0, bankOther())
					}
				} else if d := chain.Diff(pre, c.Dump(c.Ctx)); len(d) > 0 {
					res.Violate("C19/refused-relay-had-effect/"+f.ending+sfx, "%s refused while conversion was off, but state changed: %s", f.ending, d[0].String())
				}
				c.Msg(toggle)
				if r1.OK() {
					f.done = true
					return
				}
				b0, other0 = bal(), bankOther()
			}
		}
		before := c.Dump(c.Ctx)
		r := relay()
		if replay {
			// ibc-go answers a redundant relay with a successful no-op; whatever the answer, nothing may change
			if d := chain.Diff(before, c.Dump(c.Ctx)); len(d) > 0 {
				res.Violate("C19/replayed-"+f.ending+"-had-effect"+sfx, "a replayed %s (accepted=%v) changed state: %s", f.ending, r.OK(), d[0].String())
			} else {
				res.Count("replays_rejected", 1)
			}
			return
		}
		f.done = true
		if !r.OK() {
			res.Violate("C19/"+f.ending+"-rejected"+sfx, "%s of an outbound transfer was rejected: %s", f.ending, short(r.ErrString()))
			return
		}
		got := new(big.Int).Sub(bal(), b0)
		res.Count("refunds_checked", 1)
		want := big.NewInt(0)
		if f.ending != "ack-success" {
			want = f.amt
		}
		if verbose {
			fmt.Printf("%s seq=%d on %s amount=%s: sender balance %+d, relation %q present=%v\n", f.ending, f.pkt.Sequence, f.pkt.SourceChannel, f.amt, got, f.relKey, relSet()[f.relKey])
		}
		if got.Cmp(want) != 0 {
			res.Violate("C19/refund-amount/"+f.ending+sfx, "%s of a transfer of %s: the sender's %s balance changed by %s, expected %s", f.ending, f.amt, map[bool]string{false: "FX", true: "ERC-20"}[fixture], got, want)
		}
		if o := bankOther(); o != other0 {
			res.Violate("C19/refund-wrong-form/"+f.ending+sfx, "%s: the sender's coin balances changed %q -> %q (the refund must come back as ERC-20)", f.ending, other0, o)
		}
		if f.relKey != "" {
			res.Count("relation_checks", 1)
			if relSet()[f.relKey] {
				res.Violate("C19/relation-survives/"+f.ending+sfx, "the tracking record of the outbound transfer is still stored after %s", f.ending)
			}
		}
	}
	endings := map[string]bool{}
	var early, late []*flight
	for _, f := range flights {
		if f.ending != "timeout" && rng.IntN(2) == 0 {
			early = append(early, f)
		} else {
			late = append(late, f)
		}
	}
	run := func(fs []*flight) {
		// every flight is finished once and replayed once, at random positions after its finish
		type step struct {
			f      *flight
			replay bool
		}
		var steps []step
		for _, f := range fs {
			steps = append(steps, step{f, false})
		}
		rng.Shuffle(len(steps), func(i, j int) { steps[i], steps[j] = steps[j], steps[i] })
		for _, f := range fs {
			// insert the replay somewhere after the first relay
			pos := 0
			for i, s := range steps {
				if s.f == f && !s.replay {
					pos = i + 1
				}
			}
			at := pos + rng.IntN(len(steps)-pos+1)
			steps = append(steps[:at], append([]step{{f, true}}, steps[at:]...)...)
		}
		for _, s := range steps {
			finish(s.f, s.replay)
			endings[s.f.ending] = true
			if rng.IntN(3) == 0 {
				c.Next()
			}
		}
	}
	run(early)
	if _, err := c.EndBlock(time.Duration(c.App.Erc20Keeper.GetIbcTimeout(c.Ctx)) + time.Minute); err != nil {
		res.Inconclusive = err.Error()
		return
	}
	run(late)
	if br := c.Invariants(c.Ctx); len(br) > 0 {
		res.Violate("C19/invariant-broken"+sfx, "after all transfers ended: %v", br)
	}
	res.Nontrivial = len(endings) == 3
	var es []string
	for _, e := range []string{"ack-success", "ack-error", "timeout"} {
		if endings[e] {
			es = append(es, e)
		}
	}
	res.Sig = fmt.Sprintf("outbound/fixture=%v/%s/%d flights/%d early", fixture, strings.Join(es, "+"), len(flights), len(early))
	res.Sample = map[string]interface{}{"spec": spec, "flights": len(flights), "endings": es}
}

func bytesEq(a, b []byte) bool { return string(a) == string(b) }

// ---- C18 (d): IBC packets whose follow-up conversion or memo call fails ------------------------

func c18IBC(spec c18Spec, res *core.CaseResult, verbose bool) {
	x, err := c19Setup(spec.Seed)
	if err != nil {
		res.Inconclusive = err.Error()
		return
	}
	c := x.c
	a := x.loop.Pairs[0][0]
	u := x.users[0]
	// the derived memo-call sender must exist as an account, or the call fails before the EVM runs (O7)
	for _, ch := range []string{a, x.loop.Counterparty(a)} {
		fix.Fund(c, common.BytesToAddress(address.Hash(fmt.Sprintf("%s/%s", transfertypes.PortID, ch), []byte(x.remote.Bech32()))).Bytes(), sdk.NewCoin(fxtypes.DefaultDenom, sdkmath.NewInt(1)))
	}
	// FX that left over the counterparty channel earlier (escrow for "FX coming home")
	if _, r := x.loop.Send(c.Ctx, x.users[3], x.loop.Counterparty(a), sdk.NewCoin(fxtypes.DefaultDenom, sdkmath.NewInt(5_000_000)), x.remote.Bech32(), "", c.Time.Add(100*time.Hour)); !r.OK() {
		res.Inconclusive = "fx outbound: " + r.ErrString()
		return
	}
	invalidOp, _ := c.Deploy(c.Users[0], []byte{0x60, 0x07, 0x60, 0x00, 0x55, 0xfe})           // SSTORE then INVALID
	badJump, _ := c.Deploy(c.Users[0], []byte{0x60, 0x07, 0x60, 0x00, 0x55, 0x60, 0x03, 0x56}) // SSTORE then JUMP to a non-JUMPDEST
	looper, _ := c.Deploy(c.Users[0], append([]byte{0x60, 0x07, 0x60, 0x00, 0x55}, 0x5b, 0x60, 0x05, 0x56))
	lateRev, _ := c.Deploy(c.Users[0], []byte{0x60, 0x07, 0x60, 0x00, 0x55, 0x60, 0x00, 0x60, 0x00, 0xfd})
	type tc struct {
		name  string
		memo  string
		prep  func(ctx sdk.Context)
		denom string
	}
	cases := []tc{
		{"memo-call-reverts-after-writes", x.memoCall(lateRev, []byte{1}, nil), nil, "atom"},
		{"memo-call-out-of-gas", x.memoCall(looper, []byte{1}, nil), nil, "atom"},
		{"memo-call-invalid-opcode", x.memoCall(invalidOp, []byte{1}, nil), nil, "atom"},
		{"memo-call-bad-jump", x.memoCall(badJump, []byte{1}, nil), nil, "atom"},
		{"memo-call-out-of-gas-fx-returning", x.memoCall(looper, []byte{1}, nil), nil, "fx-return"},
		{"memo-call-to-reverter", x.memoCall(x.reverter, nil, nil), nil, "atom"},
		{"pair-disabled", "", func(ctx sdk.Context) {
			c.MsgOn(ctx, &erc20types.MsgToggleTokenConversion{Authority: chain.GovAuthority(), Token: x.atomDenom})
		}, "atom"},
		{"unregistered-voucher", "", nil, "foreign"},
		{"alias-voucher", "", nil, "usdtx"},
	}
	for _, t := range cases {
		ctx := c.Branch()
		if t.prep != nil {
			t.prep(ctx)
		}
		var pkt channeltypes.Packet
		if t.denom == "fx-return" {
			// FX coming home: the packet a remote chain would send for vouchers of FX it received over this channel
			var err error
			pkt, err = x.rawSend(ctx, a, transfertypes.NewFungibleTokenPacketData(fmt.Sprintf("transfer/%s/%s", a, fxtypes.DefaultDenom), "777", x.remote.Bech32(), u.Hex().Hex(), t.memo), c.Time.Add(time.Hour))
			if err != nil {
				res.Inconclusive = "raw send: " + err.Error()
				return
			}
		} else {
			var r chain.Result
			pkt, r = x.loop.Send(ctx, x.remote, a, sdk.NewCoin(t.denom, sdkmath.NewInt(777)), u.Hex().Hex(), t.memo, c.Time.Add(time.Hour))
			if !r.OK() {
				res.Inconclusive = "send: " + r.ErrString()
				return
			}
		}
		before := c.Dump(ctx)
		ack, rr := x.loop.Recv(ctx, pkt)
		res.Count("ibc_failure_cases", 1)
		if !rr.OK() {
			res.Violate("C18/ibc-recv-tx-failed/"+t.name, "relaying the packet failed instead of writing an error acknowledgement: %s", short(rr.ErrString()))
			continue
		}
		if fix.AckOK(ack) {
			res.Violate("C18/ibc-success-ack-for-failed-follow-up/"+t.name, "the follow-up step fails but the acknowledgement is a success: %s", string(ack))
			continue
		}
		res.Nontrivial = true
		res.Count("twin_diffs", 1)
		for _, d := range chain.Diff(before, c.Dump(ctx)) {
			if d.Store == "ibc" {
				continue // packet receipt, acknowledgement, sequence counters
			}
			res.Violate("C18/ibc-error-ack-left-effects/"+t.name, "error acknowledgement (%s) but the receive left %s", t.name, d.String())
		}
	}
}
