package mon

import (
	"encoding/hex"
	"encoding/json"
	"fmt"
	"math"
	"math/big"
	"math/rand/v2"
	"reflect"
	"sort"
	"strings"
	"time"

	sdkmath "cosmossdk.io/math"
	abci "github.com/cometbft/cometbft/abci/types"
	codectypes "github.com/cosmos/cosmos-sdk/codec/types"
	sdk "github.com/cosmos/cosmos-sdk/types"
	txtypes "github.com/cosmos/cosmos-sdk/types/tx"
	banktypes "github.com/cosmos/cosmos-sdk/x/bank/types"
	distrtypes "github.com/cosmos/cosmos-sdk/x/distribution/types"
	govv1 "github.com/cosmos/cosmos-sdk/x/gov/types/v1"
	gogoproto "github.com/cosmos/gogoproto/proto"
	"github.com/ethereum/go-ethereum/accounts/abi"
	"github.com/ethereum/go-ethereum/common"
	"google.golang.org/protobuf/encoding/protowire"

	"github.com/functionx/fx-core/v8/contract"
	fxtypes "github.com/functionx/fx-core/v8/types"
	crosschaintypes "github.com/functionx/fx-core/v8/x/crosschain/types"
	fxstakingtypes "github.com/functionx/fx-core/v8/x/staking/types"
	trontypes "github.com/functionx/fx-core/v8/x/tron/types"

	"verif/harness/chain"
	"verif/harness/core"
	"verif/harness/fix"
)

// C20: hostile input never crashes a node and cannot dodge the minimum fee.

type c20Spec struct {
	Seed  uint64 `json:"seed"`
	Mode  string `json:"mode"` // msgs | precompile | parsers | fee
	Shard int    `json:"shard"`
	Of    int    `json:"of"`
	N     int    `json:"n"`
}

func init() {
	core.Register(&core.Prop{
		ID:    "C20",
		Level: "exploration",
		Rule: "panic monitors (recover around every call, a dying worker process counts as a violation) and a CheckTx oracle on the real app. " +
			"msgs: every message type in the interface registry is instantiated by a reflective generator (addresses valid / foreign-prefix / hex / garbage, nil / negative / 2^255 integers and decimals, nil and mistyped Any, nested messages), marshalled, " +
			"then mutated at wire level (each field dropped in turn at two nesting levels, duplicated, truncated, byte-flipped, oversized lengths), decoded the way the node decodes a transaction (tx decoder with interface unpacking and signer resolution) " +
			"and given to ValidateBasic, signer resolution and the real CheckTx; " +
			"precompile: every method of the crosschain and staking precompiles called through the real EVM with well-formed, truncated, random and hostile-offset/length call data, as transaction and as eth_call; " +
			"parsers: target / address / external-address / byte32 parsers of all chains on random and near-valid strings, and the conversions that follow a successful validation; " +
			"fee: otherwise valid signed transactions over message lists x gas at n*allowance-1/0/+1 x fees at ceil(price*gas)-1/0 in one or two denominations on apps with different exemption lists, allowances and node prices: CheckTx verdict vs an independent statement of the rule. " +
			"Non-trivial: a shard in which at least one input passed decoding and reached the code under test; distinct by (mode, shard, reached count)",
		Assumptions: []string{
			"a panic recovered by baseapp / the ante handler's own recover still counts: the property says validation never panics",
			"the fee clause is checked for Cosmos transactions; Ethereum transactions are offered to CheckTx as well and must not be admitted below the minimum price",
		},
		Cases:            c20Cases,
		Run:              runC20,
		MinNontrivial:    6,
		RequiredCounters: []string{"msg_types_reached_validate_basic", "validate_basic_calls", "checktx_calls", "precompile_calls", "parser_calls", "fee_verdicts_checked", "fee_bypass_accepted", "fee_refused_for_price"},
		CrashIsViolation: true,
	})
}

func c20Cases(seed uint64, tier string) []core.Case {
	rng := core.Rng(seed, 0xC20)
	shards, n, feeCases, pcN := 16, 100, 6, 200
	if tier == "thorough" {
		shards, n, feeCases, pcN = 32, 400, 24, 400
	}
	var out []core.Case
	for i := 0; i < shards; i++ {
		out = append(out, core.MkCase(fmt.Sprintf("C20-msgs-%02d", i), c20Spec{Seed: rng.Uint64(), Mode: "msgs", Shard: i, Of: shards, N: n}))
	}
	pcShards := 8
	for i := 0; i < pcShards; i++ {
		out = append(out, core.MkCase(fmt.Sprintf("C20-precompile-%d", i), c20Spec{Seed: rng.Uint64(), Mode: "precompile", Shard: i, Of: pcShards, N: pcN}))
	}
	out = append(out, core.MkCase("C20-parsers", c20Spec{Seed: rng.Uint64(), Mode: "parsers", N: n * 200}))
	for i := 0; i < feeCases; i++ {
		out = append(out, core.MkCase(fmt.Sprintf("C20-fee-%02d", i), c20Spec{Seed: rng.Uint64(), Mode: "fee", Shard: i, N: 60}))
	}
	return out
}

func runC20(cs core.Case, verbose bool) core.CaseResult {
	var spec c20Spec
	res := core.CaseResult{}
	if err := json.Unmarshal(cs.Spec, &spec); err != nil {
		res.Inconclusive = err.Error()
		return res
	}
	switch spec.Mode {
	case "msgs":
		c20Msgs(spec, &res, verbose)
	case "precompile":
		c20Precompile(spec, &res, verbose)
	case "parsers":
		c20Parsers(spec, &res, verbose)
	default:
		c20Fee(spec, &res, verbose)
	}
	if res.Sample == nil {
		res.Sample = map[string]interface{}{"spec": spec}
	}
	return res
}

// guard runs fn and reports a panic (with the innermost fx-core / sdk frame) instead of propagating it.
func guard(fn func()) (panicked bool, what string) {
	defer func() {
		if r := recover(); r != nil {
			panicked = true
			what = fmt.Sprint(r)
			if len(what) > 300 {
				what = what[:300]
			}
		}
	}()
	fn()
	return
}

// ---- reflective generator ---------------------------------------------------------------------

var (
	tInt   = reflect.TypeOf(sdkmath.Int{})
	tDec   = reflect.TypeOf(sdkmath.LegacyDec{})
	tAny   = reflect.TypeOf(&codectypes.Any{})
	tTime  = reflect.TypeOf(time.Time{})
	tDur   = reflect.TypeOf(time.Duration(0))
	tBytes = reflect.TypeOf([]byte{})
)

type filler struct {
	rng      *rand.Rand
	c        *chain.Chain
	urls     []string
	sane     bool // bias towards values that pass signer resolution
	maxDepth int
	// valid mode: every leaf gets a plausible value, except leaf number hostileAt (-1: none), which
	// gets a hostile one. The wire-level mutants then omit / duplicate / corrupt one field at a time
	// of an otherwise acceptable message.
	valid     bool
	hostileAt int
	leaf      int
}

// plain reports whether the next leaf takes a plausible value (valid mode, not the hostile leaf).
func (f *filler) plain() bool {
	f.leaf++
	return f.valid && f.hostileAt != f.leaf-1
}

func (f *filler) plainStr(name string) string {
	n := strings.ToLower(name)
	k := f.c.Users[f.rng.IntN(len(f.c.Users))]
	switch {
	case strings.Contains(n, "chain"):
		return f.pick("eth", "bsc", "tron")
	case strings.Contains(n, "denom"):
		return f.pick(fxtypes.DefaultDenom, "usdt")
	case strings.Contains(n, "sender") || strings.Contains(n, "author") || strings.Contains(n, "bridger") || strings.Contains(n, "oracleaddr") || n == "oracle" || strings.Contains(n, "from") ||
		strings.Contains(n, "signer") || strings.Contains(n, "depositor") || strings.Contains(n, "voter") || strings.Contains(n, "proposer") || strings.Contains(n, "delegator") || strings.Contains(n, "granter") || strings.Contains(n, "grantee") || strings.Contains(n, "admin"):
		return k.Bech32()
	case strings.Contains(n, "validator"):
		return f.pick(sdk.ValAddress(k.Acc()).String(), k.Bech32())
	case strings.Contains(n, "addr") || strings.Contains(n, "receiver") || n == "to" || strings.Contains(n, "dest") || strings.Contains(n, "refund") || strings.Contains(n, "contract") ||
		strings.Contains(n, "origin") || strings.Contains(n, "token") || strings.Contains(n, "oracle"):
		return f.pick(k.Bech32(), k.Hex().Hex(), k.Hex().Hex(), crosschaintypes.ExternalAddrToStr("tron", k.Hex().Bytes()))
	case strings.Contains(n, "signature"):
		return hex.EncodeToString(make([]byte, 65))
	case strings.Contains(n, "data") || strings.Contains(n, "memo") || strings.Contains(n, "hash") || strings.Contains(n, "checkpoint"):
		return f.pick("", "00", "abcd")
	case strings.Contains(n, "amount") || strings.Contains(n, "value") || strings.Contains(n, "fee"):
		return f.pick("0", "1", "1000")
	case strings.Contains(n, "target"):
		return f.pick("", "erc20", "eth")
	case strings.Contains(n, "url"):
		return "/cosmos.bank.v1beta1.MsgSend"
	}
	return f.pick("a", "title", "1")
}

func (f *filler) pick(xs ...string) string { return xs[f.rng.IntN(len(xs))] }

// addr: account-like strings. signer = the field names an account of this chain (a signer, an authority);
// other address fields (destinations, contracts, external addresses) take external forms just as often.
func (f *filler) addr(signer bool) string {
	k := f.c.Users[f.rng.IntN(len(f.c.Users))]
	if f.sane && f.rng.IntN(10) != 0 {
		if signer {
			return k.Bech32()
		}
		switch f.rng.IntN(4) {
		case 0:
			return k.Bech32()
		case 1:
			return crosschaintypes.ExternalAddrToStr("tron", k.Hex().Bytes())
		default:
			return k.Hex().Hex()
		}
	}
	switch f.rng.IntN(9) {
	case 0:
		return ""
	case 1:
		return k.Hex().Hex()
	case 2:
		return strings.ToLower(k.Hex().Hex())
	case 3:
		return sdk.ValAddress(k.Acc()).String()
	case 4:
		return "cosmos1qypqxpq9qcrsszg2pvxq6rs0zqg3yyc5lzv7xu"
	case 5:
		return crosschaintypes.ExternalAddrToStr("tron", k.Hex().Bytes())
	case 6:
		return strings.Repeat("f", 1+f.rng.IntN(300))
	case 7:
		return k.Bech32()[:len(k.Bech32())-1]
	default:
		return k.Bech32()
	}
}

func (f *filler) str(name string) string {
	n := strings.ToLower(name)
	switch {
	case strings.Contains(n, "chain"):
		return f.pick("eth", "bsc", "tron", "polygon", "", "nochain", "ETH", "eth ")
	case strings.Contains(n, "denom"):
		return f.pick(fxtypes.DefaultDenom, "usdt", "", "!!", "ibc/27394FB092D2ECCD56123C74F36E4C1F926001CEADA9CA97EA622B25F41E5EB2", "eth0x0000000000000000000000000000000000000001", strings.Repeat("a", 200))
	case strings.Contains(n, "sender") || strings.Contains(n, "author") || strings.Contains(n, "bridger") || strings.Contains(n, "oracleaddr") || n == "oracle" || strings.Contains(n, "from") ||
		strings.Contains(n, "signer") || strings.Contains(n, "depositor") || strings.Contains(n, "voter") || strings.Contains(n, "proposer") || strings.Contains(n, "delegator") || strings.Contains(n, "granter") || strings.Contains(n, "grantee") || strings.Contains(n, "admin"):
		return f.addr(true)
	case strings.Contains(n, "addr") || strings.Contains(n, "receiver") || n == "to" || strings.Contains(n, "dest") || strings.Contains(n, "refund") || strings.Contains(n, "contract") ||
		strings.Contains(n, "validator") || strings.Contains(n, "origin") || strings.Contains(n, "token") || strings.Contains(n, "oracle"):
		return f.addr(false)
	case strings.Contains(n, "signature") || strings.Contains(n, "data") || strings.Contains(n, "memo") || strings.Contains(n, "hash") || strings.Contains(n, "checkpoint"):
		return f.pick("", "00", "zz", hex.EncodeToString(make([]byte, f.rng.IntN(70))), "0x"+hex.EncodeToString(make([]byte, 65)), strings.Repeat("ab", 65), "0")
	case strings.Contains(n, "amount") || strings.Contains(n, "value") || strings.Contains(n, "fee"):
		return f.pick("", "0", "1", "-1", "12ab", "115792089237316195423570985008687907853269984665640564039457584007913129639936", "1.5")
	case strings.Contains(n, "target"):
		return f.pick("", "erc20", "module/evm", "chain/gravity", "ibc/0/fx", "ibc/0/0x", "ibc/x/y/z", "eth", "tron", strings.Repeat("x", 300), "ibc//")
	case strings.Contains(n, "url"):
		return f.pick("", "/cosmos.bank.v1beta1.MsgSend", "nope", "/fx.gov.v1.MsgUpdateParams")
	}
	return f.pick("", "a", "title", strings.Repeat("z", 1+f.rng.IntN(400)), "\x00\xff", "1", "{}")
}

func (f *filler) int() sdkmath.Int {
	switch f.rng.IntN(8) {
	case 0:
		return sdkmath.Int{}
	case 1:
		return sdkmath.ZeroInt()
	case 2:
		return sdkmath.NewInt(-1)
	case 3:
		return sdkmath.NewIntFromBigInt(new(big.Int).Lsh(big.NewInt(1), 255))
	case 4:
		return sdkmath.NewIntFromBigInt(new(big.Int).Neg(new(big.Int).Lsh(big.NewInt(1), 255)))
	case 5:
		return sdkmath.NewIntFromUint64(math.MaxUint64)
	default:
		return sdkmath.NewInt(int64(1 + f.rng.IntN(1_000_000)))
	}
}

func (f *filler) dec() sdkmath.LegacyDec {
	switch f.rng.IntN(6) {
	case 0:
		return sdkmath.LegacyDec{}
	case 1:
		return sdkmath.LegacyZeroDec()
	case 2:
		return sdkmath.LegacyNewDec(-1)
	case 3:
		return sdkmath.LegacyNewDecWithPrec(1, 18)
	case 4:
		return sdkmath.LegacyNewDecFromBigInt(new(big.Int).Lsh(big.NewInt(1), 200))
	default:
		return sdkmath.LegacyNewDecWithPrec(int64(f.rng.IntN(2000)), 3)
	}
}

func (f *filler) any(depth int) *codectypes.Any {
	switch f.rng.IntN(6) {
	case 0:
		return nil
	case 1:
		return &codectypes.Any{TypeUrl: "/no.such.Type", Value: []byte{1, 2, 3}}
	case 2:
		return &codectypes.Any{TypeUrl: f.urls[f.rng.IntN(len(f.urls))], Value: []byte{0xff, 0xff, 0xff}}
	case 3:
		a, _ := codectypes.NewAnyWithValue(f.c.Users[0].Priv.PubKey())
		return a
	}
	if depth >= f.maxDepth {
		return &codectypes.Any{TypeUrl: f.urls[f.rng.IntN(len(f.urls))]}
	}
	m := f.msg(f.urls[f.rng.IntN(len(f.urls))], depth+1)
	if m == nil {
		return nil
	}
	var a *codectypes.Any
	guard(func() { a, _ = codectypes.NewAnyWithValue(m) })
	return a
}

func (f *filler) msg(url string, depth int) gogoproto.Message {
	m, err := f.c.App.InterfaceRegistry().Resolve(url)
	if err != nil {
		return nil
	}
	f.fill(reflect.ValueOf(m).Elem(), "", depth)
	return m
}

func (f *filler) fill(v reflect.Value, name string, depth int) {
	if !v.CanSet() {
		return
	}
	switch v.Type() {
	case tInt:
		if f.plain() {
			v.Set(reflect.ValueOf([]sdkmath.Int{sdkmath.ZeroInt(), sdkmath.ZeroInt(), sdkmath.OneInt(), sdkmath.NewInt(int64(1 + f.rng.IntN(1_000_000)))}[f.rng.IntN(4)]))
			return
		}
		v.Set(reflect.ValueOf(f.int()))
		return
	case tDec:
		if f.plain() {
			v.Set(reflect.ValueOf([]sdkmath.LegacyDec{sdkmath.LegacyZeroDec(), sdkmath.LegacyNewDecWithPrec(5, 1), sdkmath.LegacyOneDec(), sdkmath.LegacyNewDecWithPrec(1, 2)}[f.rng.IntN(4)]))
			return
		}
		v.Set(reflect.ValueOf(f.dec()))
		return
	case tAny:
		if a := f.any(depth); a != nil {
			v.Set(reflect.ValueOf(a))
		}
		return
	case tTime:
		v.Set(reflect.ValueOf([]time.Time{{}, time.Unix(0, 0).UTC(), time.Unix(1_700_000_000, 0).UTC(), time.Unix(253402300799, 0).UTC()}[f.rng.IntN(4)]))
		return
	case tDur:
		v.SetInt([]int64{0, -1, 1, int64(time.Hour), math.MaxInt64}[f.rng.IntN(5)])
		return
	case tBytes:
		v.SetBytes(make([]byte, []int{0, 1, 20, 32, 33, 65}[f.rng.IntN(6)]))
		return
	}
	switch v.Kind() {
	case reflect.String:
		if f.plain() {
			v.SetString(f.plainStr(name))
		} else {
			v.SetString(f.str(name))
		}
	case reflect.Bool:
		v.SetBool(f.rng.IntN(2) == 0)
	case reflect.Int, reflect.Int32, reflect.Int64:
		if f.plain() {
			v.SetInt(int64(f.rng.IntN(3)))
			return
		}
		v.SetInt([]int64{0, 1, -1, int64(f.rng.IntN(1000)), math.MaxInt32, math.MinInt32}[f.rng.IntN(6)])
	case reflect.Uint, reflect.Uint32, reflect.Uint64, reflect.Uint8:
		if f.plain() {
			v.SetUint(uint64(1 + f.rng.IntN(100)))
			return
		}
		x := []uint64{0, 1, uint64(f.rng.IntN(1000)), math.MaxUint32, math.MaxInt64, math.MaxUint64}[f.rng.IntN(6)]
		if v.OverflowUint(x) {
			x = 255
		}
		v.SetUint(x)
	case reflect.Float64, reflect.Float32:
		v.SetFloat(float64(f.rng.IntN(100)))
	case reflect.Slice:
		n := []int{0, 0, 1, 2, 3}[f.rng.IntN(5)]
		if f.valid {
			n = 1 + f.rng.IntN(2)
		}
		if depth >= f.maxDepth {
			n = 0
		}
		s := reflect.MakeSlice(v.Type(), n, n)
		for i := 0; i < n; i++ {
			f.fill(s.Index(i), name, depth+1)
		}
		v.Set(s)
	case reflect.Ptr:
		if v.Type().Elem().Kind() != reflect.Struct || depth >= f.maxDepth || (!f.valid && f.rng.IntN(5) == 0) {
			return
		}
		p := reflect.New(v.Type().Elem())
		f.fill(p.Elem(), name, depth+1)
		v.Set(p)
	case reflect.Struct:
		for i := 0; i < v.NumField(); i++ {
			ft := v.Type().Field(i)
			if !ft.IsExported() || strings.HasPrefix(ft.Name, "XXX_") {
				continue
			}
			f.fill(v.Field(i), ft.Name, depth)
		}
	}
}

// ---- wire-level mutation -----------------------------------------------------------------------

type wireField struct {
	num protowire.Number
	typ protowire.Type
	raw []byte // complete encoding of the field (tag + value)
	val []byte // payload of a length-delimited field
}

func parseWire(b []byte) ([]wireField, bool) {
	var out []wireField
	for len(b) > 0 {
		num, typ, n := protowire.ConsumeTag(b)
		if n < 0 {
			return nil, false
		}
		m := protowire.ConsumeFieldValue(num, typ, b[n:])
		if m < 0 {
			return nil, false
		}
		wf := wireField{num: num, typ: typ, raw: b[:n+m]}
		if typ == protowire.BytesType {
			v, k := protowire.ConsumeBytes(b[n:])
			if k >= 0 {
				wf.val = v
			}
		}
		out = append(out, wf)
		b = b[n+m:]
	}
	return out, true
}

func joinWire(fs []wireField) []byte {
	var out []byte
	for _, f := range fs {
		out = append(out, f.raw...)
	}
	return out
}

// mutants of one encoded message: field omission / duplication at two nesting levels, truncation,
// byte flips, an over-long length prefix, an unknown field.
func wireMutants(rng *rand.Rand, bz []byte, budget int) [][]byte {
	out := [][]byte{bz}
	fs, ok := parseWire(bz)
	if ok {
		for i := range fs {
			var drop []wireField
			drop = append(drop, fs[:i]...)
			drop = append(drop, fs[i+1:]...)
			out = append(out, joinWire(drop))
			dup := append(append([]wireField{}, fs[:i+1]...), fs[i:]...)
			out = append(out, joinWire(dup))
			if fs[i].typ == protowire.BytesType && len(fs[i].val) > 0 {
				if sub, ok2 := parseWire(fs[i].val); ok2 && len(sub) > 0 {
					for j := range sub {
						var d2 []wireField
						d2 = append(d2, sub[:j]...)
						d2 = append(d2, sub[j+1:]...)
						nv := joinWire(d2)
						rep := protowire.AppendTag(nil, fs[i].num, protowire.BytesType)
						rep = protowire.AppendBytes(rep, nv)
						m := append([]wireField{}, fs...)
						m[i] = wireField{num: fs[i].num, typ: fs[i].typ, raw: rep, val: nv}
						out = append(out, joinWire(m))
					}
				}
				// the same field with an empty payload
				rep := protowire.AppendTag(nil, fs[i].num, protowire.BytesType)
				rep = protowire.AppendBytes(rep, nil)
				m := append([]wireField{}, fs...)
				m[i] = wireField{num: fs[i].num, typ: fs[i].typ, raw: rep}
				out = append(out, joinWire(m))
			}
		}
	}
	for k := 0; k < 3 && len(bz) > 1; k++ {
		out = append(out, append([]byte{}, bz[:rng.IntN(len(bz))]...))
		fl := append([]byte{}, bz...)
		fl[rng.IntN(len(fl))] ^= byte(1 << rng.IntN(8))
		out = append(out, fl)
	}
	huge := protowire.AppendTag(nil, 1, protowire.BytesType)
	huge = protowire.AppendVarint(huge, 1<<40)
	out = append(out, append(huge, bz...))
	unk := protowire.AppendTag(append([]byte{}, bz...), 1999, protowire.VarintType)
	out = append(out, protowire.AppendVarint(unk, 7))
	if len(out) > budget {
		rng.Shuffle(len(out)-1, func(i, j int) { out[i+1], out[j+1] = out[j+1], out[i+1] })
		out = out[:budget]
	}
	return out
}

func wrapTx(url string, msgBz []byte, gas uint64) []byte {
	body, _ := gogoproto.Marshal(&txtypes.TxBody{Messages: []*codectypes.Any{{TypeUrl: url, Value: msgBz}}})
	auth, _ := gogoproto.Marshal(&txtypes.AuthInfo{Fee: &txtypes.Fee{GasLimit: gas}})
	raw, _ := gogoproto.Marshal(&txtypes.TxRaw{BodyBytes: body, AuthInfoBytes: auth})
	return raw
}

func isPanicLog(log string) bool {
	l := strings.ToLower(log)
	return strings.Contains(l, "panic") || strings.Contains(l, "recovered") || strings.Contains(l, "runtime error") || strings.Contains(l, "nil pointer")
}

func c20Msgs(spec c20Spec, res *core.CaseResult, verbose bool) {
	c := chain.New(chain.Config{Seed: spec.Seed, NumVals: 1, NumUsers: 4})
	reg := c.App.InterfaceRegistry()
	urls := reg.ListImplementations(sdk.MsgInterfaceProtoName)
	sort.Strings(urls)
	rng := core.Rng(spec.Seed, 20)
	dec := c.App.GetTxConfig().TxDecoder()
	reached := map[string]int{}
	var mine []string
	for i, u := range urls {
		if i%spec.Of == spec.Shard {
			mine = append(mine, u)
		}
	}
	res.Count("msg_types_in_shard", int64(len(mine)))
	for _, url := range mine {
		own := strings.HasPrefix(url, "/fx.") || strings.HasPrefix(url, "/ethermint.")
		n := spec.N
		if !own {
			n = spec.N / 4 // dependency types are exercised too, with a smaller budget
		}
		for k := 0; k < n; k++ {
			f := &filler{rng: rng, c: c, urls: urls, sane: k%3 != 2, maxDepth: 3, hostileAt: -1}
			switch k % 4 {
			case 0: // a plausible message; the wire mutants break it one field at a time
				f.valid = true
			case 1: // plausible except one leaf
				f.valid, f.hostileAt = true, rng.IntN(24)
			}
			var m gogoproto.Message
			if p, _ := guard(func() { m = f.msg(url, 0) }); p || m == nil {
				continue
			}
			var bz []byte
			if p, _ := guard(func() { bz, _ = gogoproto.Marshal(m) }); p {
				continue // a Go value the generator built that cannot even be encoded: not a wire input
			}
			for _, mut := range wireMutants(rng, bz, 24) {
				res.Count("wire_inputs", 1)
				txBz := wrapTx(url, mut, 200_000)
				var tx sdk.Tx
				var derr error
				if p, what := guard(func() { tx, derr = dec(txBz) }); p {
					res.Violate("C20/tx-decoder-panic/"+url, "decoding a transaction carrying %s panics: %s; message bytes %x", url, what, mut)
					continue
				}
				if derr != nil {
					res.Count("rejected_by_decoder", 1)
				} else {
					reached[url]++
					for _, msg := range tx.GetMsgs() {
						if vb, ok := msg.(sdk.HasValidateBasic); ok {
							res.Count("validate_basic_calls", 1)
							if p, what := guard(func() { _ = vb.ValidateBasic() }); p {
								res.Violate("C20/validate-basic-panic/"+url, "%s.ValidateBasic panics on a wire-decodable message: %s; message bytes %x", url, what, mut)
							}
						}
						if p, what := guard(func() { _, _, _ = c.App.AppCodec().GetMsgV1Signers(msg) }); p {
							res.Violate("C20/signer-resolution-panic/"+url, "resolving the signers of %s panics: %s; message bytes %x", url, what, mut)
						}
					}
					if vb, ok := tx.(sdk.HasValidateBasic); ok {
						if p, what := guard(func() { _ = vb.ValidateBasic() }); p {
							res.Violate("C20/tx-validate-basic-panic/"+url, "ValidateBasic of the transaction carrying %s panics: %s; message bytes %x", url, what, mut)
						}
					}
				}
				// the real admission path (decode, ValidateBasic, ante)
				if derr == nil || rng.IntN(8) == 0 {
					res.Count("checktx_calls", 1)
					var rsp *abci.ResponseCheckTx
					if p, what := guard(func() { rsp, _ = c.App.CheckTx(&abci.RequestCheckTx{Tx: txBz, Type: abci.CheckTxType_New}) }); p {
						res.Violate("C20/checktx-panic/"+url, "CheckTx panics on a transaction carrying %s: %s; message bytes %x", url, what, mut)
					} else if rsp != nil && rsp.Code != 0 && isPanicLog(rsp.Log) {
						res.Violate("C20/checktx-recovered-panic/"+url, "CheckTx of a transaction carrying %s was answered from a recovered panic: %s; message bytes %x", url, short(rsp.Log), mut)
					}
				}
			}
		}
	}
	var never []string
	n := 0
	for _, u := range mine {
		if reached[u] > 0 {
			n++
		} else if strings.HasPrefix(u, "/fx.") {
			never = append(never, u)
		}
	}
	res.Count("msg_types_reached_validate_basic", int64(n))
	res.Count("fx_msg_types_never_decoded", int64(len(never)))
	res.Nontrivial = n > 0
	res.Sig = fmt.Sprintf("msgs/%d/%d", spec.Shard, n)
	res.Sample = map[string]interface{}{"spec": spec, "types_in_shard": len(mine), "types_reached": n, "fx_types_never_decoded": never}
}

// ---- precompile call data ----------------------------------------------------------------------

func abiValue(rng *rand.Rand, t abi.Type, e *fix.EvmWorld, depth int, name ...string) interface{} {
	arg := ""
	if len(name) > 0 {
		arg = strings.ToLower(name[0])
	}
	switch t.T {
	case abi.AddressTy:
		return []common.Address{{}, e.Victim.Hex(), e.Caller.Hex(), e.USDT.ERC20, common.HexToAddress("0xffffffffffffffffffffffffffffffffffffffff")}[rng.IntN(5)]
	case abi.UintTy, abi.IntTy:
		v := []*big.Int{big.NewInt(0), big.NewInt(0), big.NewInt(1), big.NewInt(int64(rng.IntN(100000))), new(big.Int).Sub(new(big.Int).Lsh(big.NewInt(1), uint(t.Size)), big.NewInt(1))}[rng.IntN(5)]
		if t.T == abi.IntTy && v.BitLen() >= t.Size {
			v = big.NewInt(-1)
		}
		switch {
		case t.Size > 64:
			return v
		case t.T == abi.UintTy:
			u := v.Uint64()
			switch t.Size {
			case 8:
				return uint8(u)
			case 16:
				return uint16(u)
			case 32:
				return uint32(u)
			default:
				return u
			}
		default:
			i := v.Int64()
			switch t.Size {
			case 8:
				return int8(i)
			case 16:
				return int16(i)
			case 32:
				return int32(i)
			default:
				return i
			}
		}
	case abi.BoolTy:
		return rng.IntN(2) == 0
	case abi.StringTy:
		if strings.Contains(arg, "chain") && rng.IntN(4) != 0 {
			return []string{"eth", "bsc", "tron"}[rng.IntN(3)]
		}
		if strings.Contains(arg, "val") && rng.IntN(4) != 0 {
			return e.Vals[rng.IntN(len(e.Vals))].String()
		}
		return []string{"", e.Vals[0].String(), "eth", "tron", "ibc/0/fx", e.Victim.Bech32(), e.Victim.Hex().Hex(), strings.Repeat("x", 500), "\x00"}[rng.IntN(9)]
	case abi.BytesTy:
		return make([]byte, []int{0, 1, 32, 100}[rng.IntN(4)])
	case abi.FixedBytesTy:
		arr := reflect.New(t.GetType()).Elem()
		s := []string{"eth", "tron", "", "ibc/0/fx", "bsc"}[rng.IntN(5)]
		for i := 0; i < len(s) && i < t.Size; i++ {
			arr.Index(i).SetUint(uint64(s[i]))
		}
		return arr.Interface()
	case abi.SliceTy:
		n := rng.IntN(3)
		s := reflect.MakeSlice(t.GetType(), n, n)
		for i := 0; i < n; i++ {
			s.Index(i).Set(reflect.ValueOf(abiValue(rng, *t.Elem, e, depth+1)))
		}
		return s.Interface()
	case abi.ArrayTy:
		a := reflect.New(t.GetType()).Elem()
		for i := 0; i < t.Size; i++ {
			a.Index(i).Set(reflect.ValueOf(abiValue(rng, *t.Elem, e, depth+1)))
		}
		return a.Interface()
	case abi.TupleTy:
		st := reflect.New(t.GetType()).Elem()
		for i, et := range t.TupleElems {
			st.Field(i).Set(reflect.ValueOf(abiValue(rng, *et, e, depth+1)))
		}
		return st.Interface()
	}
	return reflect.Zero(t.GetType()).Interface()
}

func c20Precompile(spec c20Spec, res *core.CaseResult, verbose bool) {
	e, err := fix.NewEvmWorld(spec.Seed, "eth", false)
	if err != nil {
		res.Inconclusive = "setup: " + err.Error()
		return
	}
	c := e.C
	rng := core.Rng(spec.Seed, 21)
	type target struct {
		name string
		addr common.Address
		abi  abi.ABI
	}
	tg := []target{{"crosschain", crosschaintypes.GetAddress(), crosschaintypes.GetABI()}, {"staking", fxstakingtypes.GetAddress(), fxstakingtypes.GetABI()}}
	type meth struct {
		t target
		m abi.Method
	}
	var all []meth
	for _, t := range tg {
		var names []string
		for n := range t.abi.Methods {
			names = append(names, n)
		}
		sort.Strings(names)
		for _, n := range names {
			all = append(all, meth{t, t.abi.Methods[n]})
		}
	}
	reachedOK := 0
	for i, mm := range all {
		if i%spec.Of != spec.Shard {
			continue
		}
		for k := 0; k < spec.N; k++ {
			var args []interface{}
			for _, in := range mm.m.Inputs {
				args = append(args, abiValue(rng, in.Type, e, 0, in.Name))
			}
			var packed []byte
			if p, _ := guard(func() { packed, err = mm.m.Inputs.Pack(args...) }); p || err != nil {
				continue
			}
			data := append(append([]byte{}, mm.m.ID...), packed...)
			inputs := [][]byte{data}
			// truncations at and around word boundaries
			for _, cut := range []int{0, 3, 4, 5, 4 + 31, 4 + 32, 4 + 33, len(data) - 1, len(data) - 32} {
				if cut >= 0 && cut < len(data) {
					inputs = append(inputs, append([]byte{}, data[:cut]...))
				}
			}
			// hostile offsets / lengths: overwrite one head or tail word
			for w := 0; w < 3 && len(packed) >= 32; w++ {
				pos := 4 + 32*rng.IntN(len(packed)/32)
				for _, val := range []*big.Int{new(big.Int).SetUint64(math.MaxUint64), new(big.Int).Lsh(big.NewInt(1), 63), new(big.Int).Sub(new(big.Int).Lsh(big.NewInt(1), 256), big.NewInt(1)), big.NewInt(int64(len(data))), big.NewInt(int64(len(data) - 31)), big.NewInt(1 << 31)} {
					m := append([]byte{}, data...)
					copy(m[pos:pos+32], common.LeftPadBytes(val.Bytes(), 32))
					inputs = append(inputs, m)
				}
			}
			rnd := make([]byte, rng.IntN(200))
			for i := range rnd {
				rnd[i] = byte(rng.UintN(256))
			}
			inputs = append(inputs, append(append([]byte{}, mm.m.ID...), rnd...))
			for _, in := range inputs {
				ctx := c.Branch()
				var val *big.Int
				if mm.m.Payable && rng.IntN(2) == 0 {
					val = big.NewInt(int64(rng.IntN(1000)))
				}
				res.Count("precompile_calls", 1)
				er := c.EthTxOn(ctx, e.Caller, &mm.t.addr, in, val, 600_000)
				if er.Panic != nil {
					res.Violate("C20/precompile-panic/"+mm.t.name+"."+mm.m.Name, "calling %s.%s with data %x panics: %v", mm.t.name, mm.m.Name, in, er.Panic)
				} else if !er.Failed() {
					reachedOK++
				}
				// the read path (eth_call)
				if p, what := guard(func() { _, _ = c.StaticCall(ctx, e.Caller.Hex(), mm.t.addr, in) }); p {
					res.Violate("C20/precompile-call-panic/"+mm.t.name+"."+mm.m.Name, "eth_call of %s.%s with data %x panics: %s", mm.t.name, mm.m.Name, in, what)
				}
			}
		}
		res.Count("precompile_methods", 1)
	}
	res.Count("precompile_calls_succeeded", int64(reachedOK))
	res.Nontrivial = reachedOK > 0
	res.Sig = fmt.Sprintf("precompile/%d/%d", spec.Shard, reachedOK)
}

// ---- parsers -------------------------------------------------------------------------------------

func c20Parsers(spec c20Spec, res *core.CaseResult, verbose bool) {
	chain.Init()
	rng := core.Rng(spec.Seed, 22)
	k := chain.DeriveKey(spec.Seed, "parser", 0)
	seeds := []string{k.Bech32(), k.Hex().Hex(), strings.ToLower(k.Hex().Hex()), crosschaintypes.ExternalAddrToStr("tron", k.Hex().Bytes()), "ibc/0/fx", "ibc/px/transfer/channel-0", "px/transfer/channel-0", "chain/gravity", "module/evm", "erc20", "eth", "tron",
		"transfer/channel-0", hex.EncodeToString([]byte("transfer/channel-0")), "0x", "", "ibc/", "ibc//", "ibc/0/", "/", "T", "41" + strings.Repeat("0", 40)}
	alphabet := "0123456789abcdefABCDEFxXT/ibctransferchannel-_.:1qpzry9 \x00\xff"
	gen := func() string {
		s := seeds[rng.IntN(len(seeds))]
		switch rng.IntN(5) {
		case 0:
			return s
		case 1: // mutate a few characters
			b := []byte(s)
			for i := 0; i < 1+rng.IntN(3) && len(b) > 0; i++ {
				b[rng.IntN(len(b))] = alphabet[rng.IntN(len(alphabet))]
			}
			return string(b)
		case 2: // truncate / extend
			if len(s) > 0 && rng.IntN(2) == 0 {
				return s[:rng.IntN(len(s))]
			}
			return s + string(alphabet[rng.IntN(len(alphabet))])
		case 3:
			b := make([]byte, rng.IntN(80))
			for i := range b {
				b[i] = alphabet[rng.IntN(len(alphabet))]
			}
			return string(b)
		default:
			return hex.EncodeToString([]byte(s))
		}
	}
	chains := crosschaintypes.GetSupportChains()
	valid := 0
	call := func(name, in string, fn func()) {
		res.Count("parser_calls", 1)
		if p, what := guard(fn); p {
			res.Violate("C20/parser-panic/"+name, "%s(%q) panics: %s", name, in, what)
		}
	}
	for i := 0; i < spec.N; i++ {
		s := gen()
		call("ParseAddress", s, func() {
			if _, _, err := fxtypes.ParseAddress(s); err == nil {
				valid++
			}
		})
		call("ParseFxTarget", s, func() {
			for _, hx := range []bool{false, true} {
				t := fxtypes.ParseFxTarget(s, hx)
				_ = t.GetTarget()
				_ = t.String()
				_ = t.IBCValidate()
				if t.IsIBC() {
					valid++
					_, _ = t.ReceiveAddrToStr(k.Acc())
				}
			}
		})
		call("StrToByte32", s, func() {
			if b, err := fxtypes.StrToByte32(s); err == nil {
				_ = fxtypes.Byte32ToString(b)
			}
		})
		call("ValidateEthereumAddress", s, func() { _ = contract.ValidateEthereumAddress(s) })
		call("ValidateTronAddress", s, func() { _ = trontypes.ValidateTronAddress(s) })
		call("GetIbcDenomTrace", s, func() {
			_, _ = fxtypes.GetIbcDenomTrace("usdt", s)
			_, _ = fxtypes.GetIbcDenomTrace(s, hex.EncodeToString([]byte("transfer/channel-0")))
		})
		call("ValidateModuleName", s, func() { _ = crosschaintypes.ValidateModuleName(s) })
		cn := chains[rng.IntN(len(chains))]
		call("ValidateExternalAddr+convert", cn+":"+s, func() {
			if err := crosschaintypes.ValidateExternalAddr(cn, s); err == nil {
				valid++
				_ = crosschaintypes.ExternalAddrToAccAddr(cn, s)
				_ = crosschaintypes.ExternalAddrToHexAddr(cn, s)
			}
			_ = crosschaintypes.ValidateExternalAddr(s, s)
		})
		// (ExternalAddrToStr is not a parser of untrusted input: its callers pass 20-byte EVM addresses)
		call("ExternalAddrToStr(20 bytes)", s, func() { _ = crosschaintypes.ExternalAddrToStr(cn, common.BytesToAddress([]byte(s)).Bytes()) })
	}
	res.Count("parser_inputs_accepted", int64(valid))
	res.Nontrivial = valid > 0
	res.Sig = fmt.Sprintf("parsers/%d", valid)
}

// ---- the minimum-fee rule -------------------------------------------------------------------------

func c20Fee(spec c20Spec, res *core.CaseResult, verbose bool) {
	rng := core.Rng(spec.Seed, 23)
	sendURL := sdk.MsgTypeURL(&banktypes.MsgSend{})
	voteURL := sdk.MsgTypeURL(&govv1.MsgVote{})
	wdrURL := sdk.MsgTypeURL(&distrtypes.MsgWithdrawDelegatorReward{})
	confirmURL := sdk.MsgTypeURL(&crosschaintypes.MsgConfirm{})
	exemptSets := [][]string{{}, {sendURL}, {voteURL, wdrURL}, {sendURL, voteURL, wdrURL}, {confirmURL}, {"/no.such.Msg"}}
	exempt := exemptSets[spec.Shard%len(exemptSets)]
	allowance := []uint64{200_000, 50_000, 1_000_000, 0}[spec.Shard%4]
	prices := []string{"", "4000000000000" + fxtypes.DefaultDenom, "0.000000001" + fxtypes.DefaultDenom, "4000000000000" + fxtypes.DefaultDenom + ",0.5usdt"}
	price := prices[(spec.Shard/len(exemptSets)+rng.IntN(len(prices)))%len(prices)]
	if spec.Shard < 3 {
		price = prices[1+spec.Shard]
	}
	c := chain.New(chain.Config{Seed: spec.Seed, NumVals: 1, NumUsers: 4, MinGasPrices: price,
		AppOpts: map[string]interface{}{"bypass-min-fee.msg-types": exempt, "bypass-min-fee.msg-max-gas-usage": allowance}})
	minPrices, _ := sdk.ParseDecCoins(price)
	fix.Fund(c, c.Users[0].Acc(), sdk.NewCoin("usdt", sdkmath.NewInt(1_000_000_000_000)))
	fix.Fund(c, c.Users[0].Acc(), sdk.NewCoin("apple", sdkmath.NewInt(1_000_000_000_000))) // a coin the node quotes no price in
	if _, err := c.Next(); err != nil {
		res.Inconclusive = err.Error()
		return
	}
	isExempt := map[string]bool{}
	for _, u := range exempt {
		isExempt[u] = true
	}
	u := c.Users[0]
	mk := func(kind int) sdk.Msg {
		switch kind {
		case 0:
			return &banktypes.MsgSend{FromAddress: u.Bech32(), ToAddress: c.Users[1].Bech32(), Amount: sdk.NewCoins(sdk.NewCoin(fxtypes.DefaultDenom, sdkmath.NewInt(1)))}
		case 1:
			return &govv1.MsgVote{ProposalId: 1, Voter: u.Bech32(), Option: govv1.OptionYes}
		case 2:
			return &distrtypes.MsgWithdrawDelegatorReward{DelegatorAddress: u.Bech32(), ValidatorAddress: c.Vals[0].Operator.Val().String()}
		default:
			return &banktypes.MsgMultiSend{Inputs: []banktypes.Input{{Address: u.Bech32(), Coins: sdk.NewCoins(sdk.NewCoin(fxtypes.DefaultDenom, sdkmath.NewInt(1)))}},
				Outputs: []banktypes.Output{{Address: c.Users[1].Bech32(), Coins: sdk.NewCoins(sdk.NewCoin(fxtypes.DefaultDenom, sdkmath.NewInt(1)))}}}
		}
	}
	seqDelta := uint64(0)
	sigs := map[string]bool{}
	for i := 0; i < spec.N; i++ {
		n := 1 + rng.IntN(3)
		var msgs []sdk.Msg
		allEx := true
		// the first iterations are fixed scenarios so that every run sees an accepted bypass and the
		// refusals next to it; the rest is random
		var exKinds, nonKinds []int
		for kd := 0; kd < 4; kd++ {
			if isExempt[sdk.MsgTypeURL(mk(kd))] {
				exKinds = append(exKinds, kd)
			} else {
				nonKinds = append(nonKinds, kd)
			}
		}
		scenario := -1
		if i < 6 && len(exKinds) > 0 && allowance > 0 {
			scenario = i
			n = 3
		}
		for j := 0; j < n; j++ {
			kd := rng.IntN(4)
			switch scenario {
			case 0, 1:
				kd = exKinds[j%len(exKinds)]
			case 2: // one non-exempt message in the middle
				kd = exKinds[j%len(exKinds)]
				if j == 1 {
					kd = nonKinds[0]
				}
			case 3: // only the last one is exempt
				kd = nonKinds[j%len(nonKinds)]
				if j == n-1 {
					kd = exKinds[0]
				}
			case 4, 5:
				kd = nonKinds[j%len(nonKinds)]
			}
			m := mk(kd)
			msgs = append(msgs, m)
			if !isExempt[sdk.MsgTypeURL(m)] {
				allEx = false
			}
		}
		// gas around n*allowance and around typical values
		var gas uint64
		switch rng.IntN(5) {
		case 0:
			gas = uint64(n) * allowance
		case 1:
			gas = uint64(n)*allowance + 1
		case 2:
			if uint64(n)*allowance > 0 {
				gas = uint64(n)*allowance - 1
			}
		case 3:
			gas = allowance + 1 // above one allowance, within n allowances if n > 1
		default:
			gas = uint64(150_000 + rng.IntN(1_000_000))
		}
		switch scenario {
		case 0, 2, 3:
			gas = uint64(n) * allowance
		case 1:
			gas = uint64(n)*allowance + 1
		}
		if gas < 120_000 {
			gas = 120_000 + uint64(rng.IntN(3)) // enough for the ante handler itself; still compared with n*allowance
		}
		bypass := len(msgs) >= 1 && allEx && gas <= uint64(len(msgs))*allowance
		// required fee per accepted denom
		var required sdk.Coins
		for _, p := range minPrices {
			required = append(required, sdk.NewCoin(p.Denom, p.Amount.MulInt64(int64(gas)).Ceil().RoundInt()))
		}
		// fee: none, just below, exactly, in the second denom only, both below
		var fee sdk.Coins
		feeKind := rng.IntN(8)
		switch scenario {
		case 0, 1, 2, 3:
			feeKind = 0
		case 4:
			feeKind = 2
		case 5:
			feeKind = 1
		}
		switch {
		case len(required) == 0 || feeKind == 0:
			fee = nil
		case feeKind == 1:
			fee = sdk.NewCoins(sdk.NewCoin(required[0].Denom, required[0].Amount.SubRaw(1)))
		case feeKind == 2:
			fee = sdk.NewCoins(required[0])
		case feeKind == 3:
			fee = sdk.NewCoins(required[len(required)-1])
		case feeKind == 4:
			for _, r := range required {
				if r.Amount.GT(sdkmath.OneInt()) {
					fee = fee.Add(sdk.NewCoin(r.Denom, r.Amount.SubRaw(1)))
				}
			}
		case feeKind == 6: // paid entirely in a coin the node has no price for
			fee = sdk.NewCoins(sdk.NewCoin("apple", sdkmath.NewInt(int64(1+rng.IntN(1_000_000)))))
		case feeKind == 7: // dust in the node's coin plus a coin it has no price for
			fee = sdk.NewCoins(sdk.NewCoin("apple", required[0].Amount.AddRaw(1)))
			if required[0].Amount.GT(sdkmath.OneInt()) {
				fee = fee.Add(sdk.NewCoin(required[0].Denom, sdkmath.OneInt()))
			}
		default:
			fee = sdk.NewCoins(sdk.NewCoin(required[0].Denom, required[0].Amount.MulRaw(2)))
		}
		feeOK := len(required) == 0
		for _, r := range required {
			if fee.AmountOf(r.Denom).GTE(r.Amount) {
				feeOK = true
			}
		}
		bz, err := c.SignTx(c.Ctx, []chain.Key{u}, msgs, chain.TxOpts{Gas: gas, Fee: fee, SeqDelta: map[string]uint64{u.Bech32(): seqDelta}})
		if err != nil {
			res.Inconclusive = "sign: " + err.Error()
			return
		}
		rsp, err := c.App.CheckTx(&abci.RequestCheckTx{Tx: bz, Type: abci.CheckTxType_New})
		if err != nil {
			res.Inconclusive = "checktx: " + err.Error()
			return
		}
		res.Count("fee_verdicts_checked", 1)
		desc := fmt.Sprintf("%d msgs (all exempt=%v) gas=%d (allowance %d each) fee=%s, node price %q", len(msgs), allEx, gas, allowance, fee, price)
		if verbose {
			fmt.Printf("%s -> code=%d %s\n", desc, rsp.Code, short(rsp.Log))
		}
		insufficient := rsp.Code == 13 && rsp.Codespace == "sdk"
		sigs[fmt.Sprintf("%v/%v/%v", bypass, feeOK, rsp.Code == 0)] = true
		switch {
		case bypass || feeOK:
			if insufficient {
				res.Violate("C20/fee-refused-although-rule-allows", "%s: the rule admits it (bypass=%v, fee sufficient=%v) but CheckTx refused for insufficient fee: %s", desc, bypass, feeOK, short(rsp.Log))
			}
			if bypass && !feeOK && rsp.Code == 0 {
				res.Count("fee_bypass_accepted", 1)
			}
		default:
			res.Count("fee_must_refuse", 1)
			if rsp.Code == 0 {
				res.Violate("C20/fee-dodged", "%s: below the minimum price and not exempt, but CheckTx admitted it", desc)
			} else if insufficient {
				res.Count("fee_refused_for_price", 1)
			}
		}
		if isPanicLog(rsp.Log) {
			res.Violate("C20/checktx-recovered-panic/fee", "%s: CheckTx answered from a recovered panic: %s", desc, short(rsp.Log))
		}
		if rsp.Code == 0 {
			seqDelta++
		}
		if i%20 == 19 {
			if _, err := c.Next(); err != nil {
				res.Inconclusive = err.Error()
				return
			}
			seqDelta = 0
		}
	}
	res.Nontrivial = len(sigs) >= 3
	res.Sig = fmt.Sprintf("fee/%d/%v/%d/%q/%d", spec.Shard, exempt, allowance, price, len(sigs))
	res.Sample = map[string]interface{}{"spec": spec, "exempt": exempt, "allowance": allowance, "min_gas_prices": price, "verdict_classes": len(sigs)}
}
