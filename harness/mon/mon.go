// Package mon links every property monitor into vcheck.
package mon
