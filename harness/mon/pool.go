package mon

import (
	"encoding/json"
	"fmt"
	"math/big"
	"math/rand/v2"
	"sort"
	"strconv"
	"strings"

	sdkmath "cosmossdk.io/math"
	storetypes "cosmossdk.io/store/types"
	sdk "github.com/cosmos/cosmos-sdk/types"
	"github.com/ethereum/go-ethereum/common"

	"github.com/functionx/fx-core/v8/app"
	fxtypes "github.com/functionx/fx-core/v8/types"
	crosschaintypes "github.com/functionx/fx-core/v8/x/crosschain/types"
	erc20types "github.com/functionx/fx-core/v8/x/erc20/types"

	"verif/harness/chain"
	"verif/harness/core"
	"verif/harness/fix"
)

// The "pool" workload: several users move several tokens (FX, module-owned pair,
// externally-owned pair, two-chain alias) in and out over one or two bridged chains
// through Cosmos messages, precompile calls and oracle claims, while an executable
// model of the external bridge contract decides what was executed there. Three monitors
// watch it after every operation:
//   C04 conservation / exact balance effects / withdrawability
//   C05 every transfer in exactly one place, settled once (reference model of pool/batch/call)
//   C06 value released only when the observed external height proves it can no longer run

type poolSpec struct {
	Seed   uint64   `json:"seed"`
	Chains []string `json:"chains"`
	Steps  int      `json:"steps"`
	N      int      `json:"n"`
	// timeout parameters (ms) and block times of the first chain
	BatchTimeoutMs uint64 `json:"batch_timeout_ms"`
	CallTimeoutMs  uint64 `json:"call_timeout_ms"`
	ExtBlockMs     uint64 `json:"ext_block_ms"`
	FxBlockMs      uint64 `json:"fx_block_ms"`
	ExtCalls       bool   `json:"ext_calls"`
	Flood          bool   `json:"flood"`       // start with more pooled transfers of one token than a batch takes
	LongPark       bool   `json:"long_park"`   // start with a deposit that is observed but executed only after more than a hundred later events
	FreshChain     bool   `json:"fresh_chain"` // not a history: a bridge token installed by the genesis state, no external event observed yet
	IBCTarget      bool   `json:"ibc_target"`  // not a history: deposits whose target is another chain over IBC, with less voucher liquidity than the deposit
	OldChain       bool   `json:"old_chain"`   // fxcore's own height is far above every external height and timeout of the history
}

func poolCases(seed uint64, tier, prop string) []core.Case {
	rng := core.Rng(seed, 0xC04)
	n := 40
	if tier == "thorough" {
		n = 500
	}
	combos := [][]string{{"eth"}, {"eth", "bsc"}, {"tron"}, {"eth", "polygon"}, {"bsc"}}
	var out []core.Case
	for i := 0; i < n; i++ {
		s := poolSpec{Seed: rng.Uint64(), Chains: combos[i%len(combos)], Steps: 150 + rng.IntN(150), N: 3 + rng.IntN(3),
			BatchTimeoutMs: uint64(60_000 + rng.IntN(600_000)), CallTimeoutMs: uint64(3_600_001 + rng.IntN(3_600_000)),
			ExtBlockMs: uint64(1000 + rng.IntN(14000)), FxBlockMs: uint64(1000 + rng.IntN(8000)), ExtCalls: i%4 == 3, Flood: i%13 == 6, LongPark: i%13 == 10, OldChain: i%4 == 1}
		if i%5 == 2 || i%5 == 4 {
			// fxcore's clock runs far ahead of the external chain: the projected external height, and with it
			// the timeouts of new batches and calls, overshoots between observations, so timeouts are not
			// monotone in the batch nonce
			s.FxBlockMs = s.ExtBlockMs * uint64(20+rng.IntN(40))
		}
		out = append(out, core.MkCase(fmt.Sprintf("%s-pool-%03d", prop, i), s))
	}
	if prop == "C06" {
		out = append(out, core.MkCase(fmt.Sprintf("%s-fresh-chain", prop), poolSpec{Seed: rng.Uint64(), FreshChain: true}))
	}
	if prop == "C04" {
		k := 2
		if tier == "thorough" {
			k = 12
		}
		for i := 0; i < k; i++ {
			out = append(out, core.MkCase(fmt.Sprintf("%s-ibc-target-%02d", prop, i), poolSpec{Seed: rng.Uint64(), IBCTarget: true}))
		}
	}
	return out
}

// ---- external chain model (FxBridgeLogic.sol rules that matter here) ------------------

type extChain struct {
	lastBatchNonce map[string]uint64 // token -> last executed batch nonce
	callDone       map[uint64]bool   // executed successfully on the external chain
	callResulted   map[uint64]bool   // the external chain emitted a result event (success or failure)
}

// ---- reference model of one outgoing transfer ----------------------------------------

type xfer struct {
	ID          uint64
	Owner       string
	Dest        string
	Token       string // external contract string
	Amount, Fee sdkmath.Int
	Loc         string // pool | batch:<n> | executed | refunded
	ViaEVM      bool
}

type callRec struct {
	Nonce   uint64
	Sender  string
	Refund  string
	Tokens  []crosschaintypes.ERC20Token
	To      string
	Data    string
	Memo    string
	Timeout uint64
	Loc     string // open | executed | refunded
	FromMsg bool
}

type poolRun struct {
	fwd             common.Address // a plain forwarder contract of a stranger
	settlesByRefund bool           // the operation being measured removed a bridge call from the store by the timeout path
	spec            poolSpec
	rng             *rand.Rand
	c               *chain.Chain
	w               *fix.World
	res             *core.CaseResult
	verb            bool
	users           []chain.Key
	// per chain
	model   map[string]map[uint64]*xfer
	calls   map[string]map[uint64]*callRec
	ext     map[string]*extChain
	maxID   map[string]uint64
	maxCall map[string]uint64
	maxBat  map[string]uint64
	// C04
	group               map[string]*fix.WToken // base denom -> token
	deposited           map[string]sdkmath.Int
	withdrawn           map[string]sdkmath.Int
	u0                  map[string]sdkmath.Int
	c04, c05, c06       bool
	nontrivial          map[string]bool
	log                 []string
	pendingDeposits     map[string][]uint64
	batchExecutedExt    map[string]map[uint64]bool
	batchTimeout        map[string]map[uint64]uint64
	releasedByExecution bool
	fxSupply            sdkmath.Int
	parkedResults       map[string][]parkedResult
	forceToken          *fix.WToken
	forceFee            int64
	execToken           string
	execNonce           uint64
	perChainIn          map[string]sdkmath.Int
	refunded            map[string]bool
	stuck               map[string]bool
}

func (r *poolRun) logf(f string, a ...interface{}) {
	s := fmt.Sprintf(f, a...)
	if r.verb {
		fmt.Println(s)
	}
	if len(r.log) < 60 {
		r.log = append(r.log, s)
	}
}

func runPool(cs core.Case, verbose bool, c04, c05, c06 bool) core.CaseResult {
	var spec poolSpec
	res := core.CaseResult{}
	if err := json.Unmarshal(cs.Spec, &spec); err != nil {
		res.Inconclusive = err.Error()
		return res
	}
	if spec.FreshChain {
		if c06 {
			c06FreshChainCase(spec.Seed, &res, verbose)
		}
		res.Sig = "fresh-chain"
		res.Sample = map[string]interface{}{"spec": spec}
		return res
	}
	if spec.IBCTarget {
		if c04 {
			c04IBCTargetCase(spec.Seed, &res, verbose)
		}
		res.Sig = "ibc-target"
		res.Sample = map[string]interface{}{"spec": spec}
		return res
	}
	r := &poolRun{spec: spec, rng: core.Rng(spec.Seed, 5), res: &res, verb: verbose, c04: c04, c05: c05, c06: c06,
		model: map[string]map[uint64]*xfer{}, calls: map[string]map[uint64]*callRec{}, ext: map[string]*extChain{},
		maxID: map[string]uint64{}, maxCall: map[string]uint64{}, maxBat: map[string]uint64{},
		group: map[string]*fix.WToken{}, deposited: map[string]sdkmath.Int{}, withdrawn: map[string]sdkmath.Int{}, u0: map[string]sdkmath.Int{},
		nontrivial: map[string]bool{}, pendingDeposits: map[string][]uint64{}}
	r.run()
	var flags []string
	for k := range r.nontrivial {
		flags = append(flags, k)
	}
	sort.Strings(flags)
	res.Nontrivial = len(flags) >= 2
	res.Sig = strings.Join(spec.Chains, "+") + "/" + strings.Join(flags, "+")
	res.Sample = map[string]interface{}{"spec": spec, "first_ops": r.log, "reached": flags}
	return res
}

func (r *poolRun) setup() bool {
	spec := r.spec
	initial := int64(0)
	if spec.OldChain {
		initial = 5_000_000 // a mature fxcore bridging a young external chain
	}
	r.c = chain.New(chain.Config{Seed: spec.Seed, NumVals: 2, NumUsers: 5, InitialHeight: initial,
		CrosschainParams: func(name string, p *crosschaintypes.Params) {
			p.SignedWindow = 10_000
			p.ExternalBatchTimeout = spec.BatchTimeoutMs
			p.BridgeCallTimeout = spec.CallTimeoutMs
			p.AverageExternalBlockTime = spec.ExtBlockMs
			p.AverageBlockTime = spec.FxBlockMs
		}})
	c := r.c
	r.users = c.Users[:3]
	r.w = fix.NewWorld(c)
	var stakes []sdkmath.Int
	for i := 0; i < spec.N; i++ {
		stakes = append(stakes, chain.FX(int64(10000+r.rng.IntN(20000))))
	}
	for _, cn := range spec.Chains {
		if _, err := r.w.AddBridge(cn, stakes); err != nil {
			r.res.Inconclusive = "bridge: " + err.Error()
			return false
		}
		r.model[cn] = map[uint64]*xfer{}
		r.calls[cn] = map[uint64]*callRec{}
		r.ext[cn] = &extChain{lastBatchNonce: map[string]uint64{}, callDone: map[uint64]bool{}, callResulted: map[uint64]bool{}}
	}
	if _, err := c.Next(); err != nil {
		r.res.Inconclusive = err.Error()
		return false
	}
	// C06: nothing can be batched before an external height has been observed — checked
	// on a throw-away branch of a fresh bridge before any event exists (done in stepProbeNoHeight)
	first := spec.Chains[0]
	usdt, err := r.w.AddModuleToken("USDT", spec.Chains...)
	if err != nil {
		r.res.Inconclusive = "usdt: " + err.Error()
		return false
	}
	if _, err := r.w.AddFXToken(first); err != nil {
		r.res.Inconclusive = "fx: " + err.Error()
		return false
	}
	if _, err := r.w.AddExternalToken(c.Users[4], "XTK", new(big.Int).Mul(big.NewInt(1_000_000), big.NewInt(1e6)), first); err != nil {
		r.res.Inconclusive = "xtk: " + err.Error()
		return false
	}
	_ = usdt
	for _, t := range r.w.Tokens {
		r.group[t.Base] = t
		r.deposited[t.Base] = sdkmath.ZeroInt()
		r.withdrawn[t.Base] = sdkmath.ZeroInt()
	}
	// the owner of the external token hands some to the users (plain ERC-20 transfers)
	xtk := r.w.Tokens[2]
	for _, u := range r.users {
		if er := c.EthTx(c.Users[4], &xtk.ERC20, chain.ERC20Pack("transfer", u.Hex(), big.NewInt(100_000)), nil, 0); er.Failed() {
			r.res.Inconclusive = "xtk transfer: " + er.VmError()
			return false
		}
	}
	for _, t := range r.w.Tokens {
		r.u0[t.Base] = r.sumUsers(t)
	}
	return true
}

func (r *poolRun) tracked() []chain.Key { return r.c.Users }

// holding of one account in one token group: bank base + bank aliases + ERC-20.
func (r *poolRun) holding(a chain.Key, t *fix.WToken) sdkmath.Int {
	ctx := r.c.Ctx
	h := r.c.Balance(ctx, a.Acc(), t.Base)
	for _, d := range t.Denom {
		if d != t.Base {
			h = h.Add(r.c.Balance(ctx, a.Acc(), d))
		}
	}
	return h.Add(sdkmath.NewIntFromBigInt(r.c.ERC20Balance(ctx, t.ERC20, a.Hex())))
}

func (r *poolRun) sumUsers(t *fix.WToken) sdkmath.Int {
	s := sdkmath.ZeroInt()
	for _, u := range r.tracked() {
		s = s.Add(r.holding(u, t))
	}
	return s
}

type snap map[string]map[string]sdkmath.Int // base -> user label -> holding

func (r *poolRun) snapshot() snap {
	s := snap{}
	for _, t := range r.w.Tokens {
		m := map[string]sdkmath.Int{}
		for _, u := range r.tracked() {
			m[u.Label] = r.holding(u, t)
		}
		s[t.Base] = m
	}
	return s
}

type delta struct {
	base string
	user string
	amt  sdkmath.Int
}

// expectDeltas compares the measured change of every tracked account in every token
// group with what the operation explicitly moves.
func (r *poolRun) expectDeltas(op string, before snap, want []delta) {
	kind := strings.SplitN(op, " ", 2)[0]
	if r.c04 {
		// the native coin is neither minted nor burnt by bridging it (it is locked and released); with zero
		// inflation and zero gas price its total supply is a constant of the whole history
		sup := r.c.Supply(r.c.Ctx, fxtypes.DefaultDenom)
		if r.fxSupply.IsNil() {
			r.fxSupply = sup
		} else if !sup.Equal(r.fxSupply) {
			r.res.Violate("C04/native-coin-supply-changed/"+kind, "%s: the total supply of %s went from %s to %s", op, fxtypes.DefaultDenom, r.fxSupply, sup)
			r.fxSupply = sup
		}
		r.res.Count("native_supply_checks", 1)
	}
	// C05 speaks of who pays what when a transfer is queued, its fee raised, or it is cancelled
	c05op := r.c05 && (kind == "increase-fee" || kind == "cancel" || kind == "send" || r.settlesByRefund)
	if !r.c04 && !c05op {
		return
	}
	after := r.snapshot()
	exp := map[string]sdkmath.Int{}
	for _, d := range want {
		k := d.base + "|" + d.user
		if cur, ok := exp[k]; ok {
			exp[k] = cur.Add(d.amt)
		} else {
			exp[k] = d.amt
		}
	}
	r.res.Count("balance_effect_checks", 1)
	for base, m := range after {
		for u, v := range m {
			got := v.Sub(before[base][u])
			w, ok := exp[base+"|"+u]
			if !ok {
				w = sdkmath.ZeroInt()
			}
			if !got.Equal(w) {
				if r.c04 {
					r.res.Violate("C04/unexpected-balance-change/"+kind+"/"+string(r.group[base].Kind), "%s: holdings of %s in token group %s changed by %s, the operation moves %s", op, u, base, got, w)
				}
				if c05op && r.settlesByRefund {
					r.res.Violate("C05/refund-mismatch/"+kind, "%s: a timed-out bridge call left the store; holdings of %s in token group %s changed by %s, the refund due is %s", op, u, base, got, w)
				} else if c05op {
					r.res.Violate("C05/payment-mismatch/"+kind, "%s: holdings of %s in token group %s changed by %s, the operation charges / refunds %s", op, u, base, got, w)
				}
			}
		}
	}
}

// ---- store readers ---------------------------------------------------------------------

type stored struct {
	pool    map[uint64]*crosschaintypes.OutgoingTransferTx
	batches map[uint64]*crosschaintypes.OutgoingTxBatch // by nonce
	byBlock map[uint64]*crosschaintypes.OutgoingTxBatch
	calls   map[uint64]*crosschaintypes.OutgoingBridgeCall
	dupIDs  []uint64
}

func (r *poolRun) readStores(cn string) stored {
	ctx := r.c.Ctx
	cdc := r.c.App.AppCodec()
	st := stored{pool: map[uint64]*crosschaintypes.OutgoingTransferTx{}, batches: map[uint64]*crosschaintypes.OutgoingTxBatch{}, byBlock: map[uint64]*crosschaintypes.OutgoingTxBatch{}, calls: map[uint64]*crosschaintypes.OutgoingBridgeCall{}}
	store := ctx.KVStore(r.c.App.GetKVStoreKey()[cn])
	it := storetypes.KVStorePrefixIterator(store, crosschaintypes.OutgoingTxPoolKey)
	for ; it.Valid(); it.Next() {
		var tx crosschaintypes.OutgoingTransferTx
		if cdc.Unmarshal(it.Value(), &tx) == nil {
			if _, dup := st.pool[tx.Id]; dup {
				st.dupIDs = append(st.dupIDs, tx.Id)
			}
			t := tx
			st.pool[tx.Id] = &t
		}
	}
	it.Close()
	it = storetypes.KVStorePrefixIterator(store, crosschaintypes.OutgoingTxBatchKey)
	for ; it.Valid(); it.Next() {
		var b crosschaintypes.OutgoingTxBatch
		if cdc.Unmarshal(it.Value(), &b) == nil {
			bb := b
			st.batches[b.BatchNonce] = &bb
		}
	}
	it.Close()
	it = storetypes.KVStorePrefixIterator(store, crosschaintypes.OutgoingTxBatchBlockKey)
	for ; it.Valid(); it.Next() {
		var b crosschaintypes.OutgoingTxBatch
		if cdc.Unmarshal(it.Value(), &b) == nil {
			bb := b
			st.byBlock[sdk.BigEndianToUint64(it.Key()[1:])] = &bb
		}
	}
	it.Close()
	it = storetypes.KVStorePrefixIterator(store, crosschaintypes.OutgoingBridgeCallNonceKey)
	for ; it.Valid(); it.Next() {
		var oc crosschaintypes.OutgoingBridgeCall
		if cdc.Unmarshal(it.Value(), &oc) == nil {
			o := oc
			st.calls[oc.Nonce] = &o
		}
	}
	it.Close()
	return st
}

// checkC05 compares the stores with the reference model. `op` describes what just ran;
// `allowed` lists the model transitions the operation may have caused.
func (r *poolRun) syncModel(cn, op string, allow map[string]bool) {
	st := r.readStores(cn)
	m := r.model[cn]
	b := r.w.Bridges[cn]
	observed := b.ObservedHeight()
	r.res.Count("model_checks", 1)
	if r.c05 {
		for _, id := range st.dupIDs {
			r.res.Violate("C05/id-twice-in-pool", "%s: transfer %d is stored twice in the pool of %s", op, id, cn)
		}
	}
	where := map[uint64]string{}
	content := map[uint64]*crosschaintypes.OutgoingTransferTx{}
	for id, tx := range st.pool {
		where[id] = "pool"
		content[id] = tx
	}
	for n, bt := range st.batches {
		for _, tx := range bt.Transactions {
			if prev, dup := where[tx.Id]; dup && r.c05 {
				r.res.Violate("C05/transfer-in-two-places", "%s: transfer %d of %s is in %s and in batch %d", op, tx.Id, cn, prev, n)
			}
			where[tx.Id] = fmt.Sprintf("batch:%d", n)
			content[tx.Id] = tx
		}
		{
			ib, ok := st.byBlock[bt.Block]
			if !ok || ib.BatchNonce != bt.BatchNonce || ib.String() != bt.String() {
				r.v05("C05/batch-block-index-mismatch", "%s: batch %d of %s (block %d) has no identical entry in the by-block index", op, n, cn, bt.Block)
			}
			if n > r.maxBat[cn] {
				if n != r.maxBat[cn]+1 {
					r.v05("C05/batch-nonce-not-sequential", "%s: new batch nonce %d after %d", op, n, r.maxBat[cn])
				}
				r.maxBat[cn] = n
				// C06: a batch exists only if an external height was observed when it was created
				if r.c06 {
					r.res.Count("no_height_batch_attempts", 1)
					if bt.BatchTimeout == 0 || observed == 0 {
						r.res.Violate("C06/batch-without-observed-height", "%s: batch %d created with timeout %d while the last observed external height is %d", op, n, bt.BatchTimeout, observed)
					}
					if bt.BatchTimeout <= observed {
						r.res.Violate("C06/batch-born-timed-out", "%s: batch %d created with timeout %d <= observed external height %d", op, n, bt.BatchTimeout, observed)
					}
				}
			}
		}
	}
	if r.c05 {
		for blk, ib := range st.byBlock {
			if bt, ok := st.batches[ib.BatchNonce]; !ok || bt.Block != blk {
				r.res.Violate("C05/orphan-batch-block-index", "%s: by-block index entry at %d points to batch %d which is not stored there", op, blk, ib.BatchNonce)
			}
		}
	}
	// new ids
	var ids []uint64
	for id := range where {
		ids = append(ids, id)
	}
	sort.Slice(ids, func(i, j int) bool { return ids[i] < ids[j] })
	for _, id := range ids {
		tx := content[id]
		x, known := m[id]
		if !known {
			if r.c05 {
				if id <= r.maxID[cn] {
					r.res.Violate("C05/id-reused", "%s: transfer id %d of %s appears although ids up to %d were already issued", op, id, cn, r.maxID[cn])
				} else if id != r.maxID[cn]+1 {
					r.res.Violate("C05/id-gap", "%s: new transfer id %d of %s after %d", op, id, cn, r.maxID[cn])
				}
				if !allow["new"] {
					r.res.Violate("C05/unexpected-new-transfer", "%s: transfer %d of %s appeared", op, id, cn)
				}
			}
			if id > r.maxID[cn] {
				r.maxID[cn] = id
			}
			m[id] = &xfer{ID: id, Owner: tx.Sender, Dest: tx.DestAddress, Token: tx.Token.Contract, Amount: tx.Token.Amount, Fee: tx.Fee.Amount, Loc: where[id]}
			continue
		}
		{
			if x.Loc == "executed" || x.Loc == "refunded" {
				r.v05("C05/settled-transfer-reappeared", "%s: transfer %d of %s was %s and is now in %s", op, id, cn, x.Loc, where[id])
			}
			if tx.Sender != x.Owner || tx.DestAddress != x.Dest || tx.Token.Contract != x.Token || !tx.Token.Amount.Equal(x.Amount) || tx.Fee.Contract != x.Token {
				r.v05("C05/queued-content-changed", "%s: transfer %d of %s changed: owner %s->%s dest %s->%s token %s->%s amount %s->%s", op, id, cn, x.Owner, tx.Sender, x.Dest, tx.DestAddress, x.Token, tx.Token.Contract, x.Amount, tx.Token.Amount)
			}
			if !tx.Fee.Amount.Equal(x.Fee) {
				if !allow["fee"] {
					r.v05("C05/fee-changed", "%s: fee of transfer %d of %s changed %s -> %s", op, id, cn, x.Fee, tx.Fee.Amount)
				}
			}
			if where[id] != x.Loc {
				from, to := strings.SplitN(x.Loc, ":", 2)[0], strings.SplitN(where[id], ":", 2)[0]
				tr := from + ">" + to
				if !allow[tr] {
					r.v05("C05/illegal-move/"+tr, "%s: transfer %d of %s moved %s -> %s", op, id, cn, x.Loc, where[id])
				}
				if tr == "batch>pool" {
					r.nontrivial["batch-cancelled"] = true
					// C06: a batch is released for timeout only once the observed external height reached its timeout
					if r.c06 {
						r.checkBatchRelease(cn, op, x, observed)
					}
					// C05: the only operations that dissolve a batch are the execution of a later batch of the
					// same token and the timeout clean-up
					if r.c05 {
						var n uint64
						fmt.Sscanf(x.Loc, "batch:%d", &n)
						superseded := r.releasedByExecution && x.Token == r.execToken && n < r.execNonce
						to, known := r.batchTimeout[cn][n]
						if !superseded && known && observed < to {
							r.res.Violate("C05/batch-dissolved-without-cause", "%s: transfer %d of %s went back to the pool from batch %d (token %s, timeout %d, observed height %d) although no later batch of that token was executed", op, id, cn, n, x.Token, to, observed)
						}
					}
				}
			}
		}
		x.Fee = tx.Fee.Amount
		x.Loc = where[id]
	}
	// disappeared ids
	for id, x := range m {
		if _, still := where[id]; still || x.Loc == "executed" || x.Loc == "refunded" {
			continue
		}
		switch {
		case allow["pool>refunded"] && x.Loc == "pool":
			x.Loc = "refunded"
		case allow["batch>executed"] && strings.HasPrefix(x.Loc, "batch:"):
			x.Loc = "executed"
		default:
			if r.c05 {
				r.res.Violate("C05/transfer-vanished", "%s: transfer %d of %s (was %s) is neither in the pool nor in a batch and the operation settles nothing", op, id, cn, x.Loc)
			}
			x.Loc = "refunded"
		}
	}
	// outgoing bridge calls
	cm := r.calls[cn]
	for n, oc := range st.calls {
		if _, known := cm[n]; !known {
			if r.c05 {
				if n != r.maxCall[cn]+1 {
					r.res.Violate("C05/bridge-call-nonce-not-sequential", "%s: new bridge call nonce %d after %d", op, n, r.maxCall[cn])
				}
				if !allow["newcall"] {
					r.res.Violate("C05/unexpected-new-bridge-call", "%s: bridge call %d of %s appeared", op, n, cn)
				}
			}
			if n > r.maxCall[cn] {
				r.maxCall[cn] = n
			}
			cm[n] = &callRec{Nonce: n, Sender: oc.Sender, Refund: oc.Refund, Tokens: oc.Tokens, To: oc.To, Data: oc.Data, Memo: oc.Memo, Timeout: oc.Timeout, Loc: "open"}
			if r.c06 && oc.Timeout == 0 {
				r.res.Violate("C06/bridge-call-without-observed-height", "%s: bridge call %d created with timeout 0", op, n)
			}
			continue
		}
		cr := cm[n]
		if r.c05 && (cr.Loc != "open" || oc.Sender != cr.Sender || oc.Refund != cr.Refund || oc.To != cr.To || oc.Data != cr.Data || oc.Memo != cr.Memo || fmt.Sprint(oc.Tokens) != fmt.Sprint(cr.Tokens)) {
			r.res.Violate("C05/bridge-call-changed", "%s: stored bridge call %d of %s differs from what was queued (state %s)", op, n, cn, cr.Loc)
		}
	}
	for n, cr := range cm {
		if _, still := st.calls[n]; still || cr.Loc != "open" {
			continue
		}
		// the execution of one call's result settles that call and no other: a bridge call is tracked on the
		// external chain by its own nonce and stays executable there until its own timeout
		only, restricted := uint64(0), false
		for k := range allow {
			if strings.HasPrefix(k, "only-call#") {
				only, _ = strconv.ParseUint(strings.TrimPrefix(k, "only-call#"), 10, 64)
				restricted = true
			}
		}
		switch {
		case restricted && n != only:
			if r.c06 {
				r.res.Violate("C06/bridge-call-released-by-result-of-another-call", "%s: bridge call %d of %s (timeout %d, last observed external height %d, no result observed for it) was released when the result of call %d was executed", op, n, cn, cr.Timeout, observed, only)
			}
			if r.c05 {
				r.res.Violate("C05/bridge-call-settled-by-result-of-another-call", "%s: bridge call %d of %s left the store when the result of call %d was executed", op, n, cn, only)
			}
			cr.Loc = "refunded"
		case allow["call>executed"]:
			cr.Loc = "executed"
		case allow["call>refunded"]:
			cr.Loc = "refunded"
			r.nontrivial["call-refunded"] = true
			if r.c06 && allow["timeout-path"] && observed < cr.Timeout {
				r.res.Violate("C06/bridge-call-refunded-before-timeout", "%s: bridge call %d of %s (timeout %d) was refunded while the last observed external height is %d", op, n, cn, cr.Timeout, observed)
			}
			if r.c06 && r.ext[cn].callDone[n] {
				r.res.Violate("C06/double-spend/bridge-call", "%s: bridge call %d of %s was executed on the external chain and refunded on fxcore", op, n, cn)
			}
		default:
			if r.c05 {
				r.res.Violate("C05/bridge-call-vanished", "%s: bridge call %d of %s disappeared", op, n, cn)
			}
			cr.Loc = "refunded"
		}
	}
}

// c06FreshChainCase: the genesis state of a bridge module already lists a bridge token (as after an upgrade
// that adds a chain), oracles are bonded, a holder queues a transfer -- and no external event has been observed
// yet. Nothing can be batched: a batch needs a timeout, and a timeout needs an observed external height.
func c06FreshChainCase(seed uint64, res *core.CaseResult, verbose bool) {
	const cn = "eth"
	ext := fix.TokenAddr(seed, "genesis-token", 0)
	bd := crosschaintypes.NewBridgeDenom(cn, fix.ExtAddr(cn, ext))
	c := chain.New(chain.Config{Seed: seed, NumVals: 2, NumUsers: 4, GenesisHook: func(c *chain.Chain, gs app.GenesisState) {
		cdc := c.App.AppCodec()
		var cg crosschaintypes.GenesisState
		cdc.MustUnmarshalJSON(gs[cn], &cg)
		cg.BridgeTokens = append(cg.BridgeTokens, crosschaintypes.BridgeToken{Token: bd, Denom: bd})
		gs[cn] = cdc.MustMarshalJSON(&cg)
	}})
	w := fix.NewWorld(c)
	b, err := w.AddBridge(cn, []sdkmath.Int{chain.FX(10000), chain.FX(10000), chain.FX(10000)})
	if err != nil {
		res.Inconclusive = "bridge: " + err.Error()
		return
	}
	c.Next()
	pair, err := fix.RegisterCoin(c, "Genesis token", "GEN", 18, bd)
	if err != nil {
		res.Inconclusive = err.Error()
		return
	}
	if h := b.ObservedHeight(); h != 0 || b.K.GetLastObservedEventNonce(c.Ctx) != 0 {
		res.Inconclusive = fmt.Sprintf("an external height (%d) has been observed already", h)
		return
	}
	user := c.Users[1]
	fix.Fund(c, user.Acc(), sdk.NewCoin(pair.Denom, sdkmath.NewInt(100_000)))
	// (the genesis balances of such a chain hold the bridge-denomination backing of the coins in circulation)
	for _, m := range []string{cn, erc20types.ModuleName} {
		if err := c.App.BankKeeper.MintCoins(c.Ctx, m, sdk.NewCoins(sdk.NewCoin(bd, sdkmath.NewInt(100_000)))); err != nil {
			res.Inconclusive = "backing: " + err.Error()
			return
		}
	}
	for i := 0; i < 40; i++ {
		c.Next()
	}
	_, sr := b.SendToExternal(user, c.Users[2].Hex(), sdk.NewCoin(pair.Denom, sdkmath.NewInt(1000)), sdk.NewCoin(pair.Denom, sdkmath.NewInt(10)))
	if !sr.OK() {
		res.Inconclusive = "send: " + sr.ErrString()
		return
	}
	n, br := b.RequestBatch(b.Oracles[0], bd, sdkmath.NewInt(1), sdkmath.ZeroInt(), c.Users[2].Hex())
	res.Count("fresh_chain_batch_requests", 1)
	if verbose {
		fmt.Printf("fresh chain: request batch -> nonce=%d ok=%v %s; batches stored %d\n", n, br.OK(), short(br.ErrString()), len(b.Batches()))
	}
	res.Nontrivial = true
	if br.OK() || len(b.Batches()) > 0 {
		to := uint64(0)
		if bs := b.Batches(); len(bs) > 0 {
			to = bs[0].BatchTimeout
		}
		res.Violate("C06/batch-without-observed-height", "a batch (timeout %d) was created on a chain on which no external event has been observed yet (fxcore height %d)", to, c.Height)
	}
}

func (r *poolRun) v06(key, format string, a ...interface{}) {
	if r.c06 {
		r.res.Violate(key, format, a...)
	}
}

func (r *poolRun) v05(key, format string, a ...interface{}) {
	if r.c05 {
		r.res.Violate(key, format, a...)
	}
}

func (r *poolRun) checkBatchRelease(cn, op string, x *xfer, observed uint64) {
	// which batch was it in? its nonce is in x.Loc
	var n uint64
	fmt.Sscanf(x.Loc, "batch:%d", &n)
	e := r.ext[cn]
	if e.lastBatchNonce[x.Token] >= n && r.batchExecutedExt[cn+"/"+x.Token][n] {
		r.res.Violate("C06/double-spend/batch", "%s: batch %d of %s was executed on the external chain and its transfer %d returned to the pool", op, n, cn, x.ID)
	}
	// a batch goes back to the pool either because a later batch of the same token was executed
	// (it can no longer be executed externally) or because its own timeout was observed to have passed
	if r.releasedByExecution && x.Token == r.execToken && n < r.execNonce {
		r.res.Count("superseded_releases_checked", 1)
		return
	}
	if to, ok := r.batchTimeout[cn][n]; ok {
		r.res.Count("timeout_releases_checked", 1)
		if observed < to {
			r.res.Violate("C06/batch-released-before-timeout", "%s: batch %d of %s (token %s, timeout %d) returned transfer %d to the pool while the last observed external height is %d and no later batch of that token was executed", op, n, cn, x.Token, to, x.ID, observed)
		}
	}
}

var _ = erc20types.ModuleName
var _ = fxtypes.DefaultDenom
var _ = common.Address{}
