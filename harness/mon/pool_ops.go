package mon

import (
	"fmt"
	"math/big"
	"sort"
	"strings"

	sdkmath "cosmossdk.io/math"
	sdk "github.com/cosmos/cosmos-sdk/types"
	"github.com/ethereum/go-ethereum/common"

	fxtypes "github.com/functionx/fx-core/v8/types"
	crosschaintypes "github.com/functionx/fx-core/v8/x/crosschain/types"
	erc20types "github.com/functionx/fx-core/v8/x/erc20/types"

	"verif/harness/chain"
	"verif/harness/core"
	"verif/harness/evmasm"
	"verif/harness/fix"
)

func init() {
	mk := func(id, rule string, req []string, c04, c05, c06 bool) {
		core.Register(&core.Prop{
			ID: id, Level: "exploration", Rule: rule,
			Assumptions: []string{
				"operations enter through the real message router / EVM keeper on the finalize-state context; blocks are real FinalizeBlock+Commit",
				"the external chain is an executable model of FxBridgeLogic.sol's acceptance rules (batch: nonce > last executed and block.number < timeout; bridge call: block.number < timeout, nonce unused)",
				"zero inflation and zero gas price in the harness genesis, so the native coin is conserved as well",
			},
			Cases:            func(seed uint64, tier string) []core.Case { return poolCases(seed, tier, id) },
			Run:              func(c core.Case, v bool) core.CaseResult { return runPool(c, v, c04, c05, c06) },
			MinNontrivial:    6,
			RequiredCounters: req,
		})
	}
	mk("C04", "seeded histories of deposits, sends, cancels, fee increases, batches, batch executions and timeouts, outgoing bridge calls (message and precompile) with success / failure / timeout, inbound bridge calls and conversions by 3 users over FX, a module-owned pair, an externally-owned pair and a two-chain alias token; "+
		"after every operation the holdings of every tracked account in every token group are compared with what the operation explicitly moves, and users + in-flight = initial + deposits - externally executed withdrawals is evaluated from the stores; at the end every holder tries to withdraw its whole balance on a branch. "+
		"Non-trivial: a history that reached >=2 of {batch-cancelled, batch-executed, call-refunded, call-executed, out-of-order-execution, cancel-after-batch-release}; distinct by (chains, reached set)",
		[]string{"balance_effect_checks", "conservation_checks", "withdraw_probes", "sends_ok", "deposits_executed"}, true, false, false)
	mk("C05", "same workload; a reference model of every transfer (id, owner, destination, token, amount, fee, location) and every outgoing bridge call is synchronised with the raw pool / batch / by-block / bridge-call stores after every operation and only the location changes the operation is allowed to cause are accepted. "+
		"Non-trivial as C04; distinct by (chains, reached set)",
		[]string{"model_checks", "sends_ok", "batches_created", "cancels_ok", "third_party_cancels_rejected", "fee_increases_ok"}, false, true, false)
	mk("C06", "same workload with the external model executing batches at the last legal height T-1 and the oracles delivering that event late, external heights swept around every live timeout, timeout and block-time parameters varied per case; every release (batch back to pool without execution, bridge-call refund) is checked against the last observed external height and against the model's record of what ran externally. "+
		"Non-trivial as C04; distinct by (chains, reached set)",
		[]string{"model_checks", "timeout_releases_checked", "batches_created", "no_height_batch_attempts"}, false, false, true)
}

func (r *poolRun) run() {
	if !r.setup() {
		return
	}
	r.batchExecutedExt = map[string]map[uint64]bool{}
	r.batchTimeout = map[string]map[uint64]uint64{}
	for _, cn := range r.spec.Chains {
		r.batchTimeout[cn] = map[uint64]uint64{}
	}
	if r.spec.Flood {
		r.opFlood(r.spec.Chains[0])
	}
	if r.spec.LongPark {
		r.opLongPark(r.spec.Chains[0])
	}
	for step := 0; step < r.spec.Steps && r.c.BlockErr == nil && r.res.Inconclusive == ""; step++ {
		cn := r.spec.Chains[r.rng.IntN(len(r.spec.Chains))]
		if r.stuck[cn] {
			allStuck := true
			for _, c := range r.spec.Chains {
				if !r.stuck[c] {
					allStuck = false
				}
			}
			if allStuck {
				break
			}
			continue
		}
		switch x := r.rng.IntN(100); {
		case x < 14:
			r.opDeposit(cn)
		case x < 32:
			r.opSend(cn)
		case x < 40:
			r.opCancel(cn)
		case x < 46:
			r.opIncreaseFee(cn)
		case x < 56:
			r.opRequestBatch(cn)
		case x < 66:
			r.opBatchExternal(cn)
		case x < 72:
			r.opAdvanceAndObserve(cn)
		case x < 80:
			r.opBridgeCallOut(cn)
		case x < 86:
			r.opBridgeCallResult(cn)
		case x < 91:
			r.opConvert()
		case x < 93:
			r.opSecondBatch(cn)
		case x < 95:
			r.opExecuteParked(cn)
		default:
			r.opEndBlock()
		}
		if r.c04 {
			r.checkConservation(fmt.Sprintf("step %d", step))
		}
	}
	if r.res.Inconclusive != "" || r.c.BlockErr != nil {
		return
	}
	r.opEndBlock()
	if r.c04 {
		r.withdrawProbe()
	}
}

func (r *poolRun) bridge(cn string) *fix.Bridge { return r.w.Bridges[cn] }

// quorum lets all oracles vote. If the vote that would make the event observed fails,
// the chain's event stream is blocked for good (every later crossing vote re-runs the
// same clean-up); the case stops using that chain.
func (r *poolRun) quorum(cn string, fn fix.ClaimFn, what string) bool {
	b := r.bridge(cn)
	err := b.Quorum(fn)
	if err == nil {
		return true
	}
	r.logf("%s: quorum failed: %v", what, err)
	if r.stuck == nil {
		r.stuck = map[string]bool{}
	}
	r.stuck[cn] = true
	if strings.Contains(err.Error(), "panic") {
		kind := "other"
		for _, t := range r.tokensOn(cn) {
			if strings.Contains(err.Error(), t.Base) || strings.Contains(err.Error(), t.Denom[cn]) {
				kind = string(t.Kind)
			}
		}
		if r.c05 {
			r.res.Violate("C05/refund-panics-and-blocks-observation/"+kind, "%s: the vote that crosses the quorum panics inside the timeout clean-up, so the event can never be observed and the timed-out bridge call is never settled: %s", what, short(err.Error()))
		}
		r.res.Count("observation_blocked", 1)
	}
	return false
}

// liq tracks, per chain and token group, what came in over that chain and has not been
// committed to leave through it (used only to size the withdrawability probe of multi-chain tokens).
func (r *poolRun) liq(cn, base string, d sdkmath.Int) {
	if r.perChainIn == nil {
		r.perChainIn = map[string]sdkmath.Int{}
	}
	k := cn + "/" + base
	if cur, ok := r.perChainIn[k]; ok {
		r.perChainIn[k] = cur.Add(d)
	} else {
		r.perChainIn[k] = d
	}
}

func (r *poolRun) tokensOn(cn string) []*fix.WToken {
	var out []*fix.WToken
	for _, t := range r.w.Tokens {
		if _, ok := t.Denom[cn]; ok {
			out = append(out, t)
		}
	}
	return out
}

func (r *poolRun) pickToken(cn string) *fix.WToken {
	ts := r.tokensOn(cn)
	if r.forceToken != nil {
		return r.forceToken
	}
	return ts[r.rng.IntN(len(ts))]
}

// opSecondBatch steers the ordinary operations into the situation in which two batches of one token
// are live at once: a cheap transfer batched after fxcore's clock ran ahead of the last observation,
// a little external progress observed, then a better-paying transfer batched (a new batch must be at
// least as profitable as the last one). With a fast fxcore clock the second batch is born with the
// lower timeout. Everything goes through the same operations and checks as the rest of the history.
func (r *poolRun) opSecondBatch(cn string) {
	ts := r.tokensOn(cn)
	r.forceToken = ts[r.rng.IntN(len(ts))]
	defer func() { r.forceToken, r.forceFee = nil, 0 }()
	r.forceFee = int64(1 + r.rng.IntN(5))
	r.opSend(cn)
	for k := 1 + r.rng.IntN(4); k > 0 && r.res.Inconclusive == ""; k-- {
		r.opEndBlock()
	}
	r.opRequestBatch(cn)
	r.bridge(cn).ExtHeight += uint64(r.rng.IntN(3))
	r.opDeposit(cn)
	if r.stuck[cn] || r.res.Inconclusive != "" {
		return
	}
	r.forceFee = int64(500 + r.rng.IntN(500))
	r.opSend(cn)
	r.opRequestBatch(cn)
	live := 0
	for _, bt := range r.bridge(cn).Batches() {
		if bt.TokenContract == r.forceToken.ExtStr(cn) {
			live++
		}
	}
	if live >= 2 {
		r.res.Count("two_live_batches_of_one_token", 1)
	}
}

func (r *poolRun) user() chain.Key { return r.users[r.rng.IntN(len(r.users))] }

func (r *poolRun) sync(cn, op string, allow ...string) {
	m := map[string]bool{}
	for _, a := range allow {
		m[a] = true
	}
	r.releasedByExecution = m["batch>executed"]
	for _, c := range r.spec.Chains {
		if c == cn {
			r.syncModel(c, op, m)
		} else {
			r.syncModel(c, op, map[string]bool{})
		}
	}
	// remember the timeout of every live batch
	for _, c := range r.spec.Chains {
		for _, bt := range r.bridge(c).Batches() {
			r.batchTimeout[c][bt.BatchNonce] = bt.BatchTimeout
		}
	}
}

// claimAllow: a vote that makes an event observed may also run the timeout clean-up
var observeAllow = []string{"batch>pool", "call>refunded", "timeout-path"}

func (r *poolRun) opDeposit(cn string) {
	b := r.bridge(cn)
	t := r.pickToken(cn)
	u := r.user()
	amt := sdkmath.NewInt(int64(1000 + r.rng.IntN(100000)))
	target := ""
	if r.rng.IntN(2) == 0 {
		target = fxtypes.ERC20Target
	}
	n, h := b.NextEvent()
	before := r.snapshot()
	claim := b.SendToFxClaim(n, h, t.Ext[cn], amt, u.Hex(), u.Acc(), target)
	viaCall := r.rng.IntN(4) == 0
	if viaCall {
		// the same deposit made as an inbound bridge call that carries the tokens to an ordinary account
		claim = b.BridgeCallClaim(n, h, fix.BridgeCallIn{Sender: r.c.Users[3].Hex(), Refund: u.Hex(), To: u.Hex(), TxOrigin: r.c.Users[3].Hex(),
			Tokens: []common.Address{t.Ext[cn]}, Amounts: []sdkmath.Int{amt}})
	}
	if !r.quorum(cn, claim, "deposit") {
		r.sync(cn, "deposit-blocked", observeAllow...)
		return
	}
	// observation may release timed-out batches / refund timed-out calls (refunds go to the callers)
	r.afterObservation(cn, fmt.Sprintf("deposit-observed %s n=%d", t.Symbol, n), before)
	before = r.snapshot()
	er := b.ExecuteClaim(r.c.Users[3], n)
	op := fmt.Sprintf("deposit-execute %s %s to %s target=%q bridge-call=%v -> %s", cn, amt, u.Label, target, viaCall, short(er.VmError()))
	r.logf(op)
	if er.Failed() {
		r.expectDeltas(op, before, nil)
	} else {
		r.res.Count("deposits_executed", 1)
		r.deposited[t.Base] = r.deposited[t.Base].Add(amt)
		r.liq(cn, t.Base, amt)
		r.expectDeltas(op, before, []delta{{t.Base, u.Label, amt}})
	}
	r.sync(cn, op)
	if !er.Failed() && r.c04 {
		// an event is credited once: executing the same event again must be refused and move nothing
		before = r.snapshot()
		er2 := b.ExecuteClaim(r.c.Users[3], n)
		op2 := fmt.Sprintf("deposit-execute-again %s n=%d (bridge call: %v) -> ok=%v", cn, n, viaCall, !er2.Failed())
		if !er2.Failed() {
			r.res.Violate("C04/deposit-executed-twice", "%s: the second execution of an already executed deposit event succeeded", op2)
		}
		r.expectDeltas(op2, before, nil)
		r.sync(cn, op2)
		r.res.Count("repeated_executions_refused", 1)
	}
}

// afterObservation: measure what the timeout clean-up inside the observing vote did.
func (r *poolRun) afterObservation(cn, op string, before snap) {
	// refunds of timed-out bridge calls are the only balance effect an observation may have
	st := r.readStores(cn)
	var want []delta
	for n, cr := range r.calls[cn] {
		if cr.Loc != "open" {
			continue
		}
		if _, still := st.calls[n]; !still {
			want = append(want, r.callRefundDeltas(cn, cr)...)
		}
	}
	// (C05: a call settled by refund pays exactly its tokens to its refund address)
	r.settlesByRefund = len(want) > 0
	r.expectDeltas(op, before, want)
	r.settlesByRefund = false
	r.sync(cn, op, observeAllow...)
}

func (r *poolRun) callRefundDeltas(cn string, cr *callRec) []delta {
	var out []delta
	refund := crosschaintypes.ExternalAddrToAccAddr(cn, cr.Refund)
	label := ""
	for _, u := range r.tracked() {
		if u.Acc().Equals(refund) {
			label = u.Label
		}
	}
	if label == "" {
		return nil
	}
	for _, tk := range cr.Tokens {
		for _, t := range r.tokensOn(cn) {
			if t.ExtStr(cn) == tk.Contract {
				r.liq(cn, t.Base, tk.Amount)
				if r.refunded == nil {
					r.refunded = map[string]bool{}
				}
				r.refunded[cn+"/"+t.Base] = true
				out = append(out, delta{t.Base, label, tk.Amount})
			}
		}
	}
	return out
}

func (r *poolRun) opSend(cn string) {
	b := r.bridge(cn)
	t := r.pickToken(cn)
	u := r.user()
	dest := r.c.Users[3].Hex()
	viaEVM := r.rng.IntN(3) == 0 && t.Kind != fix.KindFX && r.forceFee == 0
	before := r.snapshot()
	var ok bool
	var errStr string
	var amt, fee sdkmath.Int
	if viaEVM {
		bal := r.c.ERC20Balance(r.c.Ctx, t.ERC20, u.Hex())
		if bal.Sign() == 0 {
			return
		}
		a := new(big.Int).Div(bal, big.NewInt(int64(2+r.rng.IntN(6))))
		if a.Sign() == 0 {
			return
		}
		f := big.NewInt(int64(1 + r.rng.IntN(20)))
		amt, fee = sdkmath.NewIntFromBigInt(a), sdkmath.NewIntFromBigInt(f)
		pc := fix.PrecompileCrosschain()
		total := new(big.Int).Add(a, f)
		if er := r.c.EthTx(u, &t.ERC20, chain.ERC20Pack("approve", pc, total), nil, 0); er.Failed() {
			return
		}
		var target [32]byte
		copy(target[:], cn)
		er := r.c.EthTx(u, &pc, fix.PackCrosschain("crossChain", t.ERC20, fix.ExtAddr(cn, dest), a, f, target, ""), nil, 3_000_000)
		ok, errStr = !er.Failed(), er.VmError()
		if !ok {
			// give the allowance back so that it does not confuse later operations
			r.c.EthTx(u, &t.ERC20, chain.ERC20Pack("approve", pc, big.NewInt(0)), nil, 0)
		}
	} else {
		bal := r.c.Balance(r.c.Ctx, u.Acc(), t.Base)
		if !bal.IsPositive() {
			return
		}
		amt = bal.QuoRaw(int64(2 + r.rng.IntN(6)))
		fee = sdkmath.NewInt(int64(1 + r.rng.IntN(20)))
		if r.forceFee > 0 {
			fee = sdkmath.NewInt(r.forceFee)
		}
		if r.rng.IntN(12) == 0 {
			amt = bal.Sub(fee) // whole balance
		}
		if !amt.IsPositive() {
			return
		}
		_, res := b.SendToExternal(u, dest, sdk.NewCoin(t.Base, amt), sdk.NewCoin(t.Base, fee))
		ok, errStr = res.OK(), res.ErrString()
	}
	op := fmt.Sprintf("send %s %s %s+%s by %s evm=%v -> %s", cn, t.Symbol, amt, fee, u.Label, viaEVM, short(errStr))
	r.logf(op)
	if ok {
		r.res.Count("sends_ok", 1)
		r.liq(cn, t.Base, amt.Add(fee).Neg())
		r.expectDeltas(op, before, []delta{{t.Base, u.Label, amt.Add(fee).Neg()}})
		r.sync(cn, op, "new")
		if x := r.model[cn][r.maxID[cn]]; x != nil {
			x.ViaEVM = viaEVM
			if r.c05 && (x.Owner != u.Bech32() || x.Dest != fix.ExtAddr(cn, dest) || !x.Amount.Equal(amt) || !x.Fee.Equal(fee) || x.Token != t.ExtStr(cn)) {
				r.res.Violate("C05/queued-differs-from-request", "%s: queued transfer %d carries owner=%s dest=%s token=%s amount=%s fee=%s", op, x.ID, x.Owner, x.Dest, x.Token, x.Amount, x.Fee)
			}
		}
	} else {
		r.res.Count("sends_rejected", 1)
		r.expectDeltas(op, before, nil)
		r.sync(cn, op)
		if r.c04 && strings.Contains(errStr, "insufficient") || strings.Contains(errStr, "smaller than") {
			// refused although the sender's own balance covers amount + fee: missing module-side funds
			if !viaEVM && r.c.Balance(r.c.Ctx, u.Acc(), t.Base).GTE(amt.Add(fee)) && r.c04 && (t.Kind == fix.KindFX || amt.Add(fee).LTE(r.netDeposited(cn, t))) {
				r.res.Violate("C04/send-refused-for-missing-escrow/"+string(t.Kind)+r.refundTag(cn, t), "%s: the sender holds %s %s but the send was refused: %s", op, r.c.Balance(r.c.Ctx, u.Acc(), t.Base), t.Base, short(errStr))
			}
		}
	}
}

func (r *poolRun) poolIDs(cn string, owner string) []uint64 {
	var ids []uint64
	for id, x := range r.model[cn] {
		if x.Loc == "pool" && (owner == "" || x.Owner == owner) {
			ids = append(ids, id)
		}
	}
	sortU64(ids)
	return ids
}

func sortU64(a []uint64) {
	for i := 1; i < len(a); i++ {
		for j := i; j > 0 && a[j] < a[j-1]; j-- {
			a[j], a[j-1] = a[j-1], a[j]
		}
	}
}

func (r *poolRun) tokenByExt(cn, ext string) *fix.WToken {
	for _, t := range r.tokensOn(cn) {
		if t.ExtStr(cn) == ext {
			return t
		}
	}
	return nil
}

func (r *poolRun) keyOf(bech string) (chain.Key, bool) {
	for _, u := range r.tracked() {
		if u.Bech32() == bech {
			return u, true
		}
	}
	return chain.Key{}, false
}

func (r *poolRun) opCancel(cn string) {
	b := r.bridge(cn)
	// candidates: any known id (pooled, batched, settled) to exercise every refusal
	var all []uint64
	for id := range r.model[cn] {
		all = append(all, id)
	}
	if len(all) == 0 {
		return
	}
	sortU64(all)
	id := all[r.rng.IntN(len(all))]
	if p := r.poolIDs(cn, ""); len(p) > 0 && r.rng.IntN(3) != 0 {
		id = p[r.rng.IntN(len(p))]
	}
	x := r.model[cn][id]
	owner, _ := r.keyOf(x.Owner)
	who := owner
	third := r.rng.IntN(4) == 0
	if third {
		for _, u := range r.users {
			if u.Bech32() != x.Owner {
				who = u
			}
		}
	}
	t := r.tokenByExt(cn, x.Token)
	before := r.snapshot()
	var ok bool
	var errStr string
	if kind := r.rng.IntN(6); kind == 0 && !third {
		// the owner calls somebody's contract, which asks the precompile to cancel: the precompile's caller is
		// the contract, not the owner (forwarder: fails when the inner call fails)
		if r.fwd == (common.Address{}) {
			if a, err := r.c.Deploy(r.c.Users[3], evmasm.Forwarder(evmasm.CALL)); err == nil {
				r.fwd = a
			}
		}
		pc := fix.PrecompileCrosschain()
		er := r.c.EthTx(owner, &r.fwd, evmasm.ForwardData(pc, fix.PackCrosschain("cancelSendToExternal", cn, new(big.Int).SetUint64(id))), nil, 3_000_000)
		ok, errStr = !er.Failed(), er.VmError()
		third = true
		r.res.Count("cancels_through_a_contract", 1)
	} else if kind <= 2 {
		pc := fix.PrecompileCrosschain()
		er := r.c.EthTx(who, &pc, fix.PackCrosschain("cancelSendToExternal", cn, new(big.Int).SetUint64(id)), nil, 3_000_000)
		ok, errStr = !er.Failed(), er.VmError()
	} else {
		res := b.CancelSend(who, id)
		ok, errStr = res.OK(), res.ErrString()
	}
	op := fmt.Sprintf("cancel %s id=%d (was %s) by %s third=%v -> %s", cn, id, x.Loc, who.Label, third, short(errStr))
	r.logf(op)
	wasPool := x.Loc == "pool"
	if ok {
		r.res.Count("cancels_ok", 1)
		r.liq(cn, t.Base, x.Amount.Add(x.Fee))
		if r.c05 {
			if third {
				r.res.Violate("C05/third-party-cancel-accepted", "%s", op)
			}
			if !wasPool {
				r.res.Violate("C05/cancel-of-non-pooled-transfer-accepted", "%s", op)
			}
		}
		r.expectDeltas(op, before, []delta{{t.Base, owner.Label, x.Amount.Add(x.Fee)}})
		r.sync(cn, op, "pool>refunded")
		if x.Loc != "refunded" && r.c05 {
			r.res.Violate("C05/cancel-did-not-settle", "%s: transfer is now %s", op, x.Loc)
		}
	} else {
		if third {
			r.res.Count("third_party_cancels_rejected", 1)
		}
		r.expectDeltas(op, before, nil)
		r.sync(cn, op)
	}
}

func (r *poolRun) opIncreaseFee(cn string) {
	b := r.bridge(cn)
	ids := r.poolIDs(cn, "")
	if len(ids) == 0 {
		return
	}
	id := ids[r.rng.IntN(len(ids))]
	x := r.model[cn][id]
	owner, _ := r.keyOf(x.Owner)
	t := r.tokenByExt(cn, x.Token)
	add := sdkmath.NewInt(int64(1 + r.rng.IntN(30)))
	who := owner
	if r.rng.IntN(5) == 0 {
		who = r.user()
	}
	before := r.snapshot()
	if r.rng.IntN(6) == 0 {
		// the added fee offered in another token of the same chain: refused, nothing changes
		for _, o := range r.tokensOn(cn) {
			if o.Base == t.Base || o.Kind == fix.KindFX || o.Denom[cn] == "" {
				continue
			}
			if cv := r.c.Msg(&erc20types.MsgConvertDenom{Sender: who.Bech32(), Receiver: who.Bech32(), Coin: sdk.NewCoin(o.Base, add), Target: cn}); !cv.OK() {
				break
			}
			res := b.IncreaseFee(who, id, sdk.NewCoin(o.Denom[cn], add))
			op := fmt.Sprintf("increase-fee %s id=%d (%s) +%s of another token (%s) by %s -> %s", cn, id, t.Symbol, add, o.Symbol, who.Label, short(res.ErrString()))
			r.logf(op)
			r.res.Count("fee_increases_in_another_token", 1)
			if res.OK() {
				r.v05("C05/fee-in-another-token-accepted", "%s", op)
			}
			r.expectDeltas(op, before, nil)
			r.sync(cn, op)
			return
		}
	}
	// the message takes the fee in the bridge denomination; a holder converts base -> bridge denom first
	feeDenom := t.Denom[cn]
	if t.Kind == fix.KindFX {
		feeDenom = fxtypes.DefaultDenom
	} else {
		cv := r.c.Msg(&erc20types.MsgConvertDenom{Sender: who.Bech32(), Receiver: who.Bech32(), Coin: sdk.NewCoin(t.Base, add), Target: cn})
		if !cv.OK() {
			r.logf("convert-denom for fee: %s", short(cv.ErrString()))
			r.expectDeltas("convert-denom", before, nil)
			r.sync(cn, "convert-denom")
			return
		}
	}
	res := b.IncreaseFee(who, id, sdk.NewCoin(feeDenom, add))
	op := fmt.Sprintf("increase-fee %s id=%d +%s by %s -> %s", cn, id, add, who.Label, short(res.ErrString()))
	r.logf(op)
	if res.OK() {
		r.res.Count("fee_increases_ok", 1)
		r.liq(cn, t.Base, add.Neg())
		r.expectDeltas(op, before, []delta{{t.Base, who.Label, add.Neg()}})
		oldFee := x.Fee
		r.sync(cn, op, "fee")
		if r.c05 && !x.Fee.Equal(oldFee.Add(add)) {
			r.res.Violate("C05/fee-increase-amount", "%s: fee went %s -> %s", op, oldFee, x.Fee)
		}
	} else {
		r.expectDeltas(op, before, nil)
		r.sync(cn, op)
	}
}

func (r *poolRun) opRequestBatch(cn string) {
	b := r.bridge(cn)
	t := r.pickToken(cn)
	base := sdkmath.NewInt(int64(r.rng.IntN(15)))
	min := sdkmath.NewInt(int64(1 + r.rng.IntN(40)))
	if r.forceToken != nil {
		base, min = sdkmath.ZeroInt(), sdkmath.OneInt()
	}
	before := r.snapshot()
	poolBefore := map[uint64]bool{}
	for _, id := range r.poolIDs(cn, "") {
		if r.model[cn][id].Token == t.ExtStr(cn) {
			poolBefore[id] = true
		}
	}
	n, res := b.RequestBatch(b.Oracles[r.rng.IntN(len(b.Oracles))], t.Denom[cn], min, base, r.c.Users[3].Hex())
	op := fmt.Sprintf("request-batch %s %s base=%s min=%s -> nonce=%d %s", cn, t.Symbol, base, min, n, short(res.ErrString()))
	r.logf(op)
	r.expectDeltas(op, before, nil)
	if res.OK() {
		r.res.Count("batches_created", 1)
		r.sync(cn, op, "pool>batch")
		if r.c05 {
			total := sdkmath.ZeroInt()
			cnt := 0
			for _, x := range r.model[cn] {
				if x.Loc == fmt.Sprintf("batch:%d", n) {
					cnt++
					total = total.Add(x.Fee)
					if x.Fee.LT(base) {
						r.res.Violate("C05/batch-below-base-fee", "%s: transfer %d with fee %s batched below base fee", op, x.ID, x.Fee)
					}
					if !poolBefore[x.ID] {
						r.res.Violate("C05/batched-transfer-not-from-pool", "%s: transfer %d was not waiting in the pool", op, x.ID)
					}
				}
			}
			if cnt == 0 || cnt > 100 || total.LT(min) {
				r.res.Violate("C05/batch-shape", "%s: batch holds %d transfers with total fee %s", op, cnt, total)
			}
		}
	} else {
		r.sync(cn, op)
	}
}

// opBatchExternal: the external chain executes some live batch (possibly out of order,
// possibly at the last legal height) and the oracles deliver the event, now or later.
func (r *poolRun) opBatchExternal(cn string) {
	b := r.bridge(cn)
	bts := b.Batches()
	if len(bts) == 0 {
		return
	}
	bt := bts[r.rng.IntN(len(bts))]
	e := r.ext[cn]
	// pick the external height of execution: sweep around the timeout
	h := b.ExtHeight + 1
	switch r.rng.IntN(4) {
	case 0:
		if bt.BatchTimeout > b.ExtHeight+1 {
			h = bt.BatchTimeout - 1 // last legal height
		}
	case 1:
		h = bt.BatchTimeout + uint64(r.rng.IntN(3)) // too late: the contract refuses
	}
	if h <= b.ExtHeight {
		h = b.ExtHeight + 1
	}
	accepted := bt.BatchNonce > e.lastBatchNonce[bt.TokenContract] && h < bt.BatchTimeout
	b.ExtHeight = h
	if !accepted {
		r.logf("external chain refuses batch %d of %s at height %d (timeout %d, last executed %d)", bt.BatchNonce, cn, h, bt.BatchTimeout, e.lastBatchNonce[bt.TokenContract])
		return
	}
	if bt.BatchNonce > e.lastBatchNonce[bt.TokenContract]+1 {
		r.nontrivial["out-of-order-execution"] = true
	}
	e.lastBatchNonce[bt.TokenContract] = bt.BatchNonce
	key := cn + "/" + bt.TokenContract
	if r.batchExecutedExt[key] == nil {
		r.batchExecutedExt[key] = map[uint64]bool{}
	}
	r.batchExecutedExt[key][bt.BatchNonce] = true
	b.EventNonce++
	n := b.EventNonce
	tok := r.tokenByExt(cn, bt.TokenContract)
	before := r.snapshot()
	sum := sdkmath.ZeroInt()
	for _, tx := range bt.Transactions {
		sum = sum.Add(tx.Token.Amount).Add(tx.Fee.Amount)
	}
	op := fmt.Sprintf("batch-executed %s nonce=%d at ext height %d (timeout %d)", cn, bt.BatchNonce, h, bt.BatchTimeout)
	finish := func() {}
	if r.rng.IntN(4) == 0 {
		var ok bool
		if ok, finish = r.splitObservation(cn, n, bt.BatchTimeout, func(height uint64) fix.ClaimFn { return b.SendToExternalClaim(n, height, bt.BatchNonce, tok.Ext[cn]) }, h, op); !ok {
			return
		}
	} else if !r.quorum(cn, b.SendToExternalClaim(n, h, bt.BatchNonce, tok.Ext[cn]), op) {
		r.sync(cn, "batch-executed-blocked", observeAllow...)
		return
	}
	defer finish()
	r.logf(op)
	r.nontrivial["batch-executed"] = true
	r.withdrawn[tok.Base] = r.withdrawn[tok.Base].Add(sum)
	// an execution may cancel older batches of the token and the clean-up may release others
	st := r.readStores(cn)
	var want []delta
	for cnn, cr := range r.calls[cn] {
		if _, still := st.calls[cnn]; !still && cr.Loc == "open" {
			want = append(want, r.callRefundDeltas(cn, cr)...)
		}
	}
	r.expectDeltas(op, before, want)
	r.execToken, r.execNonce = bt.TokenContract, bt.BatchNonce
	r.sync(cn, op, "batch>executed", "batch>pool", "call>refunded", "timeout-path")
	if r.c05 {
		for _, x := range r.model[cn] {
			if x.Loc == fmt.Sprintf("batch:%d", bt.BatchNonce) {
				r.res.Violate("C05/executed-batch-still-stored", "%s: transfer %d is still in the executed batch", op, x.ID)
			}
		}
	}
}

// splitObservation delivers the event (nonce n, true external height h) the way a disagreeing oracle set does:
// most of a quorum-sized group reports it as it happened, one member of the group reports it one block later (a
// different claim), and before the stragglers settle it the same group already reports the NEXT event, which
// happened at or past the given timeout. Events are observed in nonce order, so that later event has to wait
// although it has the votes; only then do the stragglers vote. finish (to be called when the caller has done
// its own accounting for event n) lets the stragglers vote the later event too and executes it.
func (r *poolRun) splitObservation(cn string, n, timeout uint64, mk func(height uint64) fix.ClaimFn, h uint64, op string) (bool, func()) {
	b := r.bridge(cn)
	nop := func() {}
	var online []*fix.Oracle
	total := sdkmath.ZeroInt()
	power := map[*fix.Oracle]sdkmath.Int{}
	for _, o := range b.Oracles {
		if rec, ok := b.K.GetOracle(r.c.Ctx, o.Oracle.Acc()); ok && rec.Online {
			online = append(online, o)
			power[o] = rec.GetPower()
			total = total.Add(rec.GetPower())
		}
	}
	enough := func(p sdkmath.Int) bool { return p.MulRaw(100).GTE(total.MulRaw(66)) }
	var group []*fix.Oracle
	gp := sdkmath.ZeroInt()
	for _, o := range online {
		if enough(gp) {
			break
		}
		group = append(group, o)
		gp = gp.Add(power[o])
	}
	rest := online[len(group):]
	if len(group) < 2 || len(rest) == 0 || enough(gp.Sub(power[group[len(group)-1]])) || !enough(total.Sub(power[group[len(group)-1]])) {
		return r.quorum(cn, mk(h), op), nop // the stakes do not allow the split: ordinary delivery
	}
	vote := func(o *fix.Oracle, fn fix.ClaimFn, what string) bool {
		if res := b.Vote(o, fn); !res.OK() {
			r.logf("%s: %s", what, short(res.ErrString()))
			return false
		}
		return true
	}
	late := group[len(group)-1]
	for _, o := range group[:len(group)-1] {
		if !vote(o, mk(h), "split vote") {
			return false, nop
		}
	}
	if !vote(late, mk(h+1), "split vote (one block later)") {
		return false, nop
	}
	r.res.Count("split_observations", 1)
	// the next event, at or past the timeout, reported by the whole group
	if b.ExtHeight < timeout+1 {
		b.ExtHeight = timeout + 1
	}
	n2, h2 := b.NextEvent()
	t := r.pickToken(cn)
	u := r.user()
	amt := sdkmath.NewInt(int64(100 + r.rng.IntN(900)))
	dep := b.SendToFxClaim(n2, h2, t.Ext[cn], amt, u.Hex(), u.Acc(), "")
	before := r.snapshot()
	for _, o := range group {
		if !vote(o, dep, "later event") {
			return false, nop
		}
	}
	if got := b.K.GetLastObservedEventNonce(r.c.Ctx); got >= n {
		r.v06("C06/event-observed-out-of-order", "%s: event %d (external height %d) was observed while event %d is still disputed; last observed nonce is now %d", op, n2, h2, n, got)
	}
	r.afterObservation(cn, fmt.Sprintf("%s: later event %d at ext height %d has the votes and waits", op, n2, h2), before)
	// the stragglers settle the disputed event
	for _, o := range rest {
		if !vote(o, mk(h), "straggler") {
			return false, nop
		}
	}
	return true, func() {
		before := r.snapshot()
		for _, o := range rest {
			vote(o, dep, "straggler, later event")
		}
		r.afterObservation(cn, fmt.Sprintf("deposit-observed %s n=%d (after the split vote)", t.Symbol, n2), before)
		before = r.snapshot()
		er := b.ExecuteClaim(r.c.Users[3], n2)
		op2 := fmt.Sprintf("deposit-execute %s %s to %s (after the split vote) -> %s", cn, amt, u.Label, short(er.VmError()))
		if er.Failed() {
			r.expectDeltas(op2, before, nil)
		} else {
			r.res.Count("deposits_executed", 1)
			r.deposited[t.Base] = r.deposited[t.Base].Add(amt)
			r.liq(cn, t.Base, amt)
			r.expectDeltas(op2, before, []delta{{t.Base, u.Label, amt}})
		}
		r.sync(cn, op2)
	}
}

// opAdvanceAndObserve: the external chain moves on; some unrelated event is observed so
// that fxcore learns the new height (the only trigger of the timeout clean-up).
func (r *poolRun) opAdvanceAndObserve(cn string) {
	b := r.bridge(cn)
	// jump close to / past a live timeout
	var targets []uint64
	for _, bt := range b.Batches() {
		targets = append(targets, bt.BatchTimeout)
	}
	for _, oc := range b.Calls() {
		targets = append(targets, oc.Timeout)
	}
	if len(targets) > 0 && r.rng.IntN(3) != 0 {
		t := targets[r.rng.IntN(len(targets))]
		h := t - 2 + uint64(r.rng.IntN(5))
		if h > b.ExtHeight {
			b.ExtHeight = h - 1 // NextEvent adds one
		}
	} else {
		b.ExtHeight += uint64(r.rng.IntN(50))
	}
	r.opDeposit(cn)
}

func (r *poolRun) opBridgeCallOut(cn string) {
	b := r.bridge(cn)
	t := r.pickToken(cn)
	if t.Kind == fix.KindExternal && !r.spec.ExtCalls {
		return // bridge calls of the externally-owned token end in the known refund panic; only 1 case in 4 goes there
	}
	u := r.user()
	refund := u
	if r.rng.IntN(3) == 0 {
		refund = r.user()
	}
	before := r.snapshot()
	var ok bool
	var errStr string
	amt := sdkmath.NewInt(int64(1 + r.rng.IntN(500)))
	viaEVM := r.rng.IntN(2) == 0 && t.Kind != fix.KindFX
	data := []byte{byte(r.rng.IntN(256)), 1}
	memo := []byte{}
	if r.rng.IntN(2) == 0 {
		memo = []byte{7, byte(r.rng.IntN(256))}
	}
	to := r.c.Users[3].Hex()
	if viaEVM {
		if r.c.ERC20Balance(r.c.Ctx, t.ERC20, u.Hex()).Cmp(amt.BigInt()) < 0 {
			return
		}
		pc := fix.PrecompileCrosschain()
		toks, amts := []common.Address{t.ERC20}, []*big.Int{amt.BigInt()}
		if r.rng.IntN(4) == 0 && amt.GT(sdkmath.OneInt()) {
			// the same token named twice (a contract that assembles the list from two sources): the call carries the sum
			first := sdkmath.NewInt(int64(1 + r.rng.IntN(int(amt.Int64()-1))))
			toks, amts = []common.Address{t.ERC20, t.ERC20}, []*big.Int{first.BigInt(), amt.Sub(first).BigInt()}
			r.res.Count("bridge_calls_naming_a_token_twice", 1)
		}
		er := r.c.EthTx(u, &pc, fix.PackCrosschain("bridgeCall", cn, refund.Hex(), toks, amts, to, data, big.NewInt(0), memo), nil, 3_000_000)
		ok, errStr = !er.Failed(), er.VmError()
	} else {
		if r.c.Balance(r.c.Ctx, u.Acc(), t.Base).LT(amt) {
			return
		}
		res := b.BridgeCallMsg(u, refund.Acc(), sdk.NewCoins(sdk.NewCoin(t.Base, amt)), to, data, memo)
		ok, errStr = res.OK(), res.ErrString()
	}
	op := fmt.Sprintf("bridge-call-out %s %s %s by %s refund=%s evm=%v -> %s", cn, t.Symbol, amt, u.Label, refund.Label, viaEVM, short(errStr))
	r.logf(op)
	if ok {
		r.res.Count("bridge_calls_out", 1)
		r.liq(cn, t.Base, amt.Neg())
		r.expectDeltas(op, before, []delta{{t.Base, u.Label, amt.Neg()}})
		r.sync(cn, op, "newcall")
		if cr := r.calls[cn][r.maxCall[cn]]; cr != nil && r.c05 {
			cr.FromMsg = !viaEVM
			// (entries of one contract may be stored merged or one by one: what the call carries is their sum)
			sum, foreign := sdkmath.ZeroInt(), false
			for _, tk := range cr.Tokens {
				if tk.Contract == t.ExtStr(cn) {
					sum = sum.Add(tk.Amount)
				} else {
					foreign = true
				}
			}
			if cr.Sender != fix.ExtAddr(cn, u.Hex()) || cr.Refund != fix.ExtAddr(cn, refund.Hex()) || cr.To != fix.ExtAddr(cn, to) || foreign || !sum.Equal(amt) ||
				cr.Data != fmt.Sprintf("%x", data) || cr.Memo != fmt.Sprintf("%x", memo) {
				r.res.Violate("C05/queued-bridge-call-differs-from-request", "%s: stored call %+v", op, *cr)
			}
		}
	} else {
		r.expectDeltas(op, before, nil)
		r.sync(cn, op)
	}
}

// opBridgeCallResult: the external chain runs (or refuses) an open bridge call; the
// result event is observed and the parked claim executed.
func (r *poolRun) opBridgeCallResult(cn string) {
	b := r.bridge(cn)
	var open []uint64
	for n, cr := range r.calls[cn] {
		if cr.Loc == "open" && !r.ext[cn].callResulted[n] {
			open = append(open, n)
		}
	}
	if len(open) == 0 {
		return
	}
	sortU64(open)
	cnn := open[r.rng.IntN(len(open))]
	cr := r.calls[cn][cnn]
	h := b.ExtHeight + 1
	if r.rng.IntN(3) == 0 && cr.Timeout > h {
		h = cr.Timeout - 1
	}
	if h >= cr.Timeout {
		return // the contract refuses: nothing happens externally
	}
	b.ExtHeight = h
	success := r.rng.IntN(2) == 0
	r.ext[cn].callResulted[cnn] = true
	r.ext[cn].callDone[cnn] = success
	b.EventNonce++
	n := b.EventNonce
	before := r.snapshot()
	if !r.quorum(cn, b.BridgeCallResultClaim(n, h, cnn, success, r.c.Users[3].Hex()), "bridge-call-result") {
		r.sync(cn, "bridge-call-result-blocked", observeAllow...)
		return
	}
	r.afterObservation(cn, fmt.Sprintf("bridge-call-result-observed %s call=%d", cn, cnn), before)
	if cr.Loc != "open" {
		// released by the clean-up inside the observing vote although the external chain ran it
		return
	}
	if r.rng.IntN(3) == 0 {
		// an observed result is only parked: anybody may execute it later. Until then the call record stays
		if r.parkedResults == nil {
			r.parkedResults = map[string][]parkedResult{}
		}
		r.parkedResults[cn] = append(r.parkedResults[cn], parkedResult{event: n, call: cnn, success: success})
		r.res.Count("results_parked", 1)
		return
	}
	r.executeResult(cn, n, cnn, success)
}

type parkedResult struct {
	event, call uint64
	success     bool
}

// opExecuteParked: somebody executes a bridge-call result that was observed earlier.
func (r *poolRun) opExecuteParked(cn string) {
	ps := r.parkedResults[cn]
	if len(ps) == 0 {
		return
	}
	i := r.rng.IntN(len(ps))
	p := ps[i]
	r.parkedResults[cn] = append(append([]parkedResult{}, ps[:i]...), ps[i+1:]...)
	r.res.Count("parked_results_executed", 1)
	r.executeResult(cn, p.event, p.call, p.success)
}

func (r *poolRun) executeResult(cn string, n, cnn uint64, success bool) {
	b := r.bridge(cn)
	cr := r.calls[cn][cnn]
	before := r.snapshot()
	er := b.ExecuteClaim(r.c.Users[3], n)
	op := fmt.Sprintf("bridge-call-result-execute %s call=%d success=%v -> %s", cn, cnn, success, short(er.VmError()))
	r.logf(op)
	if er.Failed() {
		r.expectDeltas(op, before, nil)
		r.sync(cn, op)
		return
	}
	if success {
		r.nontrivial["call-executed"] = true
		for _, tk := range cr.Tokens {
			if t := r.tokenByExt(cn, tk.Contract); t != nil {
				r.withdrawn[t.Base] = r.withdrawn[t.Base].Add(tk.Amount)
			}
		}
		r.expectDeltas(op, before, nil)
		r.sync(cn, op, "call>executed", fmt.Sprintf("only-call#%d", cnn))
	} else {
		// the external execution failed: nothing left the bridge, the caller is refunded
		r.ext[cn].callDone[cnn] = false // (it never was: a failed external execution moves nothing)
		r.expectDeltas(op, before, r.callRefundDeltas(cn, cr))
		r.sync(cn, op, "call>refunded", fmt.Sprintf("only-call#%d", cnn))
	}
	// the call this result is about is settled by it: it does not stay queued
	if _, still := r.readStores(cn).calls[cnn]; still {
		r.v05("C05/settled-bridge-call-still-stored", "%s: the result of bridge call %d was executed (external success=%v) but the call is still stored as outgoing", op, cnn, success)
	}
}

func (r *poolRun) opConvert() {
	t := r.w.Tokens[r.rng.IntN(len(r.w.Tokens))]
	u := r.user()
	before := r.snapshot()
	var res chain.Result
	if r.rng.IntN(2) == 0 {
		bal := r.c.Balance(r.c.Ctx, u.Acc(), t.Base)
		if !bal.IsPositive() {
			return
		}
		res = r.c.Msg(&erc20types.MsgConvertCoin{Coin: sdk.NewCoin(t.Base, bal.QuoRaw(3).AddRaw(1)), Receiver: u.Hex().Hex(), Sender: u.Bech32()})
	} else {
		bal := r.c.ERC20Balance(r.c.Ctx, t.ERC20, u.Hex())
		if bal.Sign() == 0 {
			return
		}
		res = r.c.Msg(&erc20types.MsgConvertERC20{ContractAddress: t.ERC20.Hex(), Amount: sdkmath.NewIntFromBigInt(bal).QuoRaw(3).AddRaw(1), Receiver: u.Bech32(), Sender: u.Hex().Hex()})
	}
	op := fmt.Sprintf("convert %s by %s -> %s", t.Symbol, u.Label, short(res.ErrString()))
	r.expectDeltas(op, before, nil)
	for _, cn := range r.spec.Chains {
		r.syncModel(cn, op, map[string]bool{})
	}
}

func (r *poolRun) opEndBlock() {
	before := r.snapshot()
	if _, err := r.c.Next(); err != nil {
		r.res.Inconclusive = "block failed (C07 territory): " + short(err.Error())
		return
	}
	r.expectDeltas("end-block", before, nil)
	for _, cn := range r.spec.Chains {
		r.syncModel(cn, "end-block", map[string]bool{})
	}
}

// checkConservation: users + in flight = initial + deposits executed - withdrawals executed externally.
func (r *poolRun) checkConservation(what string) {
	r.res.Count("conservation_checks", 1)
	for _, t := range r.w.Tokens {
		inflight := sdkmath.ZeroInt()
		for _, cn := range sortedChains(t.Denom) {
			if _, ok := r.w.Bridges[cn]; !ok {
				continue
			}
			st := r.readStores(cn)
			ext := t.ExtStr(cn)
			for _, tx := range st.pool {
				if tx.Token.Contract == ext {
					inflight = inflight.Add(tx.Token.Amount).Add(tx.Fee.Amount)
				}
			}
			for _, bt := range st.batches {
				if bt.TokenContract == ext {
					for _, tx := range bt.Transactions {
						inflight = inflight.Add(tx.Token.Amount).Add(tx.Fee.Amount)
					}
				}
			}
			for _, oc := range st.calls {
				for _, tk := range oc.Tokens {
					if tk.Contract == ext {
						inflight = inflight.Add(tk.Amount)
					}
				}
			}
		}
		lhs := r.sumUsers(t).Add(inflight)
		rhs := r.u0[t.Base].Add(r.deposited[t.Base]).Sub(r.withdrawn[t.Base])
		if !lhs.Equal(rhs) {
			r.res.Violate("C04/conservation/"+string(t.Kind), "%s: token group %s: users %s + in flight %s = %s, but initial %s + deposits %s - executed withdrawals %s = %s",
				what, t.Base, r.sumUsers(t), inflight, lhs, r.u0[t.Base], r.deposited[t.Base], r.withdrawn[t.Base], rhs)
		}
	}
}

// withdrawProbe: on one branch per (token, chain) all holders, one after the other, convert
// their ERC-20 balance to the coin and ask to send their whole balance out over a chain.
// As long as the running total stays within what the model says came in over that chain
// and is not committed to leave, a refusal means bridge-side funds are missing.
func (r *poolRun) withdrawProbe() {
	for _, t := range r.w.Tokens {
		for _, cn := range sortedChains(t.Denom) {
			if _, ok := r.w.Bridges[cn]; !ok || r.stuck[cn] {
				continue
			}
			br := r.c.Branch()
			avail := r.netDeposited(cn, t)
			for _, u := range r.users {
				if erc := r.c.ERC20Balance(br, t.ERC20, u.Hex()); erc.Sign() > 0 && t.Kind != fix.KindFX {
					r.c.MsgOn(br, &erc20types.MsgConvertERC20{ContractAddress: t.ERC20.Hex(), Amount: sdkmath.NewIntFromBigInt(erc), Receiver: u.Bech32(), Sender: u.Hex().Hex()})
				}
				bal := r.c.Balance(br, u.Acc(), t.Base)
				if bal.LTE(sdkmath.NewInt(2)) {
					continue
				}
				if t.Kind != fix.KindFX {
					if bal.GT(avail) {
						bal = avail
					}
					if bal.LTE(sdkmath.NewInt(2)) {
						continue
					}
					avail = avail.Sub(bal)
				}
				r.res.Count("withdraw_probes", 1)
				res := r.c.MsgOn(br, &crosschaintypes.MsgSendToExternal{Sender: u.Bech32(), Dest: fix.ExtAddr(cn, r.c.Users[3].Hex()), Amount: sdk.NewCoin(t.Base, bal.SubRaw(1)), BridgeFee: sdk.NewCoin(t.Base, sdkmath.OneInt()), ChainName: cn})
				if !res.OK() {
					esc := r.c.Balance(br, chain.ModuleAddr(cn), t.Denom[cn])
					r.res.Violate("C04/withdraw-refused/"+string(t.Kind)+r.refundTag(cn, t), "%s asks to send %s %s (within the %s that came in over %s and are not committed to leave) and is refused: %s (the %s module account holds %s of the bridge denomination, the erc20 module account %s)",
						u.Label, bal, t.Base, r.netDeposited(cn, t), cn, short(res.ErrString()), cn, esc, r.c.Balance(br, chain.ModuleAddr("erc20"), t.Denom[cn]))
				}
			}
		}
	}
}

// refundTag marks histories in which a bridge-call refund of this token happened on this
// chain before (the refund path parks the bridge-side escrow in another module account).
func (r *poolRun) refundTag(cn string, t *fix.WToken) string {
	if r.refunded[cn+"/"+t.Base] {
		return "/after-bridge-call-refund"
	}
	return ""
}

// netDeposited: what the model says came in over chain cn for token t and has not left through it.
func (r *poolRun) netDeposited(cn string, t *fix.WToken) sdkmath.Int {
	if v, ok := r.perChainIn[cn+"/"+t.Base]; ok {
		return v
	}
	return sdkmath.ZeroInt()
}

// sortedChains: fixed iteration order (a history must be a function of the seed only).
func sortedChains(m map[string]string) []string {
	out := make([]string, 0, len(m))
	for k := range m {
		out = append(out, k)
	}
	sort.Strings(out)
	return out
}

// opLongPark: a deposit is observed and nobody executes it while more than a hundred later events of that
// chain are observed and executed (the attestation of the deposit is pruned meanwhile); then it is executed.
func (r *poolRun) opLongPark(cn string) {
	b := r.bridge(cn)
	var t *fix.WToken
	for _, x := range r.tokensOn(cn) {
		if x.Kind == fix.KindModule {
			t = x
		}
	}
	if t == nil {
		return
	}
	u, v := r.users[0], r.users[1%len(r.users)]
	big1 := sdkmath.NewInt(int64(50_000 + r.rng.IntN(50_000)))
	n0, h0 := b.NextEvent()
	before := r.snapshot()
	if !r.quorum(cn, b.SendToFxClaim(n0, h0, t.Ext[cn], big1, u.Hex(), u.Acc(), ""), "long-parked deposit") {
		return
	}
	r.afterObservation(cn, fmt.Sprintf("deposit-observed %s n=%d (left unexecuted)", t.Symbol, n0), before)
	k := int(crosschaintypes.MaxKeepEventSize) + 3 + r.rng.IntN(6)
	for i := 0; i < k; i++ {
		n, h := b.NextEvent()
		before = r.snapshot()
		one := sdkmath.NewInt(int64(1 + i%3))
		if !r.quorum(cn, b.SendToFxClaim(n, h, t.Ext[cn], one, v.Hex(), v.Acc(), ""), "filler deposit") {
			return
		}
		r.afterObservation(cn, fmt.Sprintf("deposit-observed %s n=%d (filler %d/%d)", t.Symbol, n, i+1, k), before)
		before = r.snapshot()
		op := fmt.Sprintf("deposit-execute %s %s to %s (filler %d/%d)", cn, one, v.Label, i+1, k)
		if er := b.ExecuteClaim(r.c.Users[3], n); er.Failed() {
			r.expectDeltas(op+" -> "+short(er.VmError()), before, nil)
		} else {
			r.res.Count("deposits_executed", 1)
			r.deposited[t.Base] = r.deposited[t.Base].Add(one)
			r.liq(cn, t.Base, one)
			r.expectDeltas(op, before, []delta{{t.Base, v.Label, one}})
		}
		r.sync(cn, op)
	}
	before = r.snapshot()
	er := b.ExecuteClaim(r.c.Users[3], n0)
	op := fmt.Sprintf("deposit-execute %s %s to %s, observed %d events ago -> %s", cn, big1, u.Label, k, short(er.VmError()))
	r.logf(op)
	r.res.Count("long_parked_deposits", 1)
	if er.Failed() {
		if r.c04 {
			r.res.Violate("C04/observed-deposit-lost", "%s: a deposit that a quorum observed can no longer be executed", op)
		}
		r.expectDeltas(op, before, nil)
	} else {
		r.res.Count("deposits_executed", 1)
		r.deposited[t.Base] = r.deposited[t.Base].Add(big1)
		r.liq(cn, t.Base, big1)
		r.expectDeltas(op, before, []delta{{t.Base, u.Label, big1}})
	}
	r.sync(cn, op)
}

// opFlood: more transfers of one token wait in the pool than one batch can take; then a batch is requested.
func (r *poolRun) opFlood(cn string) {
	b := r.bridge(cn)
	var t *fix.WToken
	for _, x := range r.tokensOn(cn) {
		if x.Kind == fix.KindModule {
			t = x
		}
	}
	if t == nil {
		return
	}
	u := r.users[0]
	n, h := b.NextEvent()
	if !r.quorum(cn, b.SendToFxClaim(n, h, t.Ext[cn], sdkmath.NewInt(1_000_000), u.Hex(), u.Acc(), ""), "flood deposit") {
		return
	}
	before := r.snapshot()
	if er := b.ExecuteClaim(r.c.Users[3], n); er.Failed() {
		return
	}
	r.deposited[t.Base] = r.deposited[t.Base].Add(sdkmath.NewInt(1_000_000))
	r.liq(cn, t.Base, sdkmath.NewInt(1_000_000))
	r.expectDeltas("deposit-execute flood", before, []delta{{t.Base, u.Label, sdkmath.NewInt(1_000_000)}})
	r.sync(cn, "deposit-execute flood")
	k := 101 + r.rng.IntN(8)
	for i := 0; i < k; i++ {
		before = r.snapshot()
		amt, fee := sdkmath.NewInt(int64(10+i)), sdkmath.NewInt(int64(1+i%3))
		_, res := b.SendToExternal(u, r.c.Users[3].Hex(), sdk.NewCoin(t.Base, amt), sdk.NewCoin(t.Base, fee))
		op := fmt.Sprintf("send %s %s %s+%s by %s (flood %d/%d) -> %s", cn, t.Symbol, amt, fee, u.Label, i+1, k, short(res.ErrString()))
		if !res.OK() {
			r.expectDeltas(op, before, nil)
			r.sync(cn, op)
			continue
		}
		r.liq(cn, t.Base, amt.Add(fee).Neg())
		r.expectDeltas(op, before, []delta{{t.Base, u.Label, amt.Add(fee).Neg()}})
		r.sync(cn, op, "new")
	}
	r.res.Count("pool_floods", 1)
	r.forceToken = t
	r.opRequestBatch(cn)
	r.forceToken = nil
}
