package mon

import (
	"encoding/json"
	"fmt"
	"math/big"
	"math/rand/v2"
	"strings"
	"time"

	sdkmath "cosmossdk.io/math"
	storetypes "cosmossdk.io/store/types"
	abci "github.com/cometbft/cometbft/abci/types"
	sdk "github.com/cosmos/cosmos-sdk/types"
	"github.com/ethereum/go-ethereum/common"

	fxtypes "github.com/functionx/fx-core/v8/types"
	crosschaintypes "github.com/functionx/fx-core/v8/x/crosschain/types"

	"verif/harness/chain"
	"verif/harness/core"
	"verif/harness/evmasm"
	"verif/harness/fix"
)

// The "votes" workload: N oracles of one bridged chain vote on an external event
// stream with competing claims per nonce, run ahead / lag / re-vote / skip, get slashed,
// re-bond, are removed and re-admitted by governance, while third parties execute the
// parked claims. Two online checkers watch it after every operation:
//   C01 (nonceMonitor): exactly-once, in-order application of event nonces
//   C02 (quorumMonitor): 66% quorum of distinct, online, registered oracles; total power

type votesSpec struct {
	Seed    uint64 `json:"seed"`
	Chain   string `json:"chain"`
	N       int    `json:"n"`
	M       int    `json:"m"`     // event nonces in the stream
	Steps   int    `json:"steps"` // scheduler steps
	Stake   string `json:"stake"` // stake distribution: equal | boundary | random | frac
	Signed  bool   `json:"signed"`
	Churn   bool   `json:"churn"`
	Window  uint64 `json:"window"`
	Variant int    `json:"variant"`
}

var unit = sdkmath.NewIntFromBigInt(new(big.Int).Exp(big.NewInt(10), big.NewInt(20), nil)) // one unit of oracle power

func votesCases(seed uint64, tier string, prop string) []core.Case {
	rng := core.Rng(seed, 0xC01)
	n := 48
	if tier == "thorough" {
		n = 600
	}
	chains := []string{"eth", "bsc", "tron", "polygon", "layer2"}
	stakes := []string{"equal", "boundary", "random", "frac", "boundary", "random"}
	var out []core.Case
	for i := 0; i < n; i++ {
		s := votesSpec{
			Seed:   rng.Uint64(),
			Chain:  chains[i%len(chains)],
			N:      3 + rng.IntN(6),
			M:      8 + rng.IntN(10),
			Steps:  140 + rng.IntN(120),
			Stake:  stakes[i%len(stakes)],
			Signed: i%4 == 1,
			Churn:  i%3 != 2,
			Window: uint64(4 + rng.IntN(8)),
		}
		if tier == "thorough" && i%7 == 0 {
			s.N = 9 + rng.IntN(22)
			s.Steps = 300 + rng.IntN(300)
			s.M = 15 + rng.IntN(20)
		}
		out = append(out, core.MkCase(fmt.Sprintf("%s-votes-%03d", prop, i), s))
	}
	return out
}

// event is one external event with its competing claim variants (variant 0 = truth).
type event struct {
	Nonce    uint64
	Height   uint64
	Kind     string
	Variants []fix.ClaimFn
	// effects for executed-once accounting (variant 0)
	Receiver sdk.AccAddress
	Amount   sdkmath.Int
	ToERC20  bool
}

type oracleModel struct {
	lifetime  int
	voted     map[int][]uint64 // lifetime -> accepted vote nonces in order
	votedAt   map[uint64]int   // nonce -> lifetime in which it was last accepted
	variantOf map[uint64]int   // which variant this oracle is assigned for nonce
	lazy      bool             // does not confirm oracle sets (gets slashed)
	removed   bool
}

type votesRun struct {
	staleBridger map[int]chain.Key         // oracle index -> the bridger key of an earlier bonding lifetime
	variantVoted map[string]map[uint64]int // oracle address -> nonce -> claim variant of its latest accepted vote
	curNonce     uint64
	curVariant   int
	spec         votesSpec
	rng          *rand.Rand
	c            *chain.Chain
	b            *fix.Bridge
	res          *core.CaseResult
	verb         bool
	ev           []*event
	om           []*oracleModel
	extra        []*fix.Oracle // late joiners
	user         chain.Key
	token        fix.Token

	// C01 state
	lastObserved   uint64
	seenEventNonce map[uint64]int
	execCount      map[uint64]int
	credited       map[string]sdkmath.Int // receiver -> expected credit from executed claims
	baseline       map[string]sdkmath.Int
	checkC01       bool
	checkC02       bool
	outOfOrder     bool
	competing      bool
	crossings      int
	boundaryCross  bool
	log            []string
}

func (r *votesRun) logf(format string, a ...interface{}) {
	s := fmt.Sprintf(format, a...)
	if r.verb {
		fmt.Println(s)
	}
	if len(r.log) < 400 {
		r.log = append(r.log, s)
	}
}

func stakesFor(kind string, n int, rng *rand.Rand) []sdkmath.Int {
	out := make([]sdkmath.Int, n)
	switch kind {
	case "equal":
		for i := range out {
			out[i] = unit.MulRaw(10)
		}
	case "boundary":
		// totals with 66*T mod 100 != 0 and subsets that land exactly on floor / ceil
		for i := range out {
			out[i] = unit.MulRaw(int64(1 + rng.IntN(4)))
		}
	case "frac":
		for i := range out {
			out[i] = unit.MulRaw(int64(1 + rng.IntN(30))).Add(unit.QuoRaw(int64(2 + rng.IntN(5))))
		}
	default:
		for i := range out {
			out[i] = unit.MulRaw(int64(1 + rng.IntN(120)))
		}
	}
	return out
}

func runVotes(cs core.Case, verbose bool, c01, c02 bool) core.CaseResult {
	var spec votesSpec
	res := core.CaseResult{}
	if err := json.Unmarshal(cs.Spec, &spec); err != nil {
		res.Inconclusive = err.Error()
		return res
	}
	r := &votesRun{spec: spec, rng: core.Rng(spec.Seed, 1), res: &res, verb: verbose,
		seenEventNonce: map[uint64]int{}, execCount: map[uint64]int{}, credited: map[string]sdkmath.Int{}, baseline: map[string]sdkmath.Int{},
		checkC01: c01, checkC02: c02}
	r.run()
	res.Sample = map[string]interface{}{"spec": spec, "first_ops": firstN(r.log, 25)}
	return res
}

func firstN(s []string, n int) []string {
	if len(s) > n {
		return s[:n]
	}
	return s
}

func (r *votesRun) run() {
	spec := r.spec
	r.c = chain.New(chain.Config{Seed: spec.Seed, NumVals: 2, NumUsers: 3,
		CrosschainParams: func(name string, p *crosschaintypes.Params) {
			p.SignedWindow = spec.Window
			p.DelegateThreshold = sdk.NewCoin(fxtypes.DefaultDenom, unit)
			p.DelegateMultiple = 500
		}})
	c := r.c
	r.user = c.Users[0]
	b, err := fix.SetupBridge(c, spec.Chain, stakesFor(spec.Stake, spec.N, r.rng))
	if err != nil {
		r.res.Inconclusive = "setup: " + err.Error()
		return
	}
	r.b = b
	// the account that calls bridge-call targets carries the calls' value (a few units are enough)
	fix.Fund(c, chain.ModuleAddr(crosschaintypes.ModuleName), sdk.NewCoin(fxtypes.DefaultDenom, sdkmath.NewInt(1000)))
	for range b.Oracles {
		r.om = append(r.om, &oracleModel{voted: map[int][]uint64{}, votedAt: map[uint64]int{}, variantOf: map[uint64]int{}})
	}
	for i, m := range r.om {
		m.lazy = spec.Churn && i > 0 && r.rng.IntN(4) == 0
	}
	r.checkTotalPower("setup")
	if !r.endBlock() {
		return
	}
	r.buildEvents()
	r.assignVariants()

	for step := 0; step < spec.Steps; step++ {
		if c.BlockErr != nil {
			break
		}
		if step%40 == 39 {
			r.stepGenesisRoundTrip()
		}
		switch x := r.rng.IntN(100); {
		case x < 58:
			r.stepVote()
		case x < 66:
			r.stepHostileVote()
		case x < 76:
			r.stepExecute()
		case x < 88:
			if !r.endBlock() {
				return
			}
		case x < 94:
			if spec.Churn {
				r.stepChurn()
			}
		default:
			r.stepConfirm()
		}
	}
	// drain: let every online oracle catch up, then execute everything twice
	for pass := 0; pass < spec.M+2; pass++ {
		for i := range r.b.Oracles {
			r.voteNext(i, false)
		}
	}
	for n := uint64(1); n <= uint64(spec.M); n++ {
		r.execute(n)
		r.execute(n)
	}
	r.endBlock()
	r.finalChecks()
	r.res.Count("crossings", int64(r.crossings))
	r.res.Nontrivial = r.crossings >= 3 && (r.competing || r.outOfOrder)
	r.res.Sig = fmt.Sprintf("%s/n%d/%s/cross%d/ooo%v/comp%v/b%v", spec.Chain, spec.N, spec.Stake, r.crossings, r.outOfOrder, r.competing, r.boundaryCross)
}

func (r *votesRun) buildEvents() {
	b, spec := r.b, r.spec
	seed := spec.Seed
	tok := fix.TokenAddr(seed, "votes", 0)
	r.token = fix.Token{Ext: tok, Symbol: "USDV"}
	recv := []chain.Key{r.c.Users[1], r.c.Users[2]}
	for i := 1; i <= spec.M; i++ {
		n, h := b.NextEvent()
		e := &event{Nonce: n, Height: h}
		switch {
		case i == 1:
			e.Kind = "bridge_token"
			e.Variants = []fix.ClaimFn{
				b.BridgeTokenClaim(n, h, tok, "Votes USD", "USDV", 18),
				b.BridgeTokenClaim(n, h, tok, "Votes USD", "USDX", 18),
				b.BridgeTokenClaim(n, h, tok, "Votes USD", "USDV", 6),
			}
		case i == 6 || i == 13:
			// events whose handler fails for every variant (the token exists already; FX with other
			// decimals): still observed once, and the nonce is used up
			e.Kind = "bridge_token_refused"
			e.Variants = []fix.ClaimFn{
				b.BridgeTokenClaim(n, h, tok, "Votes USD", "USDV", 18),
				b.BridgeTokenClaim(n, h, tok, "Votes USD again", "USDV", 18),
				b.BridgeTokenClaim(n, h, fix.TokenAddr(seed, "votes-fx", i), "Function X", fxtypes.DefaultDenom, 6),
			}
		case i%5 == 0:
			e.Kind = "oracle_set_updated"
			// a claim of the initial (nonce 0) oracle set: always acceptable by the handler
			mem := func(p uint64) []crosschaintypes.BridgeValidator {
				var ms []crosschaintypes.BridgeValidator
				for _, o := range b.Oracles {
					ms = append(ms, crosschaintypes.BridgeValidator{Power: p, ExternalAddress: o.ExtAddr})
				}
				return ms
			}
			mk := func(p uint64) fix.ClaimFn {
				return func(bridger string) crosschaintypes.ExternalClaim {
					return &crosschaintypes.MsgOracleSetUpdatedClaim{EventNonce: n, BlockHeight: h, OracleSetNonce: 0, Members: mem(p), BridgerAddress: bridger, ChainName: b.Name}
				}
			}
			e.Variants = []fix.ClaimFn{mk(100), mk(101)}
		case i%4 == 3:
			e.Kind = "bridge_call"
			rc := recv[i%2]
			amt := sdkmath.NewInt(int64(1000 + i))
			to, toAcc := rc.Hex(), rc.Acc()
			reentrantValue := sdkmath.ZeroInt()
			if i%8 == 7 {
				// the call's target is a contract that, when called back, asks the precompile to execute
				// this very event again (its effects must not run a second time from inside the first run)
				cc := crosschaintypes.GetAddress()
				reenter, err := crosschaintypes.GetABI().Pack("executeClaim", b.Name, new(big.Int).SetUint64(n))
				if err != nil {
					panic(err)
				}
				if addr, err := r.c.Deploy(r.user, evmasm.ReenterWhilePoor(cc, reenter, 3_000_000, 3)); err == nil {
					reentrantValue = sdkmath.OneInt()
					to, toAcc = addr, sdk.AccAddress(addr.Bytes())
					r.res.Count("reentrant_bridge_call_targets", 1)
				}
			}
			in := fix.BridgeCallIn{Sender: r.user.Hex(), Refund: to, To: to, TxOrigin: r.user.Hex(),
				Tokens: []common.Address{tok}, Amounts: []sdkmath.Int{amt}, Value: reentrantValue}
			in2 := in
			in2.Amounts = []sdkmath.Int{amt.AddRaw(1)}
			in3 := in
			in3.To = r.user.Hex()
			in4 := in
			in4.Refund = r.user.Hex() // the same call, only the refund goes elsewhere
			e.Variants = []fix.ClaimFn{b.BridgeCallClaim(n, h, in), b.BridgeCallClaim(n, h, in2), b.BridgeCallClaim(n, h, in3), b.BridgeCallClaim(n, h, in4)}
			e.Receiver, e.Amount, e.ToERC20 = toAcc, amt, true
		default:
			e.Kind = "send_to_fx"
			rc := recv[i%2]
			amt := sdkmath.NewInt(int64(500 + i))
			target := ""
			if i%2 == 0 {
				target = fxtypes.ERC20Target
			}
			e.Variants = []fix.ClaimFn{
				b.SendToFxClaim(n, h, tok, amt, r.user.Hex(), rc.Acc(), target),
				b.SendToFxClaim(n, h, tok, amt.MulRaw(1000), r.user.Hex(), rc.Acc(), target),
				b.SendToFxClaim(n, h, tok, amt, r.user.Hex(), r.user.Acc(), target),
			}
			e.Receiver, e.Amount, e.ToERC20 = rc.Acc(), amt, target != ""
		}
		r.ev = append(r.ev, e)
	}
}

// assignVariants gives every oracle a claim variant per nonce: a clear majority (by
// current power) votes the truth, the rest split over hostile variants.
func (r *votesRun) assignVariants() {
	for _, e := range r.ev {
		hostile := r.rng.IntN(3) != 0
		for i := range r.b.Oracles {
			v := 0
			if hostile && i > 0 && r.rng.IntN(4) == 0 {
				v = 1 + r.rng.IntN(len(e.Variants)-1)
			}
			r.om[i].variantOf[e.Nonce] = v
		}
	}
}

func (r *votesRun) allOracles() []*fix.Oracle { return r.b.Oracles }

func (r *votesRun) eventBy(n uint64) *event {
	if n == 0 || int(n) > len(r.ev) {
		return nil
	}
	return r.ev[n-1]
}

// --- scheduler steps ---------------------------------------------------------------

func (r *votesRun) stepVote() {
	i := r.rng.IntN(len(r.b.Oracles))
	r.voteNext(i, true)
}

func (r *votesRun) voteNext(i int, trace bool) {
	o := r.b.Oracles[i]
	last := r.b.K.GetLastEventNonceByOracle(r.c.Ctx, o.Oracle.Acc())
	e := r.eventBy(last + 1)
	if e == nil {
		return
	}
	r.vote(i, e, r.om[i].variantOf[e.Nonce], "next")
}

func (r *votesRun) stepHostileVote() {
	i := r.rng.IntN(len(r.b.Oracles))
	o := r.b.Oracles[i]
	last := r.b.K.GetLastEventNonceByOracle(r.c.Ctx, o.Oracle.Acc())
	if ob, stale := r.staleBridger[i]; stale && r.rng.IntN(3) == 0 {
		// the bridger key this oracle used in an earlier bonding lifetime (it re-bonded with another one)
		if e := r.eventBy(last + 1); e != nil {
			before := r.snapshotVotes()
			res := r.c.Msg(fix.WrapClaim(r.b.Name, ob.Bech32(), e.Variants[0](ob.Bech32())))
			r.res.Count("votes_by_a_former_bridger_key", 1)
			if res.OK() {
				r.res.Violate("C02/vote-accepted-from-former-bridger", "a claim for nonce %d signed by %s, the bridger oracle %d used before it unbonded and re-bonded with another bridger, was accepted", e.Nonce, ob.Bech32(), i)
			}
			r.afterOp("former-bridger-vote", before, nil, i)
		}
		return
	}
	switch r.rng.IntN(6) {
	case 0: // vote again for the nonce already voted, same claim
		if e := r.eventBy(last); e != nil {
			r.vote(i, e, r.om[i].variantOf[e.Nonce], "revote-same")
		}
	case 1: // vote again with a competing claim
		if e := r.eventBy(last); e != nil {
			r.vote(i, e, (r.om[i].variantOf[e.Nonce]+1)%len(e.Variants), "revote-other")
		}
	case 2: // skip one
		if e := r.eventBy(last + 2); e != nil {
			r.vote(i, e, 0, "skip")
		}
	case 3: // far behind
		if last > 2 {
			if e := r.eventBy(last - 1); e != nil {
				r.vote(i, e, 0, "old")
			}
		}
	case 4: // a stranger signs the wrapper, the wrapped claim names the victim's bridger
		if e := r.eventBy(last + 1); e != nil {
			r.wrapperMismatchVote(i, e)
		}
	default: // stranger (no oracle) votes
		r.strangerVote()
	}
}

func (r *votesRun) strangerVote() {
	e := r.eventBy(r.lastObserved + 1)
	if e == nil {
		return
	}
	before := r.snapshotVotes()
	res := r.c.Msg(fix.WrapClaim(r.b.Name, r.user.Bech32(), e.Variants[0](r.user.Bech32())))
	r.res.Count("stranger_votes", 1)
	if res.OK() {
		r.res.Violate("C02/vote-by-non-oracle-accepted", "a claim by %s, which is no bridger of any oracle, was accepted for nonce %d", r.user.Bech32(), e.Nonce)
	}
	r.afterOp("stranger", before, nil, 0)
}

// wrapperMismatchVote: MsgClaim{bridger_address: attacker} wrapping a claim whose
// bridger_address is oracle i's bridger. The only account that has to sign this
// transaction is the wrapper's bridger_address.
func (r *votesRun) wrapperMismatchVote(i int, e *event) {
	o := r.b.Oracles[i]
	attacker := r.user
	msg := fix.WrapClaim(r.b.Name, attacker.Bech32(), e.Variants[len(e.Variants)-1](o.Bridger.Bech32()))
	signers, err := r.c.RequiredSigners(msg)
	if err != nil {
		return
	}
	before := r.snapshotVotes()
	bp := r.powerSnapshot()
	res := r.c.Msg(msg)
	r.res.Count("wrapper_mismatch_votes", 1)
	r.logf("wrapper-mismatch vote for o%d nonce=%d signers=%v -> ok=%v %s", i, e.Nonce, signers, res.OK(), short(res.ErrString()))
	if res.OK() {
		signed := false
		for _, s := range signers {
			if s.Equals(o.Bridger.Acc()) {
				signed = true
			}
		}
		after := r.snapshotVotes()
		recorded := false
		for k, vs := range after.att {
			if attNonce(k) == e.Nonce && len(vs) > len(before.att[k]) && vs[len(vs)-1] == o.Oracle.Bech32() {
				recorded = true
			}
		}
		if recorded && !signed && r.checkC02 {
			r.res.Violate("C02/vote-recorded-without-bridger-signature",
				"a MsgClaim whose only required signer is %s (no bridger of any oracle) recorded a vote for oracle %d (bridger %s) on nonce %d", attacker.Bech32(), i, o.Bridger.Bech32(), e.Nonce)
		}
		// keep the model in step: the victim's vote was consumed
		m := r.om[i]
		m.voted[m.lifetime] = append(m.voted[m.lifetime], e.Nonce)
		m.votedAt[e.Nonce] = m.lifetime
		r.competing = true
	}
	r.afterOp(fmt.Sprintf("wrapper-mismatch o%d n%d", i, e.Nonce), before, &bp, i)
}

type voteSnap struct {
	att          map[string][]string // attestation key (nonce/hash hex) -> votes
	lastObserved uint64
}

func (r *votesRun) attestations(ctx sdk.Context) map[string]*crosschaintypes.Attestation {
	out := map[string]*crosschaintypes.Attestation{}
	store := ctx.KVStore(r.c.App.GetKVStoreKey()[r.b.Name])
	it := storetypes.KVStorePrefixIterator(store, crosschaintypes.OracleAttestationKey)
	defer it.Close()
	for ; it.Valid(); it.Next() {
		var att crosschaintypes.Attestation
		if err := r.c.App.AppCodec().Unmarshal(it.Value(), &att); err != nil {
			continue
		}
		out[string(it.Key()[1:])] = &att
	}
	return out
}

func attNonce(key string) uint64 { return sdk.BigEndianToUint64([]byte(key[:8])) }

func (r *votesRun) snapshotVotes() voteSnap {
	s := voteSnap{att: map[string][]string{}, lastObserved: r.b.K.GetLastObservedEventNonce(r.c.Ctx)}
	for k, a := range r.attestations(r.c.Ctx) {
		s.att[k] = append([]string(nil), a.Votes...)
	}
	return s
}

// vote submits oracle i's claim variant v for event e and feeds the monitors.
func (r *votesRun) vote(i int, e *event, v int, why string) {
	o := r.b.Oracles[i]
	c := r.c
	// pre-state needed by the C02 admission rule
	oracleAddr, mapped := r.b.K.GetOracleAddrByBridgerAddr(c.Ctx, o.Bridger.Acc())
	rec, found := r.b.K.GetOracle(c.Ctx, o.Oracle.Acc())
	admissible := mapped && found && rec.Online && oracleAddr.Equals(o.Oracle.Acc())
	before := r.snapshotVotes()
	beforePower := r.powerSnapshot()

	var ok bool
	var errStr string
	if r.spec.Signed && r.rng.IntN(10) == 0 {
		// real signed transaction in FinalizeBlock.Txs (signer = the wrapper's bridger)
		msg := fix.WrapClaim(r.b.Name, o.Bridger.Bech32(), e.Variants[v](o.Bridger.Bech32()))
		txr, err := c.DeliverTx([]chain.Key{o.Bridger}, msg)
		if err != nil {
			r.blockFailed(err)
			return
		}
		ok, errStr = txr.Code == 0, txr.Log
		r.res.Count("signed_tx_votes", 1)
		r.afterBlock()
		r.noteABCIEvents(txr.Events)
	} else {
		res := r.b.Vote(o, e.Variants[v])
		ok, errStr = res.OK(), res.ErrString()
		r.noteSDKEvents(res.Events)
	}
	r.res.Count("votes_submitted", 1)
	r.logf("vote o%d nonce=%d variant=%d (%s) -> ok=%v %s", i, e.Nonce, v, why, ok, short(errStr))
	if ok {
		r.res.Count("votes_accepted", 1)
		if !admissible {
			r.res.Violate("C02/vote-accepted-from-inadmissible-oracle",
				"vote of oracle %d for nonce %d accepted although bridger-mapped=%v registered=%v online=%v", i, e.Nonce, mapped, found, found && rec.Online)
		}
		m := r.om[i]
		lt := m.lifetime
		if prev := m.voted[lt]; len(prev) > 0 && e.Nonce != prev[len(prev)-1]+1 {
			r.res.Violate("C01/non-contiguous-vote-accepted", "oracle %d: accepted vote for nonce %d after nonce %d in the same bonding lifetime (%s)", i, e.Nonce, prev[len(prev)-1], why)
		}
		if plt, dup := m.votedAt[e.Nonce]; dup {
			if plt == lt {
				r.res.Violate("C01/oracle-voted-twice-for-nonce", "oracle %d: second vote for nonce %d accepted in the same bonding lifetime (%s)", i, e.Nonce, why)
			} else {
				r.res.Count("revote_after_rebond", 1)
				// harmless if that nonce was already observed or the vote is stored once;
				// a double count if the address now sits twice in a still unobserved attestation
				if e.Nonce > before.lastObserved && r.checkC02 {
					for k, a := range r.attestations(c.Ctx) {
						cnt := 0
						for _, vv := range a.Votes {
							if vv == o.Oracle.Bech32() {
								cnt++
							}
						}
						if attNonce(k) == e.Nonce && cnt > 1 {
							r.res.Violate("C02/oracle-counted-twice-after-rebond", "oracle %d voted for nonce %d in bonding lifetime %d and again in lifetime %d while the nonce was still unobserved: its address is stored %d times in the attestation and its power tallied as often", i, e.Nonce, plt, lt, cnt)
						}
					}
				}
			}
		}
		m.voted[lt] = append(m.voted[lt], e.Nonce)
		m.votedAt[e.Nonce] = lt
		if r.variantVoted == nil {
			r.variantVoted = map[string]map[uint64]int{}
		}
		if r.variantVoted[o.Oracle.Bech32()] == nil {
			r.variantVoted[o.Oracle.Bech32()] = map[uint64]int{}
		}
		r.variantVoted[o.Oracle.Bech32()][e.Nonce] = v
		r.curNonce, r.curVariant = e.Nonce, v
		if v != 0 {
			r.competing = true
		}
		if e.Nonce > before.lastObserved+1 {
			r.res.Count("run_ahead_votes", 1)
		}
	} else if why == "next" && admissible {
		r.res.Count("admissible_vote_rejected", 1)
	}
	r.afterOp(fmt.Sprintf("vote o%d n%d v%d", i, e.Nonce, v), before, &beforePower, i)
}

func short(s string) string {
	s = strings.ReplaceAll(s, "\n", " ")
	if len(s) > 120 {
		return s[:120]
	}
	return s
}

func (r *votesRun) blockFailed(err error) {
	r.res.Inconclusive = "block processing failed (C07 territory): " + short(err.Error())
}

type powerSnap struct {
	total  sdkmath.Int
	power  map[string]sdkmath.Int // oracle bech32 -> power (registered oracles)
	online map[string]bool
}

func (r *votesRun) powerSnapshot() powerSnap {
	ps := powerSnap{total: r.b.K.GetLastTotalPower(r.c.Ctx), power: map[string]sdkmath.Int{}, online: map[string]bool{}}
	for _, o := range r.b.K.GetAllOracles(r.c.Ctx, false) {
		ps.power[o.OracleAddress] = o.DelegateAmount.Quo(sdk.DefaultPowerReduction)
		ps.online[o.OracleAddress] = o.Online
	}
	return ps
}

// afterOp is the online checker: it runs after every operation.
func (r *votesRun) afterOp(what string, before voteSnap, pw *powerSnap, voter int) {
	c := r.c
	now := r.b.K.GetLastObservedEventNonce(c.Ctx)
	atts := r.attestations(c.Ctx)
	if r.checkC01 {
		if now != before.lastObserved && now != before.lastObserved+1 {
			r.res.Violate("C01/last-observed-jump", "%s: last observed event nonce went %d -> %d", what, before.lastObserved, now)
		}
		observedPerNonce := map[uint64]int{}
		for k, a := range atts {
			n := attNonce(k)
			if a.Observed {
				observedPerNonce[n]++
				if n > now {
					r.res.Violate("C01/observed-beyond-last", "%s: attestation of nonce %d is Observed while last observed nonce is %d", what, n, now)
				}
			}
			seen := map[string]bool{}
			for _, v := range a.Votes {
				if seen[v] {
					r.res.Violate("C01/oracle-twice-in-attestation", "%s: oracle %s appears twice in the votes of attestation nonce %d", what, v, n)
				}
				seen[v] = true
			}
		}
		for n, k := range observedPerNonce {
			if k > 1 {
				r.res.Violate("C01/two-observed-attestations", "%s: %d attestations of nonce %d are Observed", what, k, n)
			}
		}
		if now > 0 && now <= crosschaintypes.MaxKeepEventSize && observedPerNonce[now] != 1 {
			r.res.Violate("C01/observed-flag-missing", "%s: last observed nonce is %d but %d attestations of it are marked Observed", what, now, observedPerNonce[now])
		}
	}
	if now == before.lastObserved+1 {
		r.crossings++
		r.lastObserved = now
		r.res.Count("observations", 1)
		// an out-of-order quorum: some later nonce already has an attestation with votes
		for k, a := range atts {
			if attNonce(k) > now && len(a.Votes) > 0 {
				r.outOfOrder = true
				r.res.Count("observed_while_later_nonce_has_votes", 1)
				break
			}
		}
		if r.checkC02 && pw != nil {
			r.checkQuorum(what, now, atts, *pw)
		}
	} else {
		r.lastObserved = now
	}
	if r.token.Base == "" {
		r.resolveToken()
	}
	if r.checkC02 {
		r.checkTotalPower(what)
	}
}

// checkQuorum recomputes, independently of the keeper's tally, the power behind the
// attestation that has just been observed.
func (r *votesRun) checkQuorum(what string, nonce uint64, atts map[string]*crosschaintypes.Attestation, pw powerSnap) {
	var obs *crosschaintypes.Attestation
	for k, a := range atts {
		if attNonce(k) == nonce && a.Observed {
			obs = a
		}
	}
	if obs == nil {
		return
	}
	distinct := map[string]bool{}
	power := sdkmath.ZeroInt()
	for _, v := range obs.Votes {
		if distinct[v] {
			continue
		}
		distinct[v] = true
		if p, ok := pw.power[v]; ok {
			power = power.Add(p)
		}
	}
	// 100*power >= 66*total, exact integers
	lhs := power.MulRaw(100)
	rhs := pw.total.MulRaw(66)
	r.res.Count("quorum_checks", 1)
	floor := rhs.QuoRaw(100)
	if !rhs.ModRaw(100).IsZero() && power.Equal(floor) {
		r.boundaryCross = true
	}
	if lhs.LT(rhs) {
		key := "C02/observed-below-66-percent"
		if power.GTE(floor) {
			key = "C02/observed-below-66-percent/truncated-threshold"
		}
		r.res.Violate(key, "%s: nonce %d observed with distinct registered voting power %s of recorded total %s (%s%% < 66%%); voters=%d",
			what, nonce, power, pw.total, pct(power, pw.total), len(distinct))
	}
	// "each of whom voted for that very event": the voters counted must have sent the claim that takes effect
	// (the one of the voter who crossed the bar); voters this monitor has no record of are given the benefit
	if r.curNonce == nonce && !lhs.LT(rhs) {
		same := sdkmath.ZeroInt()
		others := 0
		for v := range distinct {
			vv, known := r.variantVoted[v][nonce]
			if known && vv != r.curVariant {
				others++
				continue
			}
			if p, ok := pw.power[v]; ok {
				same = same.Add(p)
			}
		}
		if same.MulRaw(100).LT(rhs) {
			r.res.Violate("C02/observed-on-votes-for-different-events", "%s: nonce %d took effect in the form its last voter sent (variant %d), but only %s of the recorded total %s voted for that form; %d counted voters had sent a different claim",
				what, nonce, r.curVariant, same, pw.total, others)
		}
	}
	// live-power clause: the bar must not be weaker than 66% of the online oracles' power
	online := sdkmath.ZeroInt()
	for a, p := range pw.power {
		if pw.online[a] {
			online = online.Add(p)
		}
	}
	if power.MulRaw(100).LT(online.MulRaw(66)) && !lhs.LT(rhs) {
		r.res.Violate("C02/observed-below-66-percent-of-live-power", "%s: nonce %d observed with power %s, online power %s, recorded total %s", what, nonce, power, online, pw.total)
	}
}

func pct(a, b sdkmath.Int) string {
	if b.IsZero() {
		return "inf"
	}
	return sdkmath.LegacyNewDecFromInt(a).MulInt64(100).QuoInt(b).String()[:6]
}

func (r *votesRun) checkTotalPower(what string) {
	if !r.checkC02 {
		return
	}
	ps := r.powerSnapshot()
	online := sdkmath.ZeroInt()
	for a, p := range ps.power {
		if ps.online[a] {
			online = online.Add(p)
		}
	}
	r.res.Count("total_power_checks", 1)
	if ps.total.LT(online) {
		r.res.Violate("C02/total-power-below-online-power", "%s: recorded total power %s < combined power of online oracles %s", what, ps.total, online)
	}
}

func (r *votesRun) endBlock() bool {
	before := r.snapshotVotes()
	if _, err := r.c.Next(); err != nil {
		r.blockFailed(err)
		return false
	}
	r.afterBlock()
	r.afterOp("end-block", before, nil, 0)
	return true
}

func (r *votesRun) afterBlock() {}

func (r *votesRun) noteEvent(typ string, attrs map[string]string) {
	if typ != crosschaintypes.EventTypeContractEvent || attrs[sdk.AttributeKeyModule] != r.b.Name {
		return
	}
	var n uint64
	fmt.Sscan(attrs[crosschaintypes.AttributeKeyEventNonce], &n)
	r.seenEventNonce[n]++
	r.res.Count("contract_events", 1)
	if r.checkC01 && r.seenEventNonce[n] > 1 {
		r.res.Violate("C01/contract-event-emitted-twice", "contract_event for nonce %d was emitted %d times", n, r.seenEventNonce[n])
	}
}

func (r *votesRun) noteSDKEvents(evs sdk.Events) {
	for _, e := range evs {
		m := map[string]string{}
		for _, a := range e.Attributes {
			m[a.Key] = a.Value
		}
		r.noteEvent(e.Type, m)
	}
}

func (r *votesRun) noteABCIEvents(evs []abci.Event) {
	for _, e := range evs {
		m := map[string]string{}
		for _, a := range e.Attributes {
			m[a.Key] = a.Value
		}
		r.noteEvent(e.Type, m)
	}
}

func (r *votesRun) stepExecute() {
	if r.lastObserved == 0 {
		return
	}
	n := 1 + uint64(r.rng.IntN(int(r.lastObserved)+1)) // may be one beyond (not yet observed)
	r.execute(n)
}

// execute calls the executeClaim precompile for nonce n from a third party.
func (r *votesRun) execute(n uint64) {
	c := r.c
	e := r.eventBy(n)
	if e == nil {
		return
	}
	_, pendingBefore := r.b.K.GetPendingExecuteClaim(c.Ctx, n)
	var balBefore sdkmath.Int
	if !e.Receiver.Empty() {
		balBefore = r.holdings(e.Receiver)
	}
	data, err := crosschaintypes.GetABI().Pack("executeClaim", r.b.Name, new(big.Int).SetUint64(n))
	if err != nil {
		panic(err)
	}
	to := crosschaintypes.GetAddress()
	before := r.snapshotVotes()
	er := c.EthTx(r.user, &to, data, nil, 3_000_000)
	ok := !er.Failed()
	r.res.Count("execute_calls", 1)
	r.logf("executeClaim n=%d pending=%v -> ok=%v %s", n, pendingBefore, ok, short(er.VmError()))
	_, pendingAfter := r.b.K.GetPendingExecuteClaim(c.Ctx, n)
	if r.checkC01 {
		if ok {
			r.execCount[n]++
			r.res.Count("execute_ok", 1)
			if !pendingBefore {
				r.res.Violate("C01/executed-without-pending-claim", "executeClaim(%d) succeeded although no claim was parked for it", n)
			}
			if r.execCount[n] > 1 {
				r.res.Violate("C01/claim-executed-twice", "executeClaim(%d) succeeded %d times", n, r.execCount[n])
			}
			if pendingAfter {
				r.res.Violate("C01/pending-claim-survives-execution", "claim %d still parked after successful execution", n)
			}
		} else if pendingBefore != pendingAfter {
			r.res.Violate("C01/failed-execution-changed-pending", "executeClaim(%d) failed but the parked claim changed (%v -> %v)", n, pendingBefore, pendingAfter)
		}
		if !e.Receiver.Empty() {
			delta := r.holdings(e.Receiver).Sub(balBefore)
			want := sdkmath.ZeroInt()
			if ok {
				want = r.truthAmount(n)
			}
			if !delta.Equal(want) && r.token.Base != "" {
				r.res.Violate("C01/execution-credit-mismatch", "executeClaim(%d) ok=%v changed the receiver's holdings by %s, expected %s", n, ok, delta, want)
			}
		}
	}
	r.afterOp(fmt.Sprintf("execute n%d", n), before, nil, 0)
}

// truthAmount: the amount of the claim that was actually observed for nonce n (the
// majority may have been a hostile variant; the executed effect is judged by C03).
func (r *votesRun) truthAmount(n uint64) sdkmath.Int {
	for k, a := range r.attestations(r.c.Ctx) {
		if attNonce(k) != n || !a.Observed {
			continue
		}
		cl, err := crosschaintypes.UnpackAttestationClaim(r.c.App.AppCodec(), a)
		if err != nil {
			continue
		}
		switch m := cl.(type) {
		case *crosschaintypes.MsgSendToFxClaim:
			if m.Receiver == r.eventBy(n).Receiver.String() {
				return m.Amount
			}
			return sdkmath.ZeroInt()
		case *crosschaintypes.MsgBridgeCallClaim:
			if common.HexToAddress(m.To) == common.BytesToAddress(r.eventBy(n).Receiver) || crosschaintypes.ExternalAddrToHexAddr(r.b.Name, m.To) == common.BytesToAddress(r.eventBy(n).Receiver) {
				return m.Amounts[0]
			}
			return sdkmath.ZeroInt()
		}
	}
	return sdkmath.ZeroInt()
}

// holdings = bank base coin + ERC-20 balance of the workload token.
func (r *votesRun) holdings(a sdk.AccAddress) sdkmath.Int {
	if r.token.Base == "" {
		r.resolveToken()
	}
	if r.token.Base == "" {
		return sdkmath.ZeroInt()
	}
	bal := r.c.Balance(r.c.Ctx, a, r.token.Base)
	erc := r.c.ERC20Balance(r.c.Ctx, r.token.ERC20, common.BytesToAddress(a))
	return bal.Add(sdkmath.NewIntFromBigInt(erc))
}

// resolveToken registers the coin pair once the bridge token has been observed.
func (r *votesRun) resolveToken() {
	denom := crosschaintypes.NewBridgeDenom(r.b.Name, fix.ExtAddr(r.b.Name, r.token.Ext))
	if !r.b.K.HasBridgeToken(r.c.Ctx, denom) {
		return
	}
	pair, err := fix.RegisterCoin(r.c, "Votes USD", "USDV", 18, denom)
	if err != nil {
		return
	}
	r.token.BridgeDenom, r.token.Base, r.token.ERC20 = denom, pair.Denom, common.HexToAddress(pair.Erc20Address)
}

func (r *votesRun) stepConfirm() {
	var diligent []*fix.Oracle
	for i, o := range r.b.Oracles {
		if !r.om[i].lazy {
			diligent = append(diligent, o)
		}
	}
	r.b.ConfirmAllPending(diligent)
	r.res.Count("confirm_rounds", 1)
}

// stepChurn: membership changes between votes.
func (r *votesRun) stepChurn() {
	c := r.c
	i := 1 + r.rng.IntN(len(r.b.Oracles)-1)
	o := r.b.Oracles[i]
	rec, found := r.b.K.GetOracle(c.Ctx, o.Oracle.Acc())
	before := r.snapshotVotes()
	switch r.rng.IntN(5) {
	case 0: // re-bond a slashed oracle
		if found && !rec.Online && !r.om[i].removed {
			slash := rec.GetSlashAmount(r.b.K.GetSlashFraction(c.Ctx))
			amt := slash.Add(unit)
			if slash.IsPositive() && r.rng.IntN(2) == 0 {
				amt = slash // pays exactly the penalty: comes back online with unchanged stake
			}
			res := c.Msg(&crosschaintypes.MsgAddDelegate{ChainName: r.b.Name, OracleAddress: o.Oracle.Bech32(), Amount: sdk.NewCoin(fxtypes.DefaultDenom, amt)})
			r.logf("add-delegate o%d -> %s", i, short(res.ErrString()))
			if res.OK() {
				r.res.Count("rebonds", 1)
			}
		}
	case 1: // add stake
		if found && rec.Online {
			res := c.Msg(&crosschaintypes.MsgAddDelegate{ChainName: r.b.Name, OracleAddress: o.Oracle.Bech32(), Amount: sdk.NewCoin(fxtypes.DefaultDenom, unit.MulRaw(int64(1+r.rng.IntN(3))))})
			if res.OK() {
				r.res.Count("stake_adds", 1)
			}
		}
	case 2: // governance removes the oracle
		if found && !r.om[i].removed {
			var keep []*fix.Oracle
			for j, x := range r.b.Oracles {
				if j != i && !r.om[j].removed {
					keep = append(keep, x)
				}
			}
			res := r.b.SetOracleList(keep)
			r.logf("gov-remove o%d -> %s", i, short(res.ErrString()))
			if res.OK() {
				r.om[i].removed = true
				r.res.Count("gov_removals", 1)
			}
		}
	case 3: // removed oracle unbonds and is re-admitted and re-bonds: a new bonding lifetime
		if found && r.om[i].removed {
			// the stake can be withdrawn only once the unbonding period has passed: let it pass
			if r.rng.IntN(2) == 0 {
				if _, err := c.EndBlock(22 * 24 * time.Hour); err != nil {
					r.blockFailed(err)
					return
				}
				if !r.endBlock() {
					return
				}
				before = r.snapshotVotes()
			}
			res := c.Msg(&crosschaintypes.MsgUnbondedOracle{ChainName: r.b.Name, OracleAddress: o.Oracle.Bech32()})
			r.logf("unbond o%d -> %s", i, short(res.ErrString()))
			if res.OK() {
				r.res.Count("unbonds", 1)
			}
		}
		if _, still := r.b.K.GetOracle(c.Ctx, o.Oracle.Acc()); !still && r.om[i].removed && (!found || r.rng.IntN(2) == 0) {
			var keep []*fix.Oracle
			for j, x := range r.b.Oracles {
				if j == i || !r.om[j].removed {
					keep = append(keep, x)
				}
			}
			if res := r.b.SetOracleList(keep); res.OK() {
				// every second time it comes back with a new bridger key
				oldBridger := o.Bridger
				if r.rng.IntN(2) == 0 {
					o.Bridger = chain.DeriveKey(r.spec.Seed, "rebridger", i*1000+r.om[i].lifetime)
					fix.Fund(c, o.Bridger.Acc(), chain.FXCoin(1)) // (an account to sign transactions with)
				}
				res2 := r.b.Bond(o, unit.MulRaw(int64(1+r.rng.IntN(5))))
				if !res2.OK() {
					o.Bridger = oldBridger
				} else if o.Bridger.Bech32() != oldBridger.Bech32() {
					if r.staleBridger == nil {
						r.staleBridger = map[int]chain.Key{}
					}
					r.staleBridger[i] = oldBridger
					r.res.Count("rebonds_with_a_new_bridger", 1)
				}
				if res2.OK() {
					r.om[i].removed = false
					r.om[i].lifetime++
					r.res.Count("readmissions", 1)
					r.logf("re-admit o%d lifetime=%d", i, r.om[i].lifetime)
				}
			}
		}
	default: // toggle laziness
		r.om[i].lazy = !r.om[i].lazy
	}
	r.afterOp("churn", before, nil, 0)
}

func (r *votesRun) finalChecks() {
	if !r.checkC01 {
		return
	}
	// every event nonce emitted at most once over the whole history
	for n, k := range r.seenEventNonce {
		if k > 1 {
			r.res.Violate("C01/contract-event-emitted-twice", "contract_event for nonce %d was emitted %d times", n, k)
		}
	}
	// per-oracle store value equals the last accepted vote of the current lifetime
	for i, o := range r.b.Oracles {
		m := r.om[i]
		v := m.voted[m.lifetime]
		if len(v) == 0 {
			continue
		}
		if _, found := r.b.K.GetOracle(r.c.Ctx, o.Oracle.Acc()); !found {
			continue
		}
		got := r.b.K.GetLastEventNonceByOracle(r.c.Ctx, o.Oracle.Acc())
		if got != v[len(v)-1] {
			r.res.Violate("C01/oracle-last-nonce-mismatch", "oracle %d: stored last event nonce %d, last accepted vote %d", i, got, v[len(v)-1])
		}
	}
}

// stepGenesisRoundTrip: export / wipe / import of the bridge module on a branch. What decides votes and
// quorums must survive it: the recorded total power, the oracle records and indexes, the last observed
// nonce, every oracle's last voted nonce, the attestations and the parked claims.
func (r *votesRun) stepGenesisRoundTrip() {
	ctx, diffs, err := r.b.GenesisRoundTrip()
	r.res.Count("genesis_round_trips", 1)
	if err != nil {
		r.res.Violate("C02/genesis-round-trip-failed", "export / import of the %s module: %v", r.b.Name, err)
		return
	}
	if r.checkC02 {
		total := r.b.K.GetLastTotalPower(ctx)
		online := sdkmath.ZeroInt()
		for _, o := range r.b.K.GetAllOracles(ctx, true) {
			online = online.Add(o.DelegateAmount.Quo(sdk.DefaultPowerReduction))
		}
		if total.LT(online) {
			r.res.Violate("C02/total-power-below-online-power/after-genesis-import", "after export and import of the module's genesis the recorded total power is %s, the online oracles have %s", total, online)
		}
	}
	if r.checkC01 {
		// an oracle's position in the event sequence survives: a lower one after the import lets it vote again
		// for a nonce it has voted for (a second, competing claim)
		for i, o := range r.b.Oracles {
			if _, found := r.b.K.GetOracle(r.c.Ctx, o.Oracle.Acc()); !found {
				continue
			}
			was, is := r.b.K.GetLastEventNonceByOracle(r.c.Ctx, o.Oracle.Acc()), r.b.K.GetLastEventNonceByOracle(ctx, o.Oracle.Acc())
			r.res.Count("oracle_positions_compared_across_genesis_round_trips", 1)
			if is < was {
				r.res.Violate("C01/oracle-position-lost-by-genesis-round-trip", "oracle %d has voted up to nonce %d; after export and import of the module's genesis it is expected at nonce %d again (last observed nonce %d)", i, was, is+1, r.b.K.GetLastObservedEventNonce(ctx))
			}
		}
	}
	for _, d := range diffs {
		if len(d.Key) == 0 {
			continue
		}
		r.res.Count(fmt.Sprintf("genesis_round_trip_diff_prefix_%02x", d.Key[0]), 1)
		if r.verb {
			fmt.Printf("  round-trip diff: %s\n", d.String())
		}
	}
}
