#!/bin/bash
# setup_cmd: regenerate harness/go.mod + go.sum from /repo's go.mod (same replace blocks),
# then warm the build cache. Offline only.
set -euo pipefail
cd "$(dirname "$0")"
. ./env.sh
REPO="${VERIF_REPO:-/repo}"
gen_gomod() {
  local out="$1" repo="$2"
  {
    echo "module verif/harness"
    echo
    echo "go 1.23"
    echo
    echo "require github.com/functionx/fx-core/v8 v8.0.0"
    echo
    echo "replace github.com/functionx/fx-core/v8 => $repo"
    echo
    # copy the repo's own replace blocks verbatim
    awk '/^replace \(/{p=1} p{print} /^\)/{if(p){p=0;print ""}}' "$repo/go.mod"
    awk '/^replace [^(]/{print}' "$repo/go.mod"
  } > "$out"
}
gen_gomod harness/go.mod "$REPO"
cp "$REPO/go.sum" harness/go.sum
(cd harness && go mod tidy >/dev/null 2>&1 || true)
# warm build (non-fatal: check.sh builds again anyway)
./check.sh --build-only || true
