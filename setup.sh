#!/bin/bash
# setup_cmd: build the framework offline from files on disk (warms the Go build cache).
set -uo pipefail
cd "$(dirname "$0")"
. ./env.sh
cmp -s /repo/go.sum harness/go.sum || cp /repo/go.sum harness/go.sum
./check.sh --build-only
# C17 runs one replica per history under the Go race detector: warm that build as well
(cd harness && go build -race -tags verif -o ../bin/vcheck.race ./cmd/vcheck)
