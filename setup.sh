#!/bin/bash
# setup_cmd: build the framework offline from files on disk (warms the Go build cache).
set -uo pipefail
cd "$(dirname "$0")"
. ./env.sh
cmp -s /repo/go.sum harness/go.sum || cp /repo/go.sum harness/go.sum
./check.sh --build-only
