#!/usr/bin/env python3
"""Regenerates /verif/MANIFEST.json from the table below (keeps it schema-valid)."""
import json, subprocess, os, sys
V = os.path.dirname(os.path.dirname(os.path.abspath(__file__)))

def repo_hook_commits():
    try:
        out = subprocess.check_output(["git", "-C", "/repo", "log", "--format=%H %s"], text=True)
    except Exception:
        return []
    return [l.split()[0] for l in out.splitlines() if " verif-hook:" in l or l.split(" ", 1)[1].startswith("verif:")]

# id -> (level category, technique, level text, level note, design ref)
CHECKS = {
 "C01": ("exploration", "online history checker over generated vote schedules on the real app (exactly-once / in-order monitor)",
         "Held on the executions observed: seeded schedules of N oracles x competing claims x churn, including events whose handler fails for every variant (they are observed once and use up their nonce all the same); after every operation the attestation store, last-observed nonce, per-oracle vote runs and parked-claim executions are checked.",
         "Votes enter through the real message router on the block's finalize-state context; claims only in-process (a wire-decoded MsgClaim fails ValidateBasic at this commit, observation O5).", "4 C01"),
 "C02": ("exploration", "independent re-tally of every observed attestation + admission/signer monitor on generated vote schedules",
         "Held on the executions observed: at each observation the voter set is re-tallied from the store with exact integer arithmetic, once over all stored voters and once over those that (by the monitor's own record) sent the claim that takes effect; vote admission and required signers are checked per vote (also for the bridger key of an earlier bonding lifetime); total power vs online power after every operation, also after an export / wipe / import of the module genesis on a branch.",
         "Power = recorded delegate amount / power reduction; signers resolved with the app codec.", "4 C02"),
 "C03": ("exploration", "stateless ClaimHash injectivity sweep + twin-branch quorum executions compared by full store diff",
         "Held on the pairs and quorums explored: every listed field of all six claim types is varied (counters also by 2^8 / 2^16 / 2^32 / 2^63, plus separator re-splits of free-form fields) and hashes compared; each (type, field, voter position), plus a voter that writes another chain's name into the claim, is also run as a real quorum on a branched state and compared byte-for-byte with the all-honest branch.",
         "Full multistore dumps of two copy-on-write branches; claims built in-process.", "4 C03"),
 "C07": ("exploration", "crash monitor on real FinalizeBlock/Commit over aging workloads (pending objects x confirm patterns x governance outcomes)",
         "Held on the blocks executed: every block of generated histories that age unconfirmed oracle sets, batches and bridge calls past the signed window (bridge calls with and without tokens), churn the oracle set and end proposals in pass/fail/panic (including proposals by which the governance account spends its own balance, the deposit escrow, proposals carrying unacceptable per-type rules followed by proposals of the types they name, and proposals that double or halve the signed window) is a real FinalizeBlock+Commit; any error or panic is a violation (apart from the listed known finding F15).",
         "Universal over reachable states, only sampled; operations enter through the message router / EVM keeper.", "4 C07"),
 "C16": ("exploration", "registry-discovered authority messages x hostile authorities on state branches with full multistore diff; compare-and-set monitor for raw store updates",
         "Held on the (type, payload, authority) triples explored: every routable message with an authority field is discovered from the interface registry; rejected variants must leave the complete multistore byte-identical (also when the handler is run without the tx-level discard), positive controls with the governance authority must succeed; hostile authorities are tried even when the control fails; a pair whose contract is destroyed is among the payloads; the crosschain messages are also tried on a chain fresh from genesis (no oracle list, no earlier parameter change).",
         "Types without a curated valid payload are listed as uncovered in the evidence (2 IBC-core types).", "4 C16"),
 "C12": ("exploration", "differential checkpoint check against an independent abi.encode + re-verification monitor over the confirm stores under hostile submissions",
         "Held on the objects and submissions explored: fx-core's three checkpoint digests (Ethereum-style and Tron) are compared with an independently written abi.encode over random and boundary-valued objects; on the real app every stored confirmation is re-verified (signer, bridger, object, uniqueness) after each honest, malformed, malleated, over-long, transplanted, misnamed (other token contract) or duplicate submission (stored signatures are exactly 65 bytes); the store migration on pre-upgrade parameters keeps the bridge id and the digests.",
         "The deployed contract cannot be executed here; it is represented by harness/abienc written from FxBridgeLogic.sol. ECDSA recovery is trusted.", "4 C12"),
 "C13": ("exploration", "store/index cross-check, stake-movement accounting and slash-justification monitor over generated oracle life-cycle histories with real unbonding",
         "Held on the histories observed: after every operation the raw oracle records and both lookup indexes are cross-checked; an approved newcomer tries to bond with the bridger or external address of a registered (preferably offline) oracle; bond / add-delegate / re-delegate / removal / unbond are measured on bank and staking state; each oracle taken offline in an end block must have an aged unconfirmed object created after it joined; the remove -> mature (21 days virtual time, real staking end blocker) -> withdraw cycle is completed and repeated, including governance re-admission; the join height is modelled independently of the stored one; the recorded stake of an online oracle is held for it and lies inside the configured bounds (add-delegates land on the maximum, one unit past it and well past it); re-admission and add-delegate also happen in the very block in which the removed stake matures; governance switches the penalty fraction off, to its legal maximum of one, and back, and an online oracle carries no penalty count; with the maximal penalty and a slashed validator the penalty is capped at the stake that came back; unbonds leave the FX escrowed in the chain's module account untouched; every 16 steps the module's genesis is exported, wiped and imported on a branch and the oracle records and both indexes come back byte for byte.",
         "Zero inflation and zero fees in the harness genesis make 'stake minus penalties' an exact amount.", "4 C13"),
 "C04": ("exploration", "per-operation balance-effect monitor + store-side conservation equation + cumulative withdrawability probe over generated bridge histories with an external-chain model",
         "Held on the histories observed (apart from the listed known findings): after every operation the holdings of every tracked account in every token group are compared with what the operation explicitly moves; users + in-flight = initial + deposits - externally executed withdrawals is evaluated from the raw stores; at the end all holders withdraw their whole balances on a branch; the total supply of the native coin stays constant through every bridge operation; some histories flood the pool with a hundred transfers, some leave a deposit unexecuted while more than a hundred later events are observed and then execute it; deposits with an IBC target are executed against less, exactly and more voucher liquidity than they need (loop-back fixture).",
         "External chain = executable model of FxBridgeLogic.sol acceptance rules; zero inflation / zero gas price so FX is conserved too.", "4 C04"),
 "C05": ("exploration", "online reference model of pool / batch / bridge-call records synchronised with the raw stores after every operation (legal-transition monitor)",
         "Held on the histories observed (apart from the listed known finding): ids sequential and never reused, every transfer in exactly one place, content byte-equal to the request, only the location changes the operation may cause, refunds exact, third-party and post-batch cancels rejected, executed never refunded; who pays what on send / fee increase (also by a third party) / cancel; a batch returns to the pool only when a later batch of the same token was executed or its timeout was observed; a bridge call removed by the timeout path pays exactly its tokens to its refund address; cancels also arrive through a stranger's contract called by the owner; fees are also offered in another token's denomination.",
         "Same workload and model as C04.", "4 C05"),
 "C06": ("exploration", "release monitor against the last observed external height and the external model's execution record, with heights swept around every live timeout",
         "Held on the histories observed: every batch returned to the pool without execution and every bridge call refunded by timeout is checked against the last observed external height (observed >= timeout) and against what the external model executed (no double spend); batches are born with a timeout above the observed height; timeouts are made non-monotone (fast fxcore clock, second batch of a token) and observed results are sometimes only parked and executed later, out of nonce order, and the execution of one call's result may remove that call only; one case starts from a genesis state that installs a bridge token while no external event has been observed (nothing may be batched); every fourth history runs on a mature fxcore (height 5,000,000) bridging a young external chain; a quarter of the batch executions are reported by a split vote while the same oracles already report the next event (events must still be observed in order).",
         "The stricter comparison the code uses for batches (timeout < observed) is accepted; only observed < timeout is flagged.", "4 C06"),
 "C08": ("exploration", "book-balance invariant monitor after every transaction over conversion histories and generated mixed token/precompile contract programs, plus targeted per-method probes",
         "Held on the histories observed (apart from the listed known findings): escrow vs ERC-20 supply, module-held ERC-20 vs coin supply over all denominations, sum of balances vs supply and the pair/denom/contract/alias indexes vs bank metadata are evaluated after every conversion, governance update and generated contract program; aliases are added and removed (also from the middle of the list); each conversion's effect on every user is exact, also when the receiver is a module account or the token contract; probes with an ERC-20 that returns false instead of reverting (converted, and sent out through the crossChain precompile), with a symbol that clashes with an alias by case, with a denomination that starts with a chain name, with a module-owned coin whose denomination differs from the native one only by letter case, and with an alias given to the native coin (locking FX for alias coins interleaved with wrapping and unwrapping WFX).",
         "ERC-20 holders = every account the workload used + all auth accounts + module accounts.", "4 C08"),
 "C09": ("fault_enumeration", "differential twin execution (discarded calls removed, same addresses) compared by full multistore diff and precompile logs, with a gas-limit sweep as fault injector",
         "Held on the executions observed: generated call trees over every state-changing precompile method run at ample gas and at sampled gas limits from below intrinsic up to the ample consumption, directly and inside a catching wrapper; every execution equals its twin in which the discarded calls never ran; systematically every precompile step succeeds inside a frame that is thrown away afterwards (with and without earlier native actions); the precompile accounts hold nothing after a transaction; every step is also sent by an externally-owned account directly (a failed transaction leaves the sender's sequence only); every kept withdraw call shows its Withdraw log; calls whose operation cannot be carried out in the fixture (among them the execution of a parked result whose bridge call does not exist, which panics) are removed from the twin even when they do not revert.",
         "Allowed differences: code/storage/account record of the generated program contracts, the sender's sequence when the whole transaction fails.", "4 C09"),
 "C10": ("exploration", "portfolio monitor over all non-caller accounts, call-context matrix (STATICCALL/DELEGATECALL/CALLCODE/static-nested) with Cosmos-side store diff, governance switch with real parameter updates",
         "Held on the calls observed (apart from the listed known finding): every state-changing method called by an attacker and by attacker contracts with arguments naming a victim's assets leaves every non-caller portfolio undiminished except exact allowance use (also over two transactions: raising the fee of the victim's queued transfer, then cancelling it; an allowance that was granted and taken back cannot be used); non-writable contexts fail with empty Cosmos-side diff; disabled addresses/methods (mixed case) cannot execute and re-enabling restores.",
         "Pending rewards not part of the portfolio (zero inflation in this fixture).", "4 C10"),
 "C11": ("exploration", "share-sum / crisis-invariant monitor after every operation, exact share-movement check, reward equality against a twin branch using plain withdraw, exit probe with real unbonding",
         "Held on the histories observed: generated staking-precompile histories among EOAs and contract accounts with reward-producing blocks and validator slashing; sums of delegation shares equal validator shares, all registered invariants hold, transfers move exactly the shares and never while a redelegation into the sender's delegation is immature (also when a spender moves them right after the owner's redelegation), rewards equal the twin's, both parties' reward base equals the value of the shares they hold after the transfer, everybody can withdraw and fully undelegate and the funds arrive.",
         "Real inflation is on in this fixture so that rewards are non-zero.", "4 C11"),
 "C14": ("exploration", "twin-chain differential (migrated vs never migrated, same seed), portfolio equality, raw residue scan of staking/distribution stores, refusal matrix over proposal life-cycle points",
         "Held on the cases observed: seeded portfolios migrate completely (every third one in the very block in which its earliest unbonding or redelegation entry matures) (balances, delegations with rewards, unbonding and redelegation entries and their queue entries), the source is empty, totals and invariants unchanged, no record or index still carries the source address, the staking records, indexes and queues equal those of the never-migrated twin with the address renamed; later withdraw / undelegate / maturation pay the target exactly what the never-migrated twin pays the source; migration is refused for bad signatures, reused addresses, validator operators (also one that has withdrawn its own stake), sources with locked coins (all or nothing), targets with staking records (and, after the migration of an account that holds balances only, for a second source onto the used target and for the used addresses as sources) and for proposers / depositors / voters of proposals at four points of their life, also after governance has shortened the voting and deposit periods.",
         "The source account's secp256k1 public key is written at set-up; the delegator-withdraw-address record is exempt from the residue scan.", "4 C14"),
 "C15": ("exploration", "online reference model of proposals, deposits and tallies checked after every block, plus twin-branch comparison for partially failing proposals",
         "Held on the histories observed: gov-module balance equals the stored deposits after every block, every deposit leaves exactly once (refund or burn), voting starts in the block where the total deposit first reaches the minimum applicable to the message type (community-pool spends: configured share of the request when larger), ends after the period of the type, is tallied with the quorum of the type (turnouts exactly equal to the quorum are produced on purpose); expedited proposals (after governance sets their minimum deposit in FX) use the expedited minimum, period and threshold, and one that does not pass becomes a regular proposal that keeps its deposits and loses its votes; a third of the deposits are sent as the legacy v1beta1 message; mixed-type proposals (also with a wrapped legacy content) are rejected; a passed proposal whose k-th message fails equals the voted-down twin outside the gov store.",
         "Voting-power model assumes exchange rate 1 (no slashing in this workload); per-type parameters only change while no proposal of the type is open.", "4 C15"),
 "C18": ("fault_enumeration", "tolerated-failure boundaries with the failure placed first / middle / last, compared by full multistore diff against the designated outcome computed on a twin branch",
         "Held on the boundaries and failure points enumerated: observed events whose handler fails, inbound bridge calls carrying 1-3 tokens whose contract reverts late / loops to the gas cap / hits INVALID or whose k-th token is unconvertible (conversion switched off, or the token's contract destroyed) (refund address equal to or different from the receiver; with and without the send-then-call memo; receiver a contract, or a plain account that already owns coins and ERC-20 units of the tokens), passed n-message proposals whose k-th message errors / reverts after writes / runs out of gas / panics (alone, or followed by another passing proposal in the same block), and IBC packets whose conversion or memo call fails; the state afterwards equals the twin that failed at entry apart from the designated record.",
         "Twins are copy-on-write branches with different code at the same address; IBC packets go through the real IBC core over a loop-back channel.", "4 C18"),
 "C19": ("exploration", "loop-back IBC fixture (real IBC core + fx middleware on the real app): balance/ERC-20/supply snapshot oracle per packet, memo-caller monitor, refund-exactly-once and relation-record monitor under replays and interleavings over two channels",
         "Held on the packets and endings observed: inbound packets over five denom kinds x receiver kinds x amounts x memo kinds (hostile packet data committed through the channel keeper) credit exactly the amount as ERC-20 (native for FX) to the hex receiver (who may already own bank coins of the voucher, which stay untouched) on a success acknowledgement and nothing on an error acknowledgement; a coin merely spelled FX on the sending chain is a foreign voucher; memo calls run as hash(port/channel, sender), and the same sender over the two channels of a pair runs as two different callers, repeatably; outbound transfers from the crossChain precompile end by ack-success / ack-error / timeout in random interleavings over two channels, each replayed: refund exact, in the original form, once; relation record gone; a relay that arrives while governance has switched the token's conversion off or removed the voucher alias, is refused without effect (or refunds in ERC-20 form) and succeeds after governance has undone it.",
         "ERC-20-originated outbound transfers exist only under a labelled fixture (see assumptions in the evidence); the remote chain is the other end of a loop-back channel.", "4 C19"),
 "C20": ("exploration", "panic monitors (recover + worker-process death) over wire-level mutants of every registered message type decoded by the node's tx decoder, precompile call-data fuzzing through the real EVM, parser fuzzing; CheckTx verdicts vs an independent statement of the minimum-fee rule on apps with different exemption settings",
         "Held on the inputs explored (apart from the listed known finding in a dependency): every message type of the interface registry is generated reflectively, mutated at wire level (field omission at two levels, duplication, truncation, bit flips), decoded as the node does and given to ValidateBasic, signer resolution and the real CheckTx; every precompile method is called with well-formed, truncated, random and hostile-offset call data as transaction and eth_call; address/target parsers on random and near-valid strings; signed transactions around gas = n*allowance and fee = ceil(price*gas), also with fees in a coin the node quotes no price for, on apps with six exemption lists, four allowances and four node prices.",
         "A panic recovered by baseapp still counts. A worker process that dies is reported as a violation (CrashIsViolation).", "4 C20"),
 "C17": ("exploration", "replay of recorded workload histories in separate processes under different GOMAXPROCS / GOGC / TZ / LANG settings; per-operation and per-block digest traces (application hash, results, events) compared line by line, divergences pinpointed to the component; plus one replica of every history in a binary built with the Go race detector (go build -race), whose reports are attributed to their first fx-core frame",
         "No divergence in R replays (quick 3, thorough 6) of the corpus apart from the listed known finding: complete cases of eleven other workloads (for IBC an outbound history first: its packet commitments carry a timeout computed from the block time, which lies in the past at replay) (votes, pool, aging end blocks, conversions, precompile call trees, staking precompile, oracle life cycles, migration, gov, tolerated failures, IBC) and oracle-churn histories dropping several bonded oracles per governance update, sending two-token bridge calls, letting five bridge calls of one block time out together, and ending proposals that fail at execution, and power-threshold histories in which twenty oracles add stake so that the summed change of the normalised powers equals the governance-set 20/40/60/80 % threshold exactly (amounts found by search against a model of the normalisation; the evidence counts the rounds that landed exactly); gas per operation is part of the trace; odd replicas dry-run every operation on a discarded copy first; the race-detector replica of every history ran without a report in a path through fx-core.",
         "Order dependence on a k-element map shows up with probability 1-1/k! per extra replica; the race-detector replica reports unsynchronised sharing on the paths the corpus executes, whatever the schedule was; reports without any fx-core frame (a dependency's own goroutines) are counted, not judged.", "4 C17"),
}
NOT_YET = {}
def load_props():
    ids = []
    for l in open(os.path.join(V, "properties.jsonl")):
        ids.append(json.loads(l)["id"])
    return ids

def main():
    na_reasons = {}
    p = os.path.join(V, "tools", "not_applicable.json")
    if os.path.exists(p):
        na_reasons = json.load(open(p))
    checks = []
    for pid in load_props():
        if pid not in CHECKS:
            continue
        cat, tech, text, note, ref = CHECKS[pid]
        checks.append({
            "property_id": pid,
            "quick_cmd": f"./check.sh {pid} quick",
            "thorough_cmd": f"./check.sh {pid} thorough",
            "evidence_file": f"/verif/evidence/{pid}.json",
            "replay_cmd_template": f"./check.sh {pid} quick --replay {{path}}",
            "engine": "vcheck",
            "level_claimed": {"category": cat, "text": text, "design_ref": "DESIGN.md section " + ref},
            "level_note": note,
            "technique": tech,
        })
    na = []
    for pid in load_props():
        if pid not in CHECKS:
            na.append({"property_id": pid, "reason": na_reasons.get(pid, "monitor not built yet in this session (runtime monitoring applies; see DESIGN.md section 4)")})
    m = {
        "version": 1,
        "setup_cmd": "./setup.sh",
        "hooks": {
            "guard": "verif",
            "enable": "go build -tags verif (check.sh builds the harness, which replaces github.com/functionx/fx-core/v8 by /repo, with -tags verif)",
            "baseline_off_cmd": "cd /repo && GOFLAGS=-mod=mod go test -json -vet=off -count=1 -timeout 25m ./...",
            "source_commits": repo_hook_commits(),
            "add_only": True,
        },
        "engines": [{"name": "vcheck", "path": "/verif/harness", "serves_properties": sorted(CHECKS.keys()),
                     "kind_free_text": "Go harness driving the real fx-core app (ABCI blocks, message router, EVM) under generated workloads with online monitors, store differencing and twin executions"}],
        "checks": checks,
        "not_applicable": na,
        "notes": "All checks: ./check.sh <id> <quick|thorough>; exit 0 held / 1 VIOLATION / 2 INCONCLUSIVE. VERIF_SEED selects the case list. Known findings: /verif/known_findings.json.",
    }
    json.dump(m, open(os.path.join(V, "MANIFEST.json"), "w"), indent=1)
    print("checks:", [c["property_id"] for c in checks], "na:", len(na))

if __name__ == "__main__":
    main()
