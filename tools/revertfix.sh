#!/bin/bash
# revertfix.sh : for every "fix:" commit recorded in known_findings.json, apply its reverse diff to a scratch
# worktree of /repo (SEEDWT, default /tmp/seedwt) and run the quick check of its property: the violation must be
# reported again (a "fixed" entry suppresses nothing). Prints one line per commit. Not a registered check.
cd /verif; . ./env.sh
export SEEDWT=${SEEDWT:-/tmp/seedwt}
python3 - <<'PY' > /tmp/revertfix.list
import json
seen=set()
for e in json.load(open('/verif/known_findings.json')):
    if e.get('status')=='fixed' and (e['property'],e['commit']) not in seen:
        seen.add((e['property'],e['commit'])); print(e['property'],e['commit'])
PY
while read P C; do
  # reverse the commit by a three-way revert in the scratch worktree (later fixes touch the same files)
  [ -d "$SEEDWT" ] || git -C /repo worktree add -q --detach "$SEEDWT" HEAD
  git -C "$SEEDWT" checkout -q --detach "$(git -C /repo rev-parse HEAD)"; git -C "$SEEDWT" reset -q --hard
  git -C "$SEEDWT" revert -n $C > /dev/null 2>&1 || { echo "$P $C revert conflicts (do it by hand)"; git -C "$SEEDWT" reset -q --hard; continue; }
  # 66cd530 removed nothing but its reverse drops an import that a later fix needs
  if ! (cd "$SEEDWT" && go build ./x/... > /dev/null 2>&1); then sed -i '0,/^import (/s//import (\n\t"errors"/' $(git -C "$SEEDWT" diff HEAD --name-only | sed "s#^#$SEEDWT/#" | head -1); fi
  git -C "$SEEDWT" diff HEAD > /tmp/revertfix.$C.diff; git -C "$SEEDWT" reset -q --hard
  OUT=$(timeout 1500 tools/seedrun.sh /tmp/revertfix.$C.diff $P quick 2>&1)
  echo "$P $C $(echo "$OUT" | grep -E '^(violations:|exit=|patch does not apply)' | tr '\n' ' ') $(echo "$OUT" | grep -E '^ *[0-9]+ C[0-9]{2}/' | head -2 | sed -E 's/ :: .*//' | tr '\n' ' ')"
  rm -f /tmp/revertfix.$C.diff
done < /tmp/revertfix.list
rm -f /tmp/revertfix.list
