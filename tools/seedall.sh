#!/bin/bash
# seedall.sh [tier] : run every stored seeded change against the quick (or given) check of its own property in the
# scratch worktree (SEEDWT, default /tmp/seedwt) and print one line each; a regression run for the tables in DESIGN 9.4.
cd /verif
export SEEDWT=${SEEDWT:-/tmp/seedwt}
TIER=${1:-quick}
for d in seeded/C*/ seeded/C*/r*/; do
  [ -f $d/patch.diff ] || continue
  P=$(echo $d | sed -E 's#seeded/(C[0-9]+)/.*#\1#')
  OUT=$(timeout 1500 tools/seedrun.sh /verif/$d/patch.diff $P $TIER 2>&1)
  echo "$d $P $(echo "$OUT" | grep -E '^(violations:|exit=|patch does not apply)' | tr '\n' ' ') $(echo "$OUT" | grep -E '^ *[0-9]+ C[0-9]{2}/' | head -1 | sed -E 's/^ *[0-9]+ //; s/ :: .*//')"
done
