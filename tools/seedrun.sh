#!/bin/bash
# seedrun.sh <patch.diff> <PROP> [tier]
# Runs one check against a seeded change. Default: apply to /repo, run, undo (git -C /repo checkout -- .).
# With SEEDWT=<dir> a scratch worktree of /repo is used instead (VERIF_REPO), so /repo stays untouched.
set -u
PATCH="$1"; PROP="$2"; TIER="${3:-quick}"
cd /verif
R=/repo
if [ -n "${SEEDWT:-}" ]; then
  R="$SEEDWT"
  [ -d "$R" ] || git -C /repo worktree add -q --detach "$R" HEAD || exit 9
  git -C "$R" checkout -q --detach "$(git -C /repo rev-parse HEAD)"
  export VERIF_REPO="$R"
fi
if [ -n "$(git -C $R status --porcelain --untracked-files=no)" ]; then echo "$R not clean"; exit 9; fi
git -C $R apply "$PATCH" || { echo "patch does not apply"; exit 9; }
# the run rewrites evidence/<PROP>.json from a deliberately broken tree: keep the committed record
EV=/verif/evidence/$PROP.json; [ -f $EV ] && cp $EV /tmp/seedrun.$$.ev
trap 'git -C $R checkout -- . ; [ -f /tmp/seedrun.$$.ev ] && mv -f /tmp/seedrun.$$.ev $EV' EXIT
L=/tmp/seedrun.$$.log
./check.sh "$PROP" "$TIER" > $L 2>&1; rc=$?
grep -c "^VIOLATION" $L | sed "s/^/violations: /"
grep "^VIOLATION" $L | sed 's/.*key=//' | cut -c1-260 | sort | uniq -c | sort -rn | head -${SEEDSHOW:-6}
tail -3 $L | cut -c1-300
rm -f $L
echo "exit=$rc"
