#!/bin/bash
# seedstore.sh <src dir (patch.diff, demo_test.go, meta.json)> <PROP> <round> <demo pkg dir> <go test flags...>
# Confirms a seeded change (tools/seedverify.sh), runs the property's quick check against it (tools/seedrun.sh in
# the scratch worktree given by SEEDWT) and stores patch, demonstration and meta.json under seeded/<PROP>/<round>/.
set -u
SRC="$1"; PROP="$2"; ROUND="$3"; PKG="$4"; shift 4
cd /verif
DST=seeded/$PROP/$ROUND; mkdir -p $DST
cp $SRC/patch.diff $SRC/demo_test.go $DST/
# (a confirmation already produced by tools/seedverify.sh may be passed in SEEDCONF)
if [ -n "${SEEDCONF:-}" ] && [ -s "$SEEDCONF" ]; then CONF=$(grep '^{"applies"' "$SEEDCONF" | tail -1); else CONF=$(tools/seedverify.sh $SRC $PKG "$@" 2>&1 | grep '^{"applies"' | tail -1); fi
RUN=$(timeout 1500 tools/seedrun.sh $SRC/patch.diff $PROP quick 2>&1)
KEYS=$(echo "$RUN" | grep -E '^ *[0-9]+ C[0-9]{2}/' | sed -E 's/^ *[0-9]+ //; s/ :: .*//' | sort -u | head -6 | python3 -c "import sys,json;print(json.dumps([l.strip() for l in sys.stdin if l.strip()]))")
TIER=quick
if [ "$KEYS" = "[]" ]; then
  RUN=$(timeout 3000 tools/seedrun.sh $SRC/patch.diff $PROP thorough 2>&1)
  KEYS=$(echo "$RUN" | grep -E '^ *[0-9]+ C[0-9]{2}/' | sed -E 's/^ *[0-9]+ //; s/ :: .*//' | sort -u | head -6 | python3 -c "import sys,json;print(json.dumps([l.strip() for l in sys.stdin if l.strip()]))")
  TIER=thorough
  [ "$KEYS" = "[]" ] && TIER=none
fi
python3 - "$SRC/meta.json" "$DST/meta.json" "$CONF" "$KEYS" "$TIER" "$ROUND" <<'PY'
import json,sys
src,dst,conf,keys,tier,rnd=sys.argv[1:7]
m=json.load(open(src))
m["confirmed_in_scratch_worktree"]=json.loads(conf) if conf.strip() else {"error":"seedverify produced no result"}
m["caught_by"]={"violation_keys":json.loads(keys),"tier":tier,"note":""}
m["origin"]="round %s: fresh sub-agent given the property text, a scratch worktree and one-line descriptions of the earlier changes to avoid" % rnd.lstrip("r")
json.dump(m,open(dst,"w"),indent=1)
print(dst, m["confirmed_in_scratch_worktree"], tier, keys[:200])
PY
