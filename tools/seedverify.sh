#!/bin/bash
# seedverify.sh <dir with patch.diff+demo_test.go> <demo pkg dir> <go test run flags...>
# Confirms in a scratch worktree of /repo (HEAD): the change compiles, the existing tests of the touched
# module directories still pass with it, the demonstration fails with it and passes without it.
set -u
. /verif/env.sh
D="$1"; PKG="$2"; shift; shift
WT=$(mktemp -d /tmp/seedverify.XXXXXX); rmdir $WT
git -C /repo worktree add -q --detach $WT HEAD || exit 9
cleanup() { git -C /repo worktree remove --force $WT; }
trap cleanup EXIT
cd $WT
git apply "$D/patch.diff" || { echo '{"applies": false}'; exit 1; }
go build ./... > /tmp/sv.$$.build 2>&1; BUILD=$?
MODS=$(grep '^+++ b/' "$D/patch.diff" | sed 's#^+++ b/##' | awk -F/ '{ if (NF > 2) print "./"$1"/"$2"/..."; else print "./"$1"/..." }' | sort -u | tr '\n' ' ')
go test -vet=off -count=1 $MODS > /tmp/sv.$$.exist 2>&1; EXIST=$?
cp "$D/demo_test.go" "$PKG/zz_seed_demo_test.go"
go test -vet=off -count=1 "./$PKG" "$@" > /tmp/sv.$$.with 2>&1; WITH=$?
git apply -R "$D/patch.diff"
go test -vet=off -count=1 "./$PKG" "$@" > /tmp/sv.$$.without 2>&1; WITHOUT=$?
echo "{\"applies\": true, \"build_rc\": $BUILD, \"existing_tests\": \"go test -vet=off -count=1 $MODS\", \"existing_tests_rc\": $EXIST, \"demo_with_change_rc\": $WITH, \"demo_without_change_rc\": $WITHOUT, \"base_commit\": \"$(git -C /repo rev-parse --short HEAD)\"}"
grep -E "^(--- FAIL|FAIL|ok)" /tmp/sv.$$.with | head -5
grep -E "^(--- FAIL|FAIL|ok)" /tmp/sv.$$.without | head -3
grep -E "^(--- FAIL|FAIL)" /tmp/sv.$$.exist | head -5
rm -f /tmp/sv.$$.*
