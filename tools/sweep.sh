#!/bin/bash
# sweep.sh <tier> <seed> [props...] : run checks, one summary line each (builds once).
cd /verif; . ./env.sh
TIER="${1:-quick}"; SEED="${2:-1}"; shift; shift
PROPS="$@"; [ -z "$PROPS" ] && PROPS=$(python3 -c "import json;print(' '.join(c['property_id'] for c in json.load(open('MANIFEST.json'))['checks']))")
./check.sh --build-only || exit 3
for p in $PROPS; do
  s=$(date +%s)
  ./bin/vcheck -prop $p -tier $TIER -seed $SEED -verif /verif > /tmp/sweep.$$.log 2>&1; rc=$?
  e=$(( $(date +%s) - s ))
  echo "$p rc=$rc ${e}s viol=$(grep -c '^VIOLATION' /tmp/sweep.$$.log) known=$(grep -c '^KNOWN-FINDING' /tmp/sweep.$$.log) $(grep -E '^(C[0-9]+ tier|INCONCLUSIVE)' /tmp/sweep.$$.log | head -2 | cut -c1-160 | tr '\n' ' ')"
  [ $rc -ne 0 ] && grep -E '^(VIOLATION|INCONCLUSIVE)' /tmp/sweep.$$.log | head -5 | cut -c1-400
done
rm -f /tmp/sweep.$$.log
